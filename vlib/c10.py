"""C10: `const` names cannot be written to by any syntactic form.

Tie T5: exhaustive enumeration of (declaration context x write form x write context) x value type.
Every program is a small structured AST that is rendered (a) as MScript text for the real compiler and
(b) as a term of the Coq mini-AST (Const/Model.v) for the model's verdict.
Three comparisons per triple:
  spec     : the verdict the PROPERTY demands (rejected / harmless shadow / by-design copy) vs the binary,
             plus the value printed after the attempted write (must be the initializer),
  neighbour: the same program with the const-ness removed must be accepted (else the triple is inapplicable),
  model    : Coq `check cfg_fixed` verdict vs the binary (correspondence).
A second stream of random nested programs over the same AST widens the correspondence beyond the templates.
"""
import os
import re
import shutil

from . import core, programs

# ------------------------------------------------------------------ names <-> Coq N
NAMES = {}


def nm(x):
    return NAMES.setdefault(x, len(NAMES) + 1)


# ------------------------------------------------------------------ AST -> MScript text

def rx(e):
    k = e[0]
    if k == "lit":
        return e[1]
    if k == "var":
        return e[1]
    if k == "self":
        return "self"
    if k == "bin":
        return "(%s %s %s)" % (rx(e[2]), e[1], rx(e[3]))
    if k == "index":
        return "%s[%s]" % (rx(e[1]), rx(e[2]))
    if k == "field":
        return "%s.%s" % (rx(e[1]), e[2])
    if k == "call":
        return "%s(%s)" % (rx(e[1]), ", ".join(rx(a) for a in e[2]))
    if k == "mcall":
        return "%s.%s(%s)" % (rx(e[1]), e[2], ", ".join(rx(a) for a in e[3]))
    if k == "list":
        return "[%s]" % ", ".join(rx(a) for a in e[1])
    if k == "opassign":
        return "%s %s %s" % (rx(e[2]), e[1], rx(e[3]))
    if k == "opassign_p":       # parenthesised, usable as an operand
        return "(%s %s %s)" % (rx(e[2]), e[1], rx(e[3]))
    if k == "unwrap":
        return "%s ?= %s" % (rx(e[1]), rx(e[2]))
    if k == "fn":
        ps = ", ".join("%s: %s" % (p, t) if t else p for p, t in e[1])
        ret = " -> %s" % e[2] if e[2] else ""
        return "fn(%s)%s {\n%s}" % (ps, ret, rb(e[3], 1))
    raise ValueError(e)


def rs(s, ind):
    pad = "  " * ind
    k = s[0]
    if k == "assign":
        _, c, m, x, ty, rhs = s
        fl = ("const " if c else "") + ("modify " if m else "")
        return "%s%s%s%s = %s\n" % (pad, fl, x, ": " + ty if ty else "", rx(rhs).replace("\n", "\n" + pad))
    if k == "unpack":
        return "%s%s[%s] = %s\n" % (pad, "const " if s[1] else "", ", ".join(s[2]), rx(s[3]))
    if k == "reassign":
        return "%s%s = %s\n" % (pad, rx(s[1]), rx(s[2]))
    if k == "expr":
        return "%s%s\n" % (pad, rx(s[1]).replace("\n", "\n" + pad))
    if k == "print":
        return "%sprint %s\n" % (pad, rx(s[1]))
    if k == "break":
        return pad + "break\n"
    if k == "if":
        t = "%sif %s {\n%s%s}" % (pad, rx(s[1]), rb(s[2], ind + 1), pad)
        if s[3] is not None:
            t += " else {\n%s%s}" % (rb(s[3], ind + 1), pad)
        return t + "\n"
    if k == "while":
        return "%swhile %s {\n%s%s}\n" % (pad, rx(s[1]), rb(s[2], ind + 1), pad)
    if k == "from":
        return "%sfrom %s to %s%s {\n%s%s}\n" % (pad, rx(s[1]), rx(s[2]), ", " + s[3] if s[3] else "", rb(s[4], ind + 1), pad)
    if k == "class":
        _, x, fields, cps, cbody, methods = s
        t = "%sclass %s {\n" % (pad, x)
        for f, ty in fields:
            t += "%s  %s: %s\n" % (pad, f, ty)
        t += "%s  constructor(%s) {\n%s%s  }\n" % (pad, ", ".join(["self"] + ["%s: %s" % p for p in cps]), rb(cbody, ind + 2), pad)
        for mn, ps, ret, body in methods:
            t += "%s  fn %s(%s)%s {\n%s%s  }\n" % (pad, mn, ", ".join(["self"] + ["%s: %s" % p for p in ps]),
                                                 " -> " + ret if ret else "", rb(body, ind + 2), pad)
        return t + pad + "}\n"
    if k == "import":
        return "%simport %s\n" % (pad, s[1])
    if k == "importnames":
        return "%simport %s from %s\n" % (pad, ", ".join(s[1]), s[2])
    if k == "raw":          # text only; modelled as a no-op
        return pad + s[1] + "\n"
    raise ValueError(s)


def rb(b, ind=0):
    return "".join(rs(s, ind) for s in b)


# ------------------------------------------------------------------ AST -> Coq term (Const/Model.v)

def cfold(es):
    if not es:
        return "ELit"
    t = cx(es[0])
    for e in es[1:]:
        t = "(EBin %s %s)" % (t, cx(e))
    return t


def cnames(xs):
    return "[" + "; ".join("%d%%N" % nm(x) for x in xs) + "]"


def cx(e):
    k = e[0]
    if k == "lit":
        return "ELit"
    if k == "var":
        return "ELit" if e[1] in ("true", "false") else "(EVar %d%%N)" % nm(e[1])
    if k == "self":
        return "ESelf"
    if k == "bin":
        return "(EBin %s %s)" % (cx(e[2]), cx(e[3]))
    if k == "index":
        return "(EIndex %s %s)" % (cx(e[1]), cx(e[2]))
    if k == "field":
        return "(EField %s)" % cx(e[1])
    if k == "call":
        return "(ECall %s %s)" % (cx(e[1]), cfold(e[2]))
    if k == "mcall":
        return "(ECall (EField %s) %s)" % (cx(e[1]), cfold(e[3]))
    if k == "list":
        return cfold(e[1])
    if k in ("opassign", "opassign_p"):
        return "(EOpAssign %s %s)" % (cx(e[2]), cx(e[3]))
    if k == "unwrap":
        return "(EUnwrap %s %s)" % (cx(e[1]), cx(e[2]))
    if k == "fn":
        return "(EFn %s %s)" % (cnames([p for p, _ in e[1]]), cb(e[3]))
    raise ValueError(e)


def cbool(b):
    return "true" if b else "false"


def cs(s):
    k = s[0]
    if k == "assign":
        return "(SAssign %s %s %d%%N %s)" % (cbool(s[1]), cbool(s[2]), nm(s[3]), cx(s[5]))
    if k == "unpack":
        return "(SUnpack %s %s %s)" % (cbool(s[1]), cnames(s[2]), cx(s[3]))
    if k == "reassign":
        return "(SReassign %s %s)" % (cx(s[1]), cx(s[2]))
    if k in ("expr", "print"):
        return "(SExpr %s)" % cx(s[1])
    if k in ("break", "raw"):
        return "(SExpr ELit)"
    if k == "if":
        return "(SIf %s %s %s)" % (cx(s[1]), cb(s[2]), cb(s[3] or []))
    if k == "while":
        return "(SWhile %s %s)" % (cx(s[1]), cb(s[2]))
    if k == "from":
        return "(SFrom %s %s %s %s)" % (cx(s[1]), cx(s[2]), "(Some %d%%N)" % nm(s[3]) if s[3] else "None", cb(s[4]))
    if k == "class":
        _, x, fields, cps, cbody, methods = s
        members = [f for f, _ in fields] + [m[0] for m in methods]
        ms = [("expr", ("fn", [("self", None)] + list(cps), None, cbody))]
        ms += [("expr", ("fn", [("self", None)] + list(ps), None, body)) for _, ps, _, body in methods]
        return "(SClass %d%%N %s %s)" % (nm(x), cnames(members), cb(ms))
    if k == "import":
        return "(SImport %d%%N)" % nm(s[1])
    if k == "importnames":
        return "(SImportNames %s)" % cnames(s[1])
    raise ValueError(s)


def cb(b):
    t = "BNil"
    for s in reversed(b):
        t = "(BCons %s %s)" % (cs(s), t)
    return t


# ------------------------------------------------------------------ the catalogue

VT = {
    "int": {"ty": "int", "init": "5", "other": "7", "ops": ["+=", "-=", "*=", "/=", "%="], "cmp": "0"},
    "bool": {"ty": "bool", "init": "true", "other": "false", "ops": ["+="], "cmp": "true"},
    "str": {"ty": "str", "init": '"x"', "other": '"y"', "ops": ["+="], "cmp": '"q"'},
}
DECL_CTX = ["module", "function", "block", "class", "import", "module_unpack", "function_unpack", "block_unpack"]   # *_unpack: declared by `const [a, dd] = [..]`
FORMS = ["assign", "assign_typed", "redeclare", "op_assign", "unwrap", "modify", "index_assign", "field_assign",
         "index_op_assign", "field_op_assign", "counter", "unpack",
         # the constant in SECOND position of the pattern: after a fresh name / after an existing mutable variable
         # (assignment_unpack.rs records only the FIRST colliding name)
         "unpack_after_fresh", "unpack_after_mutable", "unpack_third"]
UNPACK_FORMS = ("unpack", "unpack_after_fresh", "unpack_after_mutable", "unpack_third")
WRITE_CTX = ["same", "block", "else_block", "function", "method", "loop_header", "other_module",
             # an inner function that first declares its OWN mutable local of the same name (optionally after reading
             # -- hence capturing -- the outer constant) and then writes, directly or from a nested block
             "fn_shadow", "fn_shadow_block", "fn_shadow_read", "fn_shadow_read_block"]
SHADOW_CTX = ("fn_shadow", "fn_shadow_block", "fn_shadow_read", "fn_shadow_read_block")
# `modify` only: several modifies of the same captured variable in ONE inner function.  With the constant the first
# one is already refused; WITHOUT it the program is valid and MUST be accepted (regression of /repo 745d438)
REMODIFY_CTX = ("fn_modify_twice_block", "fn_modify_read_modify", "fn_modify_read_modify_block")
WRITE_CTX += list(REMODIFY_CTX)
BINDING_FORMS = ("assign", "assign_typed", "redeclare", "counter", "unpack", "unpack_after_fresh", "unpack_after_mutable", "unpack_third")
A = ("var", "a")


def lit(t):
    return ("lit", t)


BOX = lambda ty: ("class", "Box", [("v", ty)], [("v", ty)], [("reassign", ("field", ("self",), "v"), ("var", "v"))], [])
EMPTY_CLASS = lambda n: ("class", n, [], [], [], [])


def shape_of(form):
    if form in ("index_assign", "index_op_assign"):
        return "list"
    if form in ("field_assign", "field_op_assign"):
        return "object"
    if form == "unwrap":
        return "optional"
    return "scalar"


def decl_stmts(shape, vt, const, unpack=False):
    v = VT[vt]
    if unpack:
        # the constant is one of the names of a declaration by unpacking (scalars only)
        return [("unpack", const, ["a", "dd"], ("list", [lit(v["init"]), lit(v["init"])]))] if shape == "scalar" else None
    if shape == "scalar":
        return [("assign", const, False, "a", None, lit(v["init"]))]
    if shape == "optional":
        return [("assign", const, False, "a", v["ty"] + "?", lit(v["init"]))]
    if shape == "list":
        return [("assign", const, False, "a", "[%s...]" % v["ty"], ("list", [lit(v["init"]), lit(v["init"])]))]
    if shape == "object":
        return [("assign", const, False, "a", None, ("call", ("var", "Box"), [lit(v["init"])]))]
    raise ValueError(shape)


def observe_expr(shape, root=A):
    if shape == "list":
        return ("index", root, lit("0"))
    if shape == "object":
        return ("field", root, "v")
    return root


def write_stmts(form, vt, op, target=A, rhs=None):
    """statements performing the write on `target` (a name expression); rhs defaults to the other value"""
    v = VT[vt]
    o = rhs or lit(v["other"])
    x = target[1] if target[0] == "var" else None
    if form == "assign":
        return [("assign", False, False, x, None, o)]
    if form == "assign_typed":
        return [("assign", False, False, x, v["ty"], o)]
    if form == "redeclare":
        return [("assign", True, False, x, None, o)]
    if form == "op_assign":
        return [("expr", ("opassign", op, target, o))]
    if form == "unwrap":
        return [("assign", False, False, "b", v["ty"] + "?", o), ("expr", ("unwrap", target, ("var", "b")))]
    if form == "modify":
        return [("assign", False, True, x, None, o)]
    if form == "index_assign":
        return [("reassign", ("index", target, lit("0")), o)]
    if form == "field_assign":
        return [("reassign", ("field", target, "v"), o)]
    if form == "index_op_assign":
        return [("expr", ("opassign", op, ("index", target, lit("0")), o))]
    if form == "field_op_assign":
        return [("expr", ("opassign", op, ("field", target, "v"), o))]
    if form == "counter":
        return [("from", lit("0"), lit("3"), x, [])]
    if form == "unpack":
        return [("unpack", False, [x, "zz"], ("list", [o, o]))]
    if form == "unpack_after_fresh":
        return [("unpack", False, ["zz", x], ("list", [o, o]))]
    if form == "unpack_after_mutable":
        return [("unpack", False, ["mm", x], ("list", [o, o]))]
    if form == "unpack_third":
        return [("unpack", False, ["mm", "zz", x], ("list", [o, o, o]))]
    raise ValueError(form)


def header_stmts(form, vt, op, target=A, variant="while"):
    """the write form placed in a loop header; None when the form is not an expression"""
    v = VT[vt]
    o = lit(v["other"])
    if form == "op_assign":
        e = ("opassign_p", op, target, o)
    elif form == "index_op_assign":
        e = ("opassign_p", op, ("index", target, lit("0")), o)
    elif form == "field_op_assign":
        e = ("opassign_p", op, ("field", target, "v"), o)
    elif form == "unwrap":
        return [("assign", False, False, "b", v["ty"] + "?", o),
                ("while", ("unwrap", target, ("var", "b")), [("break",)])]
    else:
        return None
    if variant == "from" and vt == "int":
        return [("from", e, lit("9"), None, [("break",)])]
    return [("while", ("bin", "==", e, lit(v["cmp"])), [("break",)])]


def wrap(ctx, stmts, shape="scalar", vt="int"):
    if ctx == "same":
        return stmts
    if ctx in REMODIFY_CTX:
        read = [("print", observe_expr(shape))] if "read" in ctx else []
        again = [("if", ("var", "true"), list(stmts), None)] if ctx.endswith("block") else list(stmts)
        return [("assign", False, False, "g", None, ("fn", [], None, list(stmts) + read + again)), ("expr", ("call", ("var", "g"), []))]
    if ctx in SHADOW_CTX:
        pre = [("print", observe_expr(shape))] if "read" in ctx else []
        local = decl_stmts(shape, vt, False)
        inner = [("if", ("var", "true"), stmts, None)] if ctx.endswith("block") else stmts
        return [("assign", False, False, "g", None, ("fn", [], None, pre + local + inner)), ("expr", ("call", ("var", "g"), []))]
    if ctx == "block":
        return [("if", ("var", "true"), stmts, None)]
    if ctx == "else_block":
        return [("if", ("var", "false"), [], stmts)]
    if ctx == "function":
        return [("assign", False, False, "g", None, ("fn", [], None, stmts)), ("expr", ("call", ("var", "g"), []))]
    if ctx == "method":
        return [("class", "K", [], [], [], [("m", [], None, stmts)]),
                ("assign", False, False, "k", None, ("call", ("var", "K"), [])),
                ("expr", ("mcall", ("var", "k"), "m", []))]
    raise ValueError(ctx)


MARK = ("print", lit('"MARK"'))
END = ("print", lit('"END"'))


def build(dctx, form, wctx, vt, op, const=True, hvariant="while"):
    """-> (files{name: AST}, entry) or None when the combination cannot be written down"""
    v = VT[vt]
    shape = shape_of(form)
    unp = dctx.endswith("_unpack")
    if unp:
        dctx = dctx[:-len("_unpack")]
        if shape != "scalar" or wctx == "other_module":
            return None
    if wctx in REMODIFY_CTX and form != "modify":
        return None
    if wctx == "other_module":
        # the constant lives in module m; main writes THROUGH the module (m.a ...), or to an imported copy
        if dctx != "module":
            return None
        if form in ("field_assign", "field_op_assign"):
            # m.a = v / m.a op= v     (a is the exported scalar: "field of the module")
            if form == "field_assign":
                w = [("reassign", ("field", ("var", "m"), "a"), lit(v["other"]))]
            else:
                w = [("expr", ("opassign", op, ("field", ("var", "m"), "a"), lit(v["other"])))]
            mfile = [("assign", const, False, "a", v["ty"], lit(v["init"]), "export")]
            main = [MARK, ("import", "m")] + w + [("print", ("field", ("var", "m"), "a")), END]
            return {"main.ms": main, "m.ms": mfile}
        if shape == "scalar" or shape == "optional":
            # import a from m  -> a local COPY (tests/assignments.rs not_import_const_bypass); forms act on the copy
            w = write_stmts(form, vt, op)
            ty = v["ty"] + ("?" if shape == "optional" else "")
            mfile = [("assign", const, False, "a", ty, lit(v["init"]), "export")]
            main = [MARK, ("importnames", ["a"], "m"), ("import", "m")] + w + [("print", ("field", ("var", "m"), "a")), END]
            return {"main.ms": main, "m.ms": mfile}
        return None
    if dctx in ("module", "function", "block"):
        if wctx == "loop_header":
            w = header_stmts(form, vt, op, variant=hvariant)
            if w is None:
                return None
        else:
            w = wrap(wctx, write_stmts(form, vt, op), shape, vt)
        pre = [BOX(v["ty"])] if shape == "object" else []
        mm = [("assign", False, False, "mm", None, lit(v["other"]))] if form in ("unpack_after_mutable", "unpack_third") else []
        body = mm + decl_stmts(shape, vt, const, unp) + w + [("print", observe_expr(shape))]
        if dctx == "module":
            prog = [MARK] + pre + body + [END]
        elif dctx == "function":
            prog = [MARK] + pre + [("assign", False, False, "h", None, ("fn", [], None, body)),
                                   ("expr", ("call", ("var", "h"), [])), END]
        else:
            prog = [MARK] + pre + [("if", ("var", "true"), body, None), END]
        return {"main.ms": prog}
    if dctx in ("class", "import") and wctx in SHADOW_CTX + REMODIFY_CTX:
        return None
    if dctx == "class":
        # the class name `a` is the constant; the neighbour is a non-const variable holding a constructor
        if form in ("field_assign", "field_op_assign", "index_assign", "index_op_assign", "unwrap", "assign_typed"):
            return None
        if vt != "int":
            return None
        rhs = A
        if form in ("op_assign", "counter"):
            rhs = None
        if wctx == "loop_header":
            w = header_stmts(form, vt, op)
            if w is None:
                return None
        else:
            w = wrap(wctx, write_stmts(form, vt, op, rhs=rhs))
        d = [EMPTY_CLASS("a")] if const else [EMPTY_CLASS("P"), ("assign", False, False, "a", None, ("var", "P"))]
        if form in ("unpack_after_mutable", "unpack_third"):
            d = d + [("assign", False, False, "mm", None, A)]
        return {"main.ms": [MARK] + d + w + [END]}
    if dctx == "import":
        # the module name `a` is the constant (file a.ms exports v); neighbour: a non-const variable holding a module
        if form in ("index_assign", "index_op_assign", "unwrap", "assign_typed"):
            return None
        if form not in ("field_assign", "field_op_assign") and vt != "int":
            return None
        rhs = A
        if form in ("op_assign", "counter", "field_assign", "field_op_assign"):
            rhs = None
        if wctx == "loop_header":
            w = header_stmts(form, vt, op)
            if w is None:
                return None
        else:
            w = wrap(wctx, write_stmts(form, vt, op, rhs=rhs))
        mfile = [("assign", False, False, "v", v["ty"], lit(v["init"]), "export")]
        if form in ("unpack_after_mutable", "unpack_third"):
            w = [("assign", False, False, "mm", None, A)] + w
        if const:
            return {"main.ms": [MARK, ("import", "a")] + w + [("print", ("field", A, "v")), END], "a.ms": mfile}
        return {"main.ms": [MARK, ("import", "m2"), ("assign", False, False, "a", None, ("var", "m2"))] + w +
                [("print", ("field", A, "v")), END], "m2.ms": mfile}
    raise ValueError(dctx)


def render_file(ast):
    out = ""
    for s in ast:
        if s[0] == "assign" and len(s) == 7:      # export flag (module files only)
            out += "export " + rs(s[:6], 0)
        else:
            out += rs(s, 0)
    return out


def coq_program(files):
    """the entry file as a Coq block; imported modules contribute only the names they bind"""
    main = [s[:6] if (s[0] == "assign" and len(s) == 7) else s for s in files["main.ms"]]
    return cb(main)


def expected(dctx, form, wctx):
    if wctx == "other_module" and form not in ("field_assign", "field_op_assign"):
        return "copy"
    if form in BINDING_FORMS and wctx in ("function", "method"):
        return "shadow"
    if wctx in SHADOW_CTX:
        # every form acts on the inner function's own local -- except `modify`, whose store goes to the CAPTURED variable
        return "reject" if form == "modify" else "shadow"
    return "reject"


def enumerate_triples():
    out = []
    for dctx in DECL_CTX:
        for form in FORMS:
            for wctx in WRITE_CTX:
                for vt in VT:
                    ops = VT[vt]["ops"] if form in ("op_assign", "index_op_assign", "field_op_assign") else [None]
                    for op in ops:
                        variants = ["while", "from"] if (wctx == "loop_header" and vt == "int" and op) else ["while"]
                        for hv in variants:
                            p = build(dctx, form, wctx, vt, op, True, hv)
                            if p is None:
                                continue
                            n = build(dctx, form, wctx, vt, op, False, hv)
                            out.append({"dctx": dctx, "form": form, "wctx": wctx, "vt": vt, "op": op, "hv": hv,
                                        "files": p, "neighbour": n, "expect": expected(dctx, form, wctx)})
    return out


# ------------------------------------------------------------------ running

DIAG = re.compile(r"^\s*--> (\S+?):(\d+):(\d+)", re.M)


def run_files(binary, base, texts, typed=False):
    proj = {"files": texts, "entry": "main.ms"}
    d = programs.materialize(proj, base)
    rc, out, err = programs.run_bin(binary, ["run", "main.ms", "-q"], d,
                                    {"MSCRIPT_VERIF_TYPED_PRINT": "1"} if typed else None)
    shutil.rmtree(d, ignore_errors=True)
    return rc, out, err


def verdict(rc, out, err):
    """accepted / rejected (compile-time diagnostic) / runtime (accepted, failed while running) / panic / other"""
    if rc == 0:
        return "accepted"
    if rc == 101 or "panicked at" in err:
        return "panic"
    if "Did not compile successfully" in err:
        return "rejected"
    if "MSCRIPT INTERPRETER" in err or "MARK" in out:
        return "runtime"
    return "other"


def program_lines(out):
    return [l for l in out.splitlines() if l.strip()]


def model_verdicts(ctx, terms, tag):
    """Coq: check cfg_fixed / check cfg_head / no_const_write_b for each program term"""
    res = [None] * len(terms)
    shards = [list(range(i, min(i + 150, len(terms)))) for i in range(0, len(terms), 150)]

    def one(job):
        k, idxs = job
        body = "From MS Require Import Const.Model Const.Spec.\nOpen Scope N_scope.\n"
        for i in idxs:
            body += "Definition p%d : block := %s.\n" % (i, terms[i])
            body += "Eval vm_compute in (%d%%nat, check cfg_fixed p%d, check cfg_head p%d, no_const_write_b p%d).\n" % (i, i, i, i)
        rc, out, err = core.coq_eval("c10_%s_%d" % (tag, k), body, [], timeout=900)
        if rc != 0:
            raise RuntimeError("coq_eval failed: " + (err or out)[-1500:])
        return out

    for out in programs.pmap(one, list(enumerate(shards))):
        for m in re.finditer(r"=\s*\((\d+)%?n?a?t?,\s*(true|false),\s*(true|false),\s*(true|false)\)", out.replace("\n", " ")):
            res[int(m.group(1))] = (m.group(2) == "true", m.group(3) == "true", m.group(4) == "true")
    if any(r is None for r in res):
        raise RuntimeError("coq_eval: missing results (%d of %d)" % (sum(r is None for r in res), len(res)))
    return res


# ------------------------------------------------------------------ random nested programs (correspondence)

class Gen:
    """random programs over int variables: const / non-const declarations and every write form, nested in
    blocks, closures, methods and loops.  Every other aspect is kept well-typed, so the compiler's verdict
    depends on the const / scoping rules only."""

    def __init__(self, rng):
        self.r = rng
        self.n = 0

    def fresh(self):
        self.n += 1
        return "v%d" % self.n

    def gen(self):
        self.n = 0
        body = self.block([], 0, top=True, infn=False)
        return [MARK] + body + [END]

    def pick_visible(self, env):
        names = [x for sc in env for x in sc["vars"]]
        return self.r.choice(names) if names else None

    def kind_of(self, env, x):
        for sc in reversed(env):
            if x in sc["vars"]:
                return sc["vars"][x]
        return None

    def rhs(self, env):
        xs = [x for sc in env for x, k in sc["vars"].items() if k[0] == "int"]
        if xs and self.r.random() < 0.4:
            return ("bin", "+", ("var", self.r.choice(xs)), lit(str(self.r.randrange(1, 9))))
        return lit(str(self.r.randrange(1, 99)))

    def block(self, env, depth, top=False, infn=False):
        env = env + [{"vars": {}, "fn": infn}]
        out = []
        n = self.r.randrange(2, 6) if depth < 3 else self.r.randrange(1, 3)
        for _ in range(n):
            out += self.stmt(env, depth)
        return out

    def stmt(self, env, depth):
        r = self.r
        cur = env[-1]["vars"]
        c = r.random()
        vis = [(x, k) for sc in env for x, k in sc["vars"].items()]
        ints = [x for x, k in vis if k[0] == "int"]
        lists = [x for x, k in vis if k[0] == "list"]
        objs = [x for x, k in vis if k[0] == "obj"]
        opts = [x for x, k in vis if k[0] == "opt"]
        if c < 0.22 or not vis:
            x = self.fresh()
            k = r.choice(["int", "int", "int", "list", "obj", "opt"])
            cst = r.random() < 0.35
            if k == "obj" and not any(kk[0] == "boxclass" for _, kk in vis):
                k = "int"
            cur[x] = (k, cst)
            if k == "int":
                return [("assign", cst, False, x, r.choice([None, "int"]), self.rhs(env[:-1] + [{"vars": {y: v for y, v in cur.items() if y != x}, "fn": False}]))]
            if k == "list":
                return [("assign", cst, False, x, "[int...]", ("list", [lit("1"), lit("2")]))]
            if k == "opt":
                return [("assign", cst, False, x, "int?", lit(r.choice(["nil", "4"])))]
            return [("assign", cst, False, x, None, ("call", ("var", "Box"), [lit("3")]))]
        if c < 0.62:
            # a write form on a visible name (const or not)
            f = r.choice(["assign", "assign_typed", "op", "modify", "index", "field", "index_op", "field_op", "counter",
                          "unwrap", "redeclare", "unpack"])
            if f in ("assign", "assign_typed", "redeclare") and ints:
                x = r.choice(ints)
                cst = f == "redeclare"
                if self.kind_of(env, x) is not None:
                    # within the function the name is updated; across a function it becomes a new local
                    cur.setdefault(x, ("int", cst)) if not self.same_fn(env, x) else None
                return [("assign", cst, False, x, "int" if f == "assign_typed" else None, self.rhs(env))]
            if f == "op" and ints:
                return [("expr", ("opassign", r.choice(["+=", "-=", "*="]), ("var", r.choice(ints)), self.rhs(env)))]
            if f == "modify" and ints:
                return [("assign", False, True, r.choice(ints), None, self.rhs(env))]
            if f == "index" and lists:
                return [("reassign", ("index", ("var", r.choice(lists)), lit("0")), self.rhs(env))]
            if f == "index_op" and lists:
                return [("expr", ("opassign", "+=", ("index", ("var", r.choice(lists)), lit("0")), self.rhs(env)))]
            if f == "field" and objs:
                return [("reassign", ("field", ("var", r.choice(objs)), "v"), self.rhs(env))]
            if f == "field_op" and objs:
                return [("expr", ("opassign", "+=", ("field", ("var", r.choice(objs)), "v"), self.rhs(env)))]
            if f == "counter" and ints:
                x = r.choice(ints + [self.fresh()])
                return [("from", lit("0"), lit("2"), x, self.block(env, depth + 1) if depth < 3 else [])]
            if f == "unwrap" and opts:
                # the target is optional-typed as well: `int ?= int?` is a TYPE error (the target could not hold nil)
                return [("expr", ("unwrap", ("var", r.choice(opts)), ("var", r.choice(opts))))]
            if f == "unpack":
                names = []
                for _ in range(r.choice([2, 2, 3])):
                    nmx = r.choice(ints) if ints and r.random() < 0.45 else self.fresh()
                    if nmx in names:
                        nmx = self.fresh()
                    names.append(nmx)
                for y in names:
                    if not self.same_fn(env, y):
                        cur[y] = ("int", False)
                return [("unpack", False, names, ("list", [lit(str(i + 1)) for i in range(len(names))]))]
            return [("print", self.rhs(env))]
        if depth >= 3:
            return [("print", self.rhs(env))]
        if c < 0.72:
            return [("if", ("bin", "==", self.rhs(env), lit("1")), self.block(env, depth + 1),
                     self.block(env, depth + 1) if r.random() < 0.4 else None)]
        if c < 0.78:
            return [("while", ("var", "true"), self.block(env, depth + 1) + [("break",)])]
        if c < 0.90:
            g = self.fresh()
            body = self.block(env, depth + 1, infn=True)
            cur[g] = ("fn", r.random() < 0.3)
            return [("assign", cur[g][1], False, g, None, ("fn", [], None, body)), ("expr", ("call", ("var", g), []))]
        if c < 0.95 and not any(k[0] == "boxclass" for _, k in vis):
            cur["Box"] = ("boxclass", True)
            return [BOX("int")]
        kn, inst = self.fresh().upper(), self.fresh()
        body = self.block(env + [{"vars": {}, "fn": False}], depth + 1, infn=True)
        cur[kn] = ("class", True)
        cur[inst] = ("inst", False)
        return [("class", kn, [], [], [], [("m", [], None, body)]),
                ("assign", False, False, inst, None, ("call", ("var", kn), [])),
                ("expr", ("mcall", ("var", inst), "m", []))]

    def same_fn(self, env, x):
        for sc in reversed(env):
            if x in sc["vars"]:
                return True
            if sc["fn"]:
                return False
        return False


# ------------------------------------------------------------------ the check

# ---- deep write paths (specification only): several postfix levels, with and without parentheses, rooted at a constant
def deep_path_cases():
    """-> [(id, text with the root const, text with the root mutable, class of a failure)].  A path `root(.f | [i])+`, also written with
    parentheses around a prefix, assigned with `=` or an op-assign.  The mutable twin decides whether the form is
    legal syntax at all; if it is, the const version must be rejected at compile time and nothing may run."""
    pre = ("class Box {\n  items: [int...]\n  n: int\n  inner: [[int...]...]\n  constructor(self) {\n    self.items = [10, 20, 30]\n    self.n = 1\n    self.inner = [[1, 2], [3, 4]]\n  }\n}\n"
           "print \"MARK\"\n")
    roots = {
        "grid": ("%sgrid: [[int...]...] = [[1, 2], [3, 4]]\n", ["grid[0][1]", "(grid[0])[1]", "((grid)[0])[1]", "(grid)[0][1]"]),
        "box": ("%sbox = Box()\n", ["box.items[2]", "(box.items)[2]", "box.inner[1][0]", "(box.inner[1])[0]", "((box.inner)[1])[0]", "(box).n", "(box).items[0]"]),
        "boxes": ("%sboxes: [Box...] = [Box(), Box()]\n", ["boxes[0].n", "(boxes[0]).n", "(boxes[1]).items[0]", "((boxes[1]).items)[0]"]),
        # the constant holds an OPTIONAL: the path reaches its value through `get c` / `(c) or other`; or the constant is
        # the FALLBACK of an `or` whose first operand is nil.  Only op-assign accepts such a left-hand side.
        "opt": ("%sol: [int...]? = [1, 2, 3]\nalt: [int...] = [7, 8, 9]\n", ["(get ol)[0]", "(get (ol))[2]", "((ol) or alt)[1]", "(((ol)) or alt)[2]"]),
        "fallback": ("%scl: [int...] = [4, 5, 6]\nnone: [int...]? = nil\n", ["((none) or cl)[2]"]),
        "optbox": ("%sob: Box? = Box()\nspare = Box()\n", ["(get ob).n", "((ob) or spare).n", "((get ob).items)[0]"]),
        "fallbackbox": ("%scb = Box()\nnob: Box? = nil\n", ["((nob) or cb).n"]),
    }
    shown_of = {"grid": "grid", "box": "[box.items, [box.n], (box.inner)[0], (box.inner)[1]]", "boxes": "[(boxes[0]).n, ((boxes[1]).items)[0]]",
                "opt": "[ol, alt]", "fallback": "cl", "optbox": "[(get ob).n, spare.n, ((get ob).items)[0]]", "fallbackbox": "cb.n"}
    out = []
    for root, (decl, paths) in sorted(roots.items()):
        for pth in paths:
            for w in ("= 5", "+= 40", "*= 2", "-= 1", "%= 3"):
                # the root is printed before and after: only a form that CHANGES the mutable twin is a write form
                # (`a.b[0] += 1` is two statements in this grammar -- one postfix per atom -- and writes nothing)
                shown = shown_of[root]
                # (a statement that starts with `(` or `[` would continue the previous expression: a block statement in between)
                body = "print %s\nif true {\n}\n%s %s\nprint \"END\"\nprint %s\n" % (shown, pth, w, shown)
                cls = "const-write-accepted:through-get-or" if root in ("opt", "fallback", "optbox", "fallbackbox") else "const-write-accepted:deep-path"
                out.append(("%s %s" % (pth, w), pre + decl % "const " + body, pre + decl % "" + body, cls))
    return out


def run_deep_paths(ctx, binary, base):
    cases = deep_path_cases()

    def one(c):
        return run_files(binary, base, {"main.ms": c[1]}), run_files(binary, base, {"main.ms": c[2]})
    n = legal = 0
    for (cid, ctext, mtext, cls), (rc_, rm_) in zip(cases, programs.pmap(one, cases)):
        n += 1
        vm = verdict(*rm_)
        if vm != "accepted":
            continue            # not a legal write form even on a mutable root: nothing to demand of the const version
        ls = rm_[1].split("\n")
        if "END" not in ls or len(ls) < 4 or ls[ls.index("END") - 1] == ls[ls.index("END") + 1]:
            continue            # legal text, but it does not write through the path (parsed as something else)
        legal += 1
        vc = verdict(*rc_)
        if vc != "rejected" or "MARK" in rc_[1]:
            ctx.report(cls, "`%s` through a const root is %s (its mutable twin is legal): %s" % (cid, vc, (rc_[1] + rc_[2])[-200:]),
                       {"form": cid, "files": {"main.ms": ctext}, "observed": {"rc": rc_[0], "stdout": rc_[1][-400:], "stderr": rc_[2][-400:]},
                        "how": "mscript run main.ms -q: must fail to compile, nothing printed"})
    ctx.cov["deep_write_paths"] = {"cases": n, "legal_and_effective_on_a_mutable_root": legal}
    return n


def import_write_cases():
    """`import <path>` binds the module to the file stem of the path: when that name is a constant, a class or an already
    imported module, the import is a write to it and must be rejected, however the path is spelled.
    -> [(id, files with the protected name declared first, files of the twin without it)]"""
    mod = "export const favorite: str = \"The Kite Runner\"\n"
    other = "export const favorite: str = \"Harry Potter\"\n"
    out = []
    protect = {"const": "const book = \"Dune\"\n", "class": "class book {\n  constructor(self) {}\n}\n", "module": "import shelf/book\n"}
    for pk, decl in sorted(protect.items()):
        for spelled in ("book", "./book", "./././book", "sub/../book"):
            for where in ("same", "block"):
                imp = "import %s\n" % spelled
                if where == "block":
                    imp = "if true {\n  import %s\n}\n" % spelled
                body = "print \"MARK\"\n%s%sprint \"END\"\n"
                files = {"book.ms": mod, "shelf/book.ms": other, "sub/x.ms": "export const q = 1\n"}
                a = dict(files, **{"main.ms": body % (decl, imp)})
                b = dict(files, **{"main.ms": body % ("", imp)})
                out.append(("%s then import %s (%s)" % (pk, spelled, where), a, b))
    return out


def run_import_writes(ctx, binary, base):
    cases = import_write_cases()

    def one(c):
        return run_files(binary, base, c[1]), run_files(binary, base, c[2])
    n = legal = 0
    for (cid, fa, fb), (ra, rb) in zip(cases, programs.pmap(one, cases)):
        n += 1
        if verdict(*rb) != "accepted":
            continue                # this spelling of the import is not legal by itself
        legal += 1
        va = verdict(*ra)
        if va != "rejected" or "MARK" in ra[1]:
            ctx.report("const-write-accepted:import", "`%s`: an import that rebinds a protected name is %s: %s" % (cid, va, (ra[1] + ra[2])[-200:]),
                       {"form": cid, "files": fa, "observed": {"rc": ra[0], "stdout": ra[1][-400:], "stderr": ra[2][-400:]},
                        "how": "mscript run main.ms -q: must fail to compile, nothing printed"})
    ctx.cov["import_as_write"] = {"cases": n, "legal_import_spellings": legal}
    return n


MODLIB = ("class Box {\n  v: int\n  constructor(self, v: int) {\n    self.v = v\n  }\n}\n"
          "export const k: int = 2\nexport v: int = 1\nexport const ks: str = \"two\"\nexport flag: bool = false\n"
          "export lst: [int...] = [1, 2, 3]\nexport o: Box = Box(5)\nexport const co: Box = Box(6)\n"
          "export get_k: fn() -> int = fn() -> int {\n  return k\n}\nexport get_v: fn() -> int = fn() -> int {\n  return v\n}\n"
          "export show: fn() -> str = fn() -> str {\n  return [k, v, o.v, co.v, lst.len()].to_str() + ks + flag.to_str()\n}\n")


def module_copy_cases():
    """A module is a value: `m = lib` gives it a name that is not const.  The members the module exports are protected
    whatever name the module is reached by: every write `=` / op-assign to or through `<module>.<member>` from outside the
    module is rejected at compile time.  -> [(id, files with the write, files of the twin that READS the same path, class)]"""
    routes = {            # how the module value gets its name (R = the name)
        "imported-name": ("", "lib"),
        "copy": ("m = lib\n", "m"),
        "copy-of-copy": ("m0 = lib\nm = m0\n", "m"),
        "typed-later-copy": ("m = lib\nm = lib\n", "m"),
        "list-element": ("const h = [lib]\nm = h[0]\n", "m"),
    }
    targets = [("k", "= 99"), ("k", "+= 1"), ("v", "= 7"), ("v", "+= 41"), ("v", "-= 1"), ("v", "*= 3"), ("v", "%= 2"), ("ks", "= \"x\""), ("ks", "+= \"x\""),
               ("flag", "= true"), ("o.v", "= 9"), ("o.v", "*= 2"), ("co.v", "= 1"), ("o", "= R.co"), ("lst", "= [4]")]
    wheres = ["same", "block", "function", "other_module", "closure", "closure-depth-2", "closure-in-block"]   # closure*: the name is captured
    out = []
    for rname, (decl, R) in sorted(routes.items()):
        for tgt, w in targets:
            for where in wheres:
                path = "%s.%s" % (R, tgt)
                wstmt = "%s %s\n" % (path, w.replace("R.", R + "."))
                rstmt = "print %s\n" % path

                def body(stmt):
                    inner = decl + stmt
                    if where == "same" or where == "other_module":
                        b = inner
                    elif where == "block":
                        b = "if true {\n" + "".join("  " + l + "\n" for l in inner.splitlines()) + "}\n"
                    elif where == "closure":
                        b = decl + "g = fn() {\n" + "".join("  " + l + "\n" for l in stmt.splitlines()) + "}\ng()\n"
                    elif where == "closure-depth-2":
                        b = decl + "g = fn() {\n  h = fn() {\n" + "".join("    " + l + "\n" for l in stmt.splitlines()) + "  }\n  h()\n}\ng()\n"
                    elif where == "closure-in-block":
                        b = decl + "g = fn() {\n  if true {\n" + "".join("    " + l + "\n" for l in stmt.splitlines()) + "  }\n}\ng()\n"
                    else:
                        b = "g = fn() {\n" + "".join("  " + l + "\n" for l in inner.splitlines()) + "}\ng()\n"
                    tail = "print \"END\"\nprint lib.show()\n"
                    if where == "other_module":
                        return {"lib.ms": MODLIB, "mid.ms": "import lib\n" + b + "export done: int = 1\n",
                                "main.ms": "import lib\nprint \"MARK\"\nimport mid\n" + tail}
                    return {"lib.ms": MODLIB, "main.ms": "import lib\nprint \"MARK\"\n" + b + tail}
                cls = "const-write-accepted:module-member" + ("" if rname == "imported-name" else "-through-copy")
                out.append(("%s %s / module reached by %s / written from %s" % (path, w, rname, where), body(wstmt), body(rstmt), cls))
    return out


def run_module_copies(ctx, binary, base):
    cases = module_copy_cases()

    def one(c):
        return run_files(binary, base, c[1]), run_files(binary, base, c[2])
    n = legal = 0
    seen = set()
    for (cid, fw, fr, cls), (rw, rr) in zip(cases, programs.pmap(one, cases)):
        n += 1
        if verdict(*rr) != "accepted" or "END" not in rr[1]:
            continue                # the path cannot even be read this way: nothing to demand of the write
        legal += 1
        vw = verdict(*rw)
        if vw != "rejected" or "MARK" in rw[1]:
            if cls in seen:
                continue
            seen.add(cls)
            ctx.report(cls, "`%s`: a write to what a module exports, from outside the module, is %s (the module then shows %r; untouched it shows %r)"
                       % (cid, vw, program_lines(rw[1])[-1:], program_lines(rr[1])[-1:]),
                       {"form": cid, "files": fw, "observed": {"rc": rw[0], "stdout": rw[1][-400:], "stderr": rw[2][-400:]},
                        "how": "mscript run main.ms -q: must fail to compile, nothing printed"})
    ctx.cov["module_member_writes"] = {"cases": n, "path_readable_this_way": legal}
    return n


def const_field_cases():
    """The grammar accepts the declaration qualifiers on a class FIELD (`const id: int`).  A field declared const is a name
    declared const: apart from its initialisation in the constructor no form may assign to it -- from outside, from a
    method, by its bare name, through an alias, a list element, a closure or another module.  (Refusing the declaration
    itself also satisfies this: nothing is then 'declared const'.)
    -> [(id, files with `const` on the field, files of the twin without it, class)]"""
    def cls_text(q, ty, init, extra=""):
        return ("class Account {\n  %sid: %s\n  balance: int\n  constructor(self) {\n    self.id = %s\n    self.balance = 0\n  }\n%s}\n" % (q, ty, init, extra))
    types = {"int": ("7", "8", ["= 8", "+= 5", "*= 2", "-= 1", "%= 4"]), "str": ("\"a\"", "\"b\"", ["= \"b\"", "+= \"b\""]),
             "bool": ("true", "false", ["= false"]), "[int...]": ("[1]", "[2]", ["= [2]"])}
    out = []
    first = ["outside", "alias", "method-self"]
    for ty, (init, other, writes) in types.items():
        for w in writes:
            forms = {
                "outside": ("", "a = Account()\nprint a.id\na.id %s\nprint \"END\"\nprint a.id\n" % w),
                "alias": ("", "a = Account()\nprint a.id\nb = a\nb.id %s\nprint \"END\"\nprint a.id\n" % w),
                "method-self": ("  fn touch(self) {\n    self.id %s\n  }\n" % w, "a = Account()\nprint a.id\na.touch()\nprint \"END\"\nprint a.id\n"),
                "closure": ("", "a = Account()\nprint a.id\nf = fn() {\n  a.id %s\n}\nf()\nprint \"END\"\nprint a.id\n" % w),
                "parameter": ("", "a = Account()\nprint a.id\nf = fn(x: Account) {\n  x.id %s\n}\nf(a)\nprint \"END\"\nprint a.id\n" % w),
                "block": ("", "a = Account()\nprint a.id\nif true {\n  a.id %s\n}\nprint \"END\"\nprint a.id\n" % w),
                "loop": ("", "a = Account()\nprint a.id\nfrom 0 to 1 {\n  a.id %s\n}\nprint \"END\"\nprint a.id\n" % w),
                "const-instance": ("", "const a = Account()\nb = a\nprint a.id\nb.id %s\nprint \"END\"\nprint a.id\n" % w),
            }
            if not w.startswith("= "):
                # by its bare name a method can only op-assign the field (`id = v` declares a local)
                forms["method-bare-name"] = ("  fn touch(self) {\n    id %s\n  }\n" % w, "a = Account()\nprint a.id\na.touch()\nprint \"END\"\nprint a.id\n")
            elif ty != "[int...]":          # (`modify id = [2]`: the literal is typed before the target is known; not legal on an ordinary field either)
                forms["method-modify"] = ("  fn touch(self) {\n    modify id %s\n  }\n" % w, "a = Account()\nprint a.id\na.touch()\nprint \"END\"\nprint a.id\n")
            for fname, (extra, hist) in sorted(forms.items(), key=lambda kv: (first.index(kv[0]) if kv[0] in first else 9, kv[0])):
                texts = []
                for q in ("const ", ""):
                    texts.append({"main.ms": cls_text(q, ty, init, extra) + "print \"MARK\"\n" + hist})
                out.append(("field `const id: %s` written by `%s` (%s)" % (ty, w, fname), texts[0], texts[1], "const-write-accepted:class-field"))
            # from another module
            texts = []
            for q in ("const ", ""):
                texts.append({"acct.ms": "export " + cls_text(q, ty, init) + "export shared: Account = Account()\n",
                              "main.ms": "import Account, shared from acct\nprint \"MARK\"\nprint shared.id\nshared.id %s\nprint \"END\"\nprint shared.id\n" % w})
            out.append(("field `const id: %s` written by `%s` (other module)" % (ty, w), texts[0], texts[1], "const-write-accepted:class-field"))
    return out


def run_const_fields(ctx, binary, base):
    cases = const_field_cases()

    def one(c):
        return run_files(binary, base, c[1]), run_files(binary, base, c[2])
    n = legal = 0
    seen = set()
    for (cid, fc, fm, cls), (rc_, rm_) in zip(cases, programs.pmap(one, cases)):
        n += 1
        if verdict(*rm_) != "accepted":
            continue            # not a legal write even on an ordinary field
        ls = rm_[1].split("\n")
        if "END" not in ls or ls[ls.index("END") - 1] == ls[ls.index("END") + 1]:
            continue            # legal text, but it does not change the field (e.g. `modify` of a name that is a fresh local)
        legal += 1
        vc = verdict(*rc_)
        if vc != "rejected" or "MARK" in rc_[1]:
            if cls in seen:
                continue
            seen.add(cls)
            ctx.report(cls, "%s is %s: the field then shows %r (its twin without `const` is legal and changes the field)"
                       % (cid, vc, program_lines(rc_[1])[-1:]),
                       {"form": cid, "files": fc, "observed": {"rc": rc_[0], "stdout": rc_[1][-400:], "stderr": rc_[2][-400:]},
                        "how": "mscript run main.ms -q: must fail to compile, nothing printed"})
    ctx.cov["const_class_fields"] = {"cases": n, "legal_and_effective_on_an_ordinary_field": legal}
    return n


def run(ctx):
    ok = core.coq_props(ctx, "Props/C10.v")
    binary = core.build_repo()
    base = ctx.mktemp()
    triples = enumerate_triples()
    # render
    for t in triples:
        t["texts"] = {f: render_file(a) for f, a in t["files"].items()}
        t["ntexts"] = {f: render_file(a) for f, a in t["neighbour"].items()} if t["neighbour"] else None
        t["term"] = coq_program(t["files"])
        t["nterm"] = coq_program(t["neighbour"]) if t["neighbour"] else None

    def one(t):
        r = run_files(binary, base, t["texts"])
        n = run_files(binary, base, t["ntexts"]) if t["ntexts"] else None
        return r, n

    results = programs.pmap(one, triples)
    terms = [t["term"] for t in triples] + [t["nterm"] for t in triples if t["nterm"]]
    mv = model_verdicts(ctx, terms, "tri")
    mv_main = mv[:len(triples)]
    mv_nb = iter(mv[len(triples):])

    matrix = {}
    inapplicable, spec_fail, dis = [], 0, 0
    nb_runtime = []
    n_app = n_reject = n_shadow = n_copy = 0
    nontrivial = set()
    for t, (r, n), m in zip(triples, results, mv_main):
        key = "%s/%s/%s" % (t["dctx"], t["form"], t["wctx"])
        tid = key + "/%s%s" % (t["vt"], "/" + t["op"] if t["op"] else "") + ("/from-bound" if t["hv"] == "from" else "")
        v = verdict(*r)
        mn = next(mv_nb) if t["nterm"] else None
        lines = program_lines(r[1])
        replay = {"triple": tid, "files": t["texts"], "expected": t["expect"], "observed": {"verdict": v, "rc": r[0], "stdout": r[1][-1500:], "stderr": r[2][-600:]},
                  "how": "write the files into an empty directory and run `mscript run main.ms -q` there"}
        if v == "panic":
            ctx.report("panic:" + key, "compiler/runtime panic on a const-write program (%s)" % tid, replay)
            continue
        if n is not None:
            nv = verdict(*n)
            if nv == "runtime":
                nb_runtime.append(tid)
            if nv != "accepted" and t["wctx"] in REMODIFY_CTX:
                spec_fail += 1
                ctx.report("valid-program-rejected:%s" % t["wctx"],
                           "a valid program (no constant involved: `modify` of one captured variable several times in one function, %s) is not accepted: %s"
                           % (tid, nv), {"triple": tid, "files": t["ntexts"], "observed": {"verdict": nv, "rc": n[0], "stdout": n[1][-1200:], "stderr": n[2][-400:]},
                                         "how": "write the files into an empty directory and run `mscript run main.ms -q` there"})
            if nv not in ("accepted", "runtime"):
                d = DIAG.search(n[1])
                why = [l for l in n[1].splitlines() if l.strip().startswith("=")]
                inapplicable.append({"triple": tid, "neighbour_verdict": nv, "why": (why[0].strip() if why else n[2].strip()[:120])})
                matrix.setdefault(key, {}).setdefault("inapplicable", 0)
                matrix[key]["inapplicable"] += 1
                # still: the const version must not be ACCEPTED with a changed constant
                if v in ("accepted", "runtime") and t["expect"] == "reject":
                    spec_fail += 1
                    ctx.report("const-write-accepted:%s" % t["form"],
                               "a write to a const through form `%s` (%s) was accepted although even the non-const neighbour is rejected" % (t["form"], tid), replay)
                continue
            # neighbour accepted: the model must accept it as well
            if mn is not None and not mn[0]:
                dis += 1
                ctx.report("correspondence:neighbour:" + t["form"], "model rejects the non-const neighbour of %s which the compiler accepts" % tid,
                           {"triple": tid, "files": t["ntexts"], "model": "check cfg_fixed = false", "correspondence": "Const/Model.v check vs compiler verdict"}, found_input=False)
        n_app += 1
        cell = matrix.setdefault(key, {})
        cell[t["expect"]] = cell.get(t["expect"], 0) + 1
        nontrivial.add(key)
        v0 = VT[t["vt"]]
        init_txt = v0["init"].strip('"')
        other_txt = v0["other"].strip('"')
        if t["expect"] == "reject":
            n_reject += 1
            good = (v == "rejected" and r[0] == 1 and "MARK" not in lines and DIAG.search(r[1]) is not None)
            if not good:
                spec_fail += 1
                changed = ""
                if v in ("accepted", "runtime"):
                    obs = [l for l in lines if l not in ("MARK", "END")]
                    changed = "; the program ran and printed %r (initializer %s)" % (obs, init_txt)
                ctx.report(("const-write-accepted:%s" if v == "accepted" else "const-write-compiled:%s") % t["form"],
                           "write form `%s` on a const declared in `%s`, written from `%s`, is not rejected at compile time (%s): verdict %s%s"
                           % (t["form"], t["dctx"], t["wctx"], tid, v, changed), replay)
        else:
            # shadow / copy: the program may be accepted, but the constant must keep its initializer
            if t["expect"] == "shadow":
                n_shadow += 1
            else:
                n_copy += 1
            if v == "accepted":
                obs = [l for l in lines if l not in ("MARK", "END")]
                if t["dctx"] in ("module", "function", "block") and (not obs or obs[-1] != init_txt):
                    spec_fail += 1
                    ctx.report("const-value-changed:%s" % t["form"],
                               "the constant does not keep its initializer %s after `%s` from `%s` (%s): printed %r" % (init_txt, t["form"], t["wctx"], tid, obs), replay)
            elif v == "runtime" and n is not None and verdict(*n) == "runtime":
                # not a const matter: the non-const neighbour fails in the same way while running
                nb_runtime.append(tid + " (shadow case: both fail at run time)")
            elif v != "rejected":
                spec_fail += 1
                ctx.report("const-shadow-crash:%s" % t["form"], "program %s neither rejected nor run to completion: %s" % (tid, v), replay)
        # correspondence with the Coq model (fixed configuration)
        real_acc = v in ("accepted", "runtime")
        if m[0] != real_acc:
            dis += 1
            if not (t["expect"] == "reject" and real_acc):     # already reported with a concrete input
                ctx.report("correspondence:" + t["form"],
                           "Const/Model.v check (cfg_fixed) says %s, the compiler %s, for %s" % ("accept" if m[0] else "reject", v, tid),
                           dict(replay, model={"check_fixed": m[0], "check_head": m[1], "no_const_write": m[2]},
                                correspondence="Const/Model.v check vs compiler verdict"), found_input=False)
        # model-internal: the theorem instance (accepted by the model => no const write)
        if m[0] and not m[2]:
            ctx.report("model-theorem-instance", "check accepts but no_const_write_b is false for %s" % tid, {"triple": tid}, found_input=False)
        ctx.sample({"triple": tid, "program": t["texts"]["main.ms"], "expected": t["expect"], "verdict": v,
                    "diagnostic": (DIAG.search(r[1]).group(0).strip() if DIAG.search(r[1]) else None)}, cap=4)

    # ---- random nested programs: compiler verdict vs model verdict; accepted programs must satisfy the spec
    nrand = 250 if ctx.quick() else 3000
    g = Gen(ctx.rng)
    rprogs = [g.gen() for _ in range(nrand)]
    rtexts = [{"main.ms": render_file(p)} for p in rprogs]
    rterms = [cb(p) for p in rprogs]
    rres = programs.pmap(lambda tx: run_files(binary, base, tx), rtexts)
    rmv = model_verdicts(ctx, rterms, "rnd")
    r_acc = r_rej = r_other = r_dis = 0
    for tx, r, m, term, rp in zip(rtexts, rres, rmv, rterms, rprogs):
        v = verdict(*r)
        if v == "panic":
            ctx.report("panic:random", "compiler/runtime panic on a generated const program", {"files": tx, "stderr": r[2][-800:]})
            continue
        if v == "other":
            r_other += 1
            continue
        real_acc = v in ("accepted", "runtime")
        r_acc += real_acc
        r_rej += (not real_acc)
        if real_acc and not m[2]:
            # accepted by the compiler, but a write form targets a const binding (specification, not the checker model)
            spec_fail += 1
            ctx.report("const-write-accepted:random", "generated program accepted although a write form targets a const binding",
                       {"files": tx, "stdout": r[1][-800:], "model": {"check_fixed": m[0], "no_const_write": m[2]}})
        elif real_acc != m[0]:
            r_dis += 1
            diag = [l.strip() for l in r[1].splitlines() if l.strip().startswith("=")]
            ctx.report("correspondence:random", "Const/Model.v check says %s, compiler says %s (%s)" % ("accept" if m[0] else "reject", v, diag[:1]),
                       {"files": tx, "verdict": v, "stdout": r[1][-1200:], "model": {"check_fixed": m[0], "check_head": m[1]}, "ast": repr(rp),
                        "correspondence": "Const/Model.v check vs compiler verdict on random nested programs"}, found_input=False)
    dis += r_dis

    if n_app < 0.6 * len(triples) or (r_acc + r_rej) < 0.8 * nrand:
        ctx.report("generator-degraded", "only %d of %d triples are applicable / %d of %d random programs gave a verdict: the templates no longer match the language"
                   % (n_app, len(triples), r_acc + r_rej, nrand), {"inapplicable": inapplicable[:20]}, found_input=False)
    ndeep = run_deep_paths(ctx, binary, base) + run_import_writes(ctx, binary, base) + run_module_copies(ctx, binary, base) + run_const_fields(ctx, binary, base)
    spec_fail += sum(1 for v in ctx.viol if v[0] in ("const-write-accepted:deep-path", "const-write-accepted:through-get-or", "const-write-accepted:import",
                                                     "const-write-accepted:module-member", "const-write-accepted:module-member-through-copy", "const-write-accepted:class-field"))
    ctx.cov["evaluations"] = len(triples) + sum(1 for t in triples if t["ntexts"]) + nrand + 2 * ndeep
    ctx.cov["triples"] = len(triples)
    ctx.cov["applicable"] = n_app
    ctx.cov["expected_reject"] = n_reject
    ctx.cov["expected_shadow"] = n_shadow
    ctx.cov["expected_copy"] = n_copy
    ctx.cov["inapplicable"] = len(inapplicable)
    ctx.cov["inapplicable_list"] = inapplicable
    ctx.cov["neighbour_compiles_but_fails_at_run_time"] = nb_runtime
    ctx.cov["distinct_nontrivial"] = len(nontrivial)
    ctx.cov["matrix"] = matrix
    ctx.cov["exhaustive"] = True
    ctx.cov["rule"] = ("triples = every (declaration context in %s) x (write form in %s) x (write context in %s) x value type int/bool/str "
                       "(x each of the 5 op-assign operators for int, x while/from header variants) that can be written down; "
                       "inapplicable = the neighbour without const-ness is itself rejected (type rules); "
                       "distinct_nontrivial = distinct applicable (declaration ctx, form, write ctx) base combinations"
                       % (DECL_CTX, FORMS, WRITE_CTX))
    ctx.cov["random_programs"] = {"n": nrand, "accepted": r_acc, "rejected": r_rej, "other": r_other, "model_disagreements": r_dis}
    ctx.cov["model_impl_disagreements"] = dis
    ctx.cov["spec_failures"] = spec_fail
    ctx.cov["traces_validated_against_impl"] = n_app + nrand - r_other
    ctx.cov["trusted_base"] = ["Coq 8.16.1 kernel (coqc; vm_compute for model evaluation and the *_refuted witnesses)",
                               "no axioms (Print Assumptions: closed under the global context)",
                               "vlib/c10.py: program templates, renderer to MScript text and to Const/Model.v terms (abstraction of types/values)",
                               "the `mscript run` exit status / diagnostic format as the observation of the compiler's verdict"]
    ctx.assumptions = ["Const/Model.v is a hand-written abstraction (names, scopes, const flags only); tied to the compiler by verdict comparison on every triple and on random nested programs",
                       "const_value_stable is proved on the closure-free evaluation model of Const/Eval.v only (its store rules are hand-written from bytecode/src/stack.rs; the F15 witnesses behave on the unfixed binary as its head_value_changes examples predict); for closures, methods, imports the printed value after each accepted shadow/copy case is checked on the binary instead"]
    core.proof_or_search(ctx, ok, ["C10_const_never_written", "C10_const_value_stable_partial", "C10_head_refuted"], spec_fail > 0)
