"""Shared by C05 and C06: value notation, boundary sets, the real-code harness (harness/num, debug and
release), the extracted Coq models (extract/NumExtract.v) and an independent Python oracle.

value notation (one token):  I<dec> int(i32)  B<dec> bigint(i128)  Y<dec> byte(u8)  F<16 hex> float bits
                             T<true|false>;   outcomes additionally ERR PANIC (impl) / UNDEF (spec)
"""
import math
import os
import struct
from decimal import Decimal

from . import core, extract

I32_MIN, I32_MAX = -2 ** 31, 2 ** 31 - 1
I128_MIN, I128_MAX = -2 ** 127, 2 ** 127 - 1
RANGE = {"I": (I32_MIN, I32_MAX), "B": (I128_MIN, I128_MAX), "Y": (0, 255)}
WIDTH = {"I": 32, "B": 128, "Y": 8}
KIND_NAME = {"I": "int", "B": "bigint", "Y": "byte", "F": "float", "T": "bool"}
NAN = "F7ff8000000000000"

ARITH = ["add", "sub", "mul", "div", "rem"]
BITS = ["and", "or", "xor"]
SHIFTS = ["shl", "shr"]
CMPS = ["lt", "le", "gt", "ge"]
EQS = ["eq", "ne"]
BINOPS = ARITH + BITS + SHIFTS + CMPS + EQS
SYMBOL = {"add": "+", "sub": "-", "mul": "*", "div": "/", "rem": "%", "and": "&", "or": "|", "xor": "xor",
          "shl": "<<", "shr": ">>", "lt": "<", "le": "<=", "gt": ">", "ge": ">=", "eq": "==", "ne": "!="}


# ----------------------------------------------------------------------------- floats as bit patterns
def f2bits(x):
    if x != x:
        return NAN
    return "F%016x" % struct.unpack(">Q", struct.pack(">d", x))[0]


def bits2f(tok):
    return struct.unpack(">d", struct.pack(">Q", int(tok[1:], 16)))[0]


def is_nan_tok(tok):
    b = int(tok[1:], 16)
    return (b >> 52) & 0x7ff == 0x7ff and b & ((1 << 52) - 1) != 0


def canon(tok):
    """canonical outcome token: every NaN is one NaN"""
    if tok.startswith("F") and len(tok) == 17 and is_nan_tok(tok):
        return NAN
    return tok


def mkval(kind, z):
    return "%s%d" % (kind, z)


def ival(tok):
    return int(tok[1:])


# ----------------------------------------------------------------------------- boundary sets (DESIGN 5.5)
def _around(points, lo, hi):
    s = set()
    for p in points:
        for d in (-1, 0, 1):
            if lo <= p + d <= hi:
                s.add(p + d)
    return s


def boundary_ints(kind):
    lo, hi = RANGE[kind]
    if kind == "Y":
        pts = [0, 1, 2, 4, 8, 16, 32, 64, 128, 255, 254]
        s = _around(pts, lo, hi) | {lo, hi}
    elif kind == "I":
        pts = [0, 2, 8, 32, 128, 256, 65536, 46341, 2 ** 30, lo, hi]
        s = _around(pts, lo, hi) | _around([-p for p in pts], lo, hi)
    else:
        pts = [0, 2, 8, 32, 128, 256, 2 ** 31, 2 ** 32, 2 ** 53, 2 ** 63, 2 ** 64, 13043817825332782212, 2 ** 126, lo, hi]
        s = _around(pts, lo, hi) | _around([-p for p in pts], lo, hi)
    return sorted(s)


def boundary_floats():
    vals = [0.0, -0.0, 0.5, -0.5, 1.0, -1.0, 1.5, -1.5, 2.0, 3.0, -3.0, 0.1, 255.0, 256.0, 2.0 ** 31, -(2.0 ** 31),
            2.0 ** 31 - 1, 2.0 ** 32, 2.0 ** 53 - 1, 2.0 ** 53, 2.0 ** 53 + 2, -(2.0 ** 53), 2.0 ** 63, -(2.0 ** 63),
            2.0 ** 64, 2.0 ** 127, -(2.0 ** 127), 2.0 ** 128, 1e308, -1e308, 1e-300, math.pi, -math.e,
            1.7976931348623157e308, -1.7976931348623157e308, 2.2250738585072014e-308, -2.2250738585072014e-308,
            5e-324, -5e-324, 2.225073858507201e-308, float("inf"), float("-inf"), float("nan"), 4.5, 7.0, 1e16 + 2]
    seen, out = set(), []
    for v in vals:
        t = f2bits(v)
        if t not in seen:
            seen.add(t)
            out.append(t)
    return out


def boundary_values(kind):
    if kind == "F":
        return boundary_floats()
    return [mkval(kind, z) for z in boundary_ints(kind)]


def is_extreme(tok):
    """zero / extreme operands: their pairs are always part of the quick tier"""
    k = tok[0]
    if k == "F":
        x = bits2f(tok)
        return x != x or x == 0.0 or math.isinf(x) or abs(x) in (1.7976931348623157e308, 5e-324, 1.0)
    z = ival(tok)
    lo, hi = RANGE[k]
    return z in (lo, hi, 0, -1, 1)


def random_value(rng, kind):
    if kind == "F":
        r = rng.random()
        if r < 0.35:
            return "F%016x" % rng.getrandbits(64)
        if r < 0.6:
            return f2bits(float(rng.randint(-2 ** 40, 2 ** 40)))
        if r < 0.8:
            return f2bits(rng.uniform(-1000, 1000))
        return f2bits(rng.choice([1, -1]) * 2.0 ** rng.randint(-1074, 1023) * (1 + rng.random()))
    lo, hi = RANGE[kind]
    r = rng.random()
    if r < 0.4:
        return mkval(kind, rng.randint(lo, hi))
    if r < 0.7:
        bits = rng.randint(1, WIDTH[kind] - (0 if kind == "Y" else 1))
        z = rng.getrandbits(bits)
        if kind != "Y" and rng.random() < 0.5:
            z = -z
        return mkval(kind, max(lo, min(hi, z)))
    return mkval(kind, max(lo, min(hi, rng.randint(-300, 300) if kind != "Y" else rng.randint(0, 255))))


# ----------------------------------------------------------------------------- independent Python oracle
PROMO_ORDER = {"Y": 0, "I": 1, "B": 2, "F": 3}


def promote(k1, k2):
    return k1 if PROMO_ORDER[k1] >= PROMO_ORDER[k2] else k2


def _to_float(tok):
    return bits2f(tok) if tok[0] == "F" else float(ival(tok))      # int -> double: round to nearest even


def _trunc_div(x, y):
    q = abs(x) // abs(y)
    return q if (x < 0) == (y < 0) else -q


def _wrap(kind, z):
    w = WIDTH[kind]
    z &= (1 << w) - 1
    if kind != "Y" and z >= 1 << (w - 1):
        z -= 1 << w
    return z


def oracle(op, a, b=None):
    """the property's specification, computed with Python's exact integers / IEEE doubles.
    Returns a value token or 'UNDEF'."""
    if op == "not":
        return "T" + ("false" if a == "Ttrue" else "true") if a[0] == "T" else "UNDEF"
    if op == "neg":
        if a[0] == "F":
            return canon(f2bits(-bits2f(a))) if not is_nan_tok(a) else NAN
        if a[0] in "IB":
            z = -ival(a)
            return mkval(a[0], z) if RANGE[a[0]][0] <= z <= RANGE[a[0]][1] else "UNDEF"
        return "UNDEF"
    if a[0] == "T" or b[0] == "T":
        return "UNDEF"
    k = promote(a[0], b[0])
    if op in CMPS or op in EQS:
        if k == "F":
            x, y = _to_float(a), _to_float(b)
        else:
            x, y = ival(a), ival(b)
        r = {"lt": x < y, "le": x <= y, "gt": x > y, "ge": x >= y, "eq": x == y, "ne": x != y}[op]
        return "Ttrue" if r else "Tfalse"
    if k == "F":
        if op not in ARITH:
            return "UNDEF"
        x, y = _to_float(a), _to_float(b)
        if op in ("div", "rem") and y == 0.0:
            return "UNDEF"
        try:
            if op == "add":
                r = x + y
            elif op == "sub":
                r = x - y
            elif op == "mul":
                r = x * y
            elif op == "div":
                r = x / y
            else:
                r = math.fmod(x, y) if not (math.isinf(x) or x != x or y != y) else float("nan")
        except (OverflowError, ValueError):
            r = float("nan")
        return canon(f2bits(r))
    x, y = ival(a), ival(b)
    lo, hi = RANGE[k]
    if op in ("div", "rem") and y == 0:
        return "UNDEF"
    if op in SHIFTS:
        if not 0 <= y < WIDTH[k]:
            return "UNDEF"
        if op == "shr":
            return mkval(k, x >> y)         # floor(x / 2^y): always representable
        z = x << y                          # the exact value x * 2^y; a lost bit is an overflow like any other
        return mkval(k, z) if lo <= z <= hi else "UNDEF"
    if op == "add":
        z = x + y
    elif op == "sub":
        z = x - y
    elif op == "mul":
        z = x * y
    elif op == "div":
        z = _trunc_div(x, y)
    elif op == "rem":
        z = x - _trunc_div(x, y) * y
    elif op == "and":
        z = x & y
    elif op == "or":
        z = x | y
    else:
        z = x ^ y
    return mkval(k, z) if lo <= z <= hi else "UNDEF"


# ----------------------------------------------------------------------------- running harness and model
def case_line(c):
    return " ".join(c)


def build_num_harness(release=False):
    """core.build_harness builds against /repo (the path in harness/num/Cargo.toml).  When the check is
    pointed at another tree (MSCRIPT_REPO=<scratch worktree>) a copy of the crate with the path rewritten
    is built instead, so that the correspondence really runs the tree under test."""
    if os.path.realpath(core.REPO) == "/repo":
        return core.build_harness("num", release=release)
    import shutil
    src = os.path.join(core.VERIF, "harness", "num")
    dst = os.path.join(core.CACHE, "harness-src", "num")
    with core.Lock("cargo-harness-num-alt"):
        os.makedirs(os.path.join(dst, "src"), exist_ok=True)
        toml = open(os.path.join(src, "Cargo.toml")).read().replace('"/repo/', '"%s/' % core.REPO.rstrip("/"))
        open(os.path.join(dst, "Cargo.toml"), "w").write(toml)
        shutil.copy(os.path.join(src, "src", "main.rs"), os.path.join(dst, "src", "main.rs"))
        shutil.copy(os.path.join(core.REPO, "Cargo.lock"), os.path.join(dst, "Cargo.lock"))
        env = core.env_base()
        env["RUSTFLAGS"] = "--cfg %s" % core.GUARD
        env["CARGO_TARGET_DIR"] = os.path.join(core.HTARGET, "num")
        cmd = ["cargo", "build", "--offline", "-q"] + (["--release"] if release else [])
        rc, out, err = core.sh(cmd, cwd=dst, env=env, timeout=1500)
    if rc != 0:
        raise core.BuildError("cargo build of harness num (against %s) failed:\n%s" % (core.REPO, err.decode("utf8", "replace")[-3000:]))
    return os.path.join(core.HTARGET, "num", "release" if release else "debug")


def run_harness(ctx, cases, release=False):
    """cases: list of (op, a[, b]) -> list of canonical outcome tokens from the real code"""
    hbin = os.path.join(build_num_harness(release=release), "num_harness")
    d = ctx.mktemp()
    inp, outp = os.path.join(d, "cases"), os.path.join(d, "out")
    with open(inp, "w") as f:
        for c in cases:
            f.write(case_line(c) + "\n")
    rc, out, err = core.sh([hbin, inp, outp], timeout=1800)
    if rc != 0:
        raise core.BuildError("num harness crashed rc=%s %s" % (rc, err.decode("utf8", "replace")[-500:]))
    res = [canon(l) for l in open(outp).read().split("\n") if l]
    assert len(res) == len(cases), (len(res), len(cases))
    return res


def model_binary():
    return extract.build("num", "NumExtract.v", "num_driver.ml")


# which version of the hand-written models the implementation is compared with: "fixed" (default: the code
# with fixes/num-overflow-panics-in-every-build, num-byte-zero-divisor, num-rem-min-by-minus-one, fold-negate, num-shl-lost-bits .diff) or "orig" (VERIF_NUM_MODEL=orig: the code
# before those fixes; then the known classes must be listed in known_findings.json)
MODEL_VERSION = os.environ.get("VERIF_NUM_MODEL", "fixed")


def run_model(ctx, cases, shards=None):
    """-> list of dicts {fixed, spec, trap, wrap} (canonical tokens) from the extracted Coq models"""
    from . import programs
    mdl = model_binary()
    shards = shards or core.NCPU
    n = len(cases)
    chunks = [cases[i * n // shards:(i + 1) * n // shards] for i in range(shards)]

    def one(chunk):
        if not chunk:
            return []
        inp = "".join(case_line(c) + "\n" for c in chunk).encode()
        rc, out, err = core.sh([mdl], inp=inp, timeout=1800)
        if rc != 0:
            raise core.BuildError("num model driver crashed rc=%s %s" % (rc, err.decode("utf8", "replace")[-500:]))
        rows = []
        for l in out.decode().split("\n"):
            if l:
                f = [canon(x) for x in l.split("\t")]
                rows.append({"fixed": f[0], "spec": f[1], "trap": f[2], "wrap": f[3],
                             "debug": f[0] if MODEL_VERSION == "fixed" else f[2],
                             "release": f[0] if MODEL_VERSION == "fixed" else f[3]})
        assert len(rows) == len(chunk), (len(rows), len(chunk))
        return rows

    out = []
    for r in programs.pmap(one, chunks):
        out += r
    return out


# ----------------------------------------------------------------------------- mscript literals
def float_literal(tok):
    """exact decimal expansion `digits.digits` of a finite double (None for inf / NaN)"""
    x = bits2f(tok)
    if x != x or math.isinf(x):
        return None
    s = format(Decimal(abs(x)), "f")
    if "." not in s:
        s += ".0"
    return s, (math.copysign(1.0, x) < 0)


def literal(tok):
    """an mscript expression made of literals only that evaluates to the value (None if impossible)"""
    k = tok[0]
    if k == "T":
        return tok[1:]
    if k == "F":
        r = float_literal(tok)
        if r is None:
            return None
        s, neg = r
        return "-" + s if neg else s
    z = ival(tok)
    if k == "Y":
        return "0b" + bin(z)[2:]
    if k == "I":
        if z == I32_MIN:
            return "(-2147483647 - 1)"
        return str(z) if z >= 0 else "-%d" % -z
    if z == I128_MIN:
        return "(B0 - B%d - B1)" % I128_MAX
    return "B%d" % z if z >= 0 else "(B0 - B%d)" % -z


def parse_typed(line):
    """a line printed under MSCRIPT_VERIF_TYPED_PRINT -> value token (None if not a scalar)"""
    line = line.strip()
    if line.startswith("<Int>"):
        return "I" + line[5:]
    if line.startswith("<BigInt>"):
        return "B" + line[8:]
    if line.startswith("<Byte>"):
        v = line[6:]
        return "Y%d" % (int(v[2:], 2) if v.startswith("0b") else int(v))
    if line.startswith("<Float:"):
        return canon("F" + line[7:23])
    if line.startswith("<Bool>"):
        return "T" + line[6:]
    return None


# ----------------------------------------------------------------------------- independent proof checker (thorough tier)
def coqchk(ctx, modules):
    """re-check the compiled proofs with coqchk (the standalone checker) and compare the axioms it reports
    with the allow-list; recorded in the evidence, a failure is reported as a broken proof"""
    import re
    with core.Lock("coq"):
        rc, out, err = core.sh(["timeout", "1500", "coqchk", "-silent", "-o", "-Q", ".", "MS"] + modules, cwd=core.COQ, timeout=1600)
    text = out.decode("utf8", "replace") + err.decode("utf8", "replace")
    axioms = []
    m = re.search(r"\* Axioms:(.*?)\n\s*\n\* ", text, re.S)
    if m:
        axioms = [a.strip() for a in m.group(1).split("\n") if a.strip() and a.strip() != "<none>"]
    bad = [a for a in axioms if a not in core.AXIOM_ALLOW and a.split(".")[-1] not in core.AXIOM_ALLOW]
    unsafe = [l.strip() for l in text.split("\n") if l.strip().startswith("* Constants/Inductives relying on") or l.strip().startswith("* Inductives whose positivity")]
    clean = rc == 0 and not bad and all(u.endswith("<none>") for u in unsafe)
    ctx.cov["coqchk"] = {"cmd": "cd /verif/coq && coqchk -silent -o -Q . MS " + " ".join(modules), "rc": rc, "axioms": axioms, "clean": clean}
    if not clean:
        ctx.report("proof-broken:coqchk", "coqchk rejects the compiled development or reports unexpected axioms: rc=%s %s %s" % (rc, bad, text[-600:]),
                   {"modules": modules, "rc": rc, "unexpected_axioms": bad, "tail": text[-2000:]}, found_input=False)
    return clean
