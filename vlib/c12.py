"""C12: optional values: nil test, `get`, `or` and `?=` behave as defined."""
import re
from . import core, coregen, coretie, programs

I = lambda n: ('int', n)
V = lambda x: ('var', x)
OPT = ('opt', 'int')
OPTS = ('opt', 'str')


def call(f, *args):
    return ('call', V(f), list(args))


def gen_program(rng):
    """optionals as variables, parameters and results, nil/present at every use of ==, or, get, in statement /
    if / while position; literal and variable operands"""
    prog = [
        ('asg', 'pos', None, ('fn', [('k', 'int')], OPT, [('if', ('bin', '>', V('k'), I(0)), [('ret', V('k'))]), ('ret', ('nil',))])),
        ('asg', 'name', None, ('fn', [('k', 'int')], OPTS, [('if', ('bin', '>', V('k'), I(1)), [('ret', ('str', 'n'))]), ('ret', ('nil',))])),
        ('asg', 'dflt', None, ('fn', [('o', OPT), ('d', 'int')], 'int', [('ret', ('nilor', V('o'), V('d')))])),
        ('asg', 'glob', 'int', I(50)),
        # the fallback is the ONLY use of the outer variable inside the function
        ('asg', 'orglob', None, ('fn', [('o', OPT)], 'int', [('ret', ('nilor', V('o'), V('glob')))])),
        ('asg', 'noisy', None, ('fn', [('k', 'int')], 'int', [('print', ('str', 'fallback evaluated')), ('ret', V('k'))])),
    ]
    vars_ = []
    for i in range(rng.randint(2, 4)):
        x = 'o%d' % i
        present = rng.random() < 0.5
        if rng.random() < 0.5:
            prog.append(('asg', x, OPT, I(rng.randint(1, 9)) if present else ('nil',)))
        else:
            prog.append(('asg', x, OPT, call('pos', I(rng.randint(1, 5) if present else 0))))
        vars_.append(x)
    for _ in range(rng.randint(5, 12)):
        x = rng.choice(vars_)
        k = rng.random()
        if k < 0.15:
            # nil on either side of the comparison
            op = rng.choice(['==', '!='])
            prog.append(('print', ('bin', op, V(x), ('nil',)) if rng.random() < 0.5 else ('bin', op, ('nil',), V(x))))
        elif k < 0.19:
            prog.append(('ifelse', ('bin', rng.choice(['==', '!=']), ('nil',), V(x)), [('print', ('str', 'then'))], [('print', ('str', 'else'))]))
        elif k < 0.23:
            # `get` in STATEMENT position: the value is dropped, the nil check is not
            prog += [('expr', ('get', V(x))), ('print', ('str', 'still here'))]
        elif k < 0.25:
            prog.append(('print', ('bin', '==', V(x), I(rng.randint(1, 9)))))
        elif k < 0.45:
            fb = rng.choice([I(rng.randint(10, 19)), call('noisy', I(rng.randint(20, 29))), ('nilor', V(rng.choice(vars_)), I(77))])
            prog.append(('print', ('bin', '+', ('nilor', V(x), fb), I(1)) if rng.random() < 0.5 else ('nilor', V(x), fb)))
        elif k < 0.50:
            prog.append(('print', call('dflt', V(x), I(rng.randint(30, 39)))))
        elif k < 0.55:
            prog.append(('print', call('orglob', V(x))))
        elif k < 0.65:
            prog.append(('ifelse', ('bin', '==', V(x), ('nil',)), [('print', ('str', 'is nil'))], [('print', ('bin', '*', ('get', V(x)), I(2)))]))
        elif k < 0.72:
            prog.append(('asg', x, None, rng.choice([('nil',), I(rng.randint(1, 9)), call('pos', I(rng.randint(0, 3)))])))
        elif k < 0.80:
            prog.append(('print', ('nilor', call('name', I(rng.randint(0, 3))), ('str', 'anon'))))
        elif k < 0.88:
            w = 'w%d' % len(prog)
            prog += [('asg', w, None, I(3)),
                     ('while', ('bin', '!=', call('pos', V(w)), ('nil',)), [('print', ('nilor', call('pos', V(w)), I(0))), ('asg', w, None, ('bin', '-', V(w), I(1)))])]
        elif k < 0.94:
            prog.append(('print', ('get', V(x))))          # stops the program when x is nil
        else:
            t = 't%d' % len(prog)                    # the span of `get` names its operand: keep it a variable
            prog += [('asg', t, OPT, call('pos', I(rng.randint(0, 2)))), ('print', ('get', V(t)))]
    return [coregen.Gen.norm_s(s) for s in prog]


def unwrap_into_cases(rng, n):
    """`a ?= e` (not in the Coq AST): independent Python oracle"""
    out = []
    for _ in range(n):
        ks = [rng.randint(0, 3) for _ in range(3)]
        pre = "pos = fn(k: int) -> int? {\n  if k > 0 {\n    return k\n  }\n  return nil\n}\n"
        src, exp = pre, []
        for i, k in enumerate(ks):
            v = 'a%d' % i
            form = rng.choice(['if', 'stmt', 'while', 'nested-if', 'nested-while', 'elseif', 'fn-block'])
            if form == 'if':
                src += "%s: int? = nil\nif %s ?= pos(%d) {\n  print %s\n} else {\n  print %s == nil\n}\n" % (v, v, k, v, v)
                exp += [str(k)] if k > 0 else ["true"]
            elif form == 'stmt':
                src += "%s: int? = 9\nt%d = %s ?= pos(%d)\nprint t%d\nprint (%s) or 100\n" % (v, i, v, k, i, v)
                exp += ["true" if k > 0 else "false", str(k) if k > 0 else "100"]
            elif form == 'nested-if':
                # the target lives in an ENCLOSING block: `?=` stores into that variable, visible after the block
                src += "%s: int? = nil\nif true {\n  if %s ?= pos(%d) {\n    print %s\n  }\n  print %s == nil\n}\nprint (%s) or 100\n" % (v, v, k, v, v, v)
                exp += ([str(k), "false", str(k)] if k > 0 else ["true", "100"])
            elif form == 'nested-while':
                src += "%s: int? = 9\nw%d = 0\nwhile w%d < 1 {\n  w%d = w%d + 1\n  t%d = %s ?= pos(%d)\n  print t%d\n}\nprint (%s) or 100\n" % (v, i, i, i, i, i, v, k, i, v)
                exp += ["true" if k > 0 else "false", str(k) if k > 0 else "100"]
            elif form == 'elseif':
                src += "%s: int? = nil\nif false {\n  print 0\n} else if %s ?= pos(%d) {\n  print %s\n} else {\n  print \"none\"\n}\nprint (%s) or 100\n" % (v, v, k, v, v)
                exp += ([str(k), str(k)] if k > 0 else ["none", "100"])
            elif form == 'fn-block':
                # inside a function: a local declared at the top of the body, `?=` in a nested block
                src += ("h%d = fn(q: int) -> int {\n  %s: int? = nil\n  if q > 0 {\n    if %s ?= pos(q) {\n      print %s\n    }\n  }\n  return (%s) or 100\n}\nprint h%d(%d)\n"
                        % (i, v, v, v, v, i, k))
                exp += ([str(k), str(k)] if k > 0 else ["100"])
            else:
                src += "n%d = %d\n%s: int? = nil\nwhile %s ?= pos(n%d) {\n  print %s\n  n%d = n%d - 1\n}\nprint %s == nil\n" % (i, k, v, v, i, v, i, i, v)
                exp += [str(j) for j in range(k, 0, -1)] + ["true"]
        out.append((src, exp))
    return out


def container_cases(rng, n):
    """optionals as class FIELDS, list ELEMENTS, map values and method results (outside the Coq AST): random histories of
    ==nil / or / get / ?= / == value / re-assignment with a Python oracle.  -> (source, expected lines, failing line or None)"""
    out = []
    pre = ("pos = fn(k: int) -> int? {\n  if k > 0 {\n    return k\n  }\n  return nil\n}\n"
           "class Box {\n  v: int?\n  constructor(self, v: int?) {\n    self.v = v\n  }\n  fn peek(self) -> int? {\n    return self.v\n  }\n}\n")
    for _ in range(n):
        st = {}
        src = pre
        for i in range(2):
            k = rng.randint(0, 3)
            src += "b%d = Box(pos(%d))\n" % (i, k)
            st["b%d.v" % i] = k or None
        ks = [rng.randint(0, 3) for _ in range(3)]
        src += "cells: [int?...] = [%s]\n" % ", ".join("pos(%d)" % k for k in ks)
        for i, k in enumerate(ks):
            st["cells[%d]" % i] = k or None
        mk = [rng.randint(0, 3) for _ in range(2)]
        src += 'm = map[str, int?] { "a": pos(%d), "z": pos(%d) }\n' % tuple(mk)
        st['m["a"]'], st['m["z"]'] = mk[0] or None, mk[1] or None
        src += "t: int? = nil\n"
        exp, fail_line = [], None

        def val(x):
            return st[x.replace(".peek()", ".v")]
        places = sorted(st) + ["b0.peek()", "b1.peek()"]
        writable = [p for p in sorted(st) if not p.startswith("m[")]
        for _ in range(rng.randint(6, 14)):
            x = rng.choice(places)
            v = val(x)
            op = rng.choice(["isnil", "or", "get", "get", "unwrap", "eq", "set", "getsum", "getstmt", "nil-left"])
            if op == "isnil":
                src += "print %s == nil\n" % x
                exp.append("true" if v is None else "false")
            elif op == "or":
                k = rng.randint(10, 19)
                src += "print (%s) or %d\n" % (x, k)
                exp.append(str(k if v is None else v))
            elif op == "eq":
                k = rng.randint(1, 3)
                src += "print %s == %d\n" % (x, k)
                exp.append("true" if v == k else "false")
            elif op == "unwrap":
                src += "if t ?= %s {\n  print t\n} else {\n  print \"none\"\n}\n" % x
                exp.append(str(v) if v is not None else "none")
            elif op == "set":
                w = rng.choice(writable)
                k = rng.randint(0, 3)
                src += "%s = pos(%d)\n" % (w, k)
                st[w] = k or None
            elif op == "nil-left":
                src += "print nil != %s\n" % x
                exp.append("false" if v is None else "true")
            elif op == "getstmt":
                line = src.count("\n") + 1
                src += "get %s\nprint \"checked\"\n" % x          # statement position: value dropped, nil still stops
                if v is None:
                    fail_line = line
                    break
                exp.append("checked")
            elif op == "getsum":
                y = rng.choice(places)
                line = src.count("\n") + 1
                src += "print (get %s) + (get %s)\n" % (x, y)      # `get` binds weaker than `+`: parenthesised
                if v is None or val(y) is None:
                    fail_line = line
                    break
                exp.append(str(v + val(y)))
            else:
                line = src.count("\n") + 1
                src += "print get %s\n" % x
                if v is None:
                    fail_line = line
                    break
                exp.append(str(v))
        if fail_line is not None:
            src += "print \"unreachable\"\n"
        out.append((src, exp, fail_line))
    return out


# ---- "a present optional compares equal to the plain value it holds": every scalar kind and lists, the optional being a
# variable, a function result, a parameter, a class field, a list element; `==` and `!=`, optional on either side; the
# plain operand always has the declared type T (a variable), so that no other typing rule is involved
EQ_TYPES = [("int", "5", "6"), ("str", '"a"', '"b"'), ("float", "1.5", "2.5"), ("byte", "0b101", "0b1"), ("bool", "true", "false"),
            ("bigint", "B5", "B6"), ("[int...]", "[1, 2]", "[1, 3]"), ("[str...]", '["x", "y"]', '["x"]'), ("[bool...]", "[true]", "[false]"),
            ("[float...]", "[1.5]", "[2.5]")]
EQ_POSITIONS = ["variable", "result", "parameter", "field", "element"]


def equality_cases():
    """-> [(id, source, expected lines)]"""
    out = []
    for ty, v, w in EQ_TYPES:
        for pos in EQ_POSITIONS:
            src = "p: %s = %s\nq: %s = %s\n" % (ty, v, ty, w)
            src += "mk = fn(x: %s, present: bool) -> %s? {\n  if present {\n    return x\n  }\n  return nil\n}\n" % (ty, ty)
            if pos == "variable":
                src += "o: %s? = %s\nn: %s? = nil\n" % (ty, v, ty)
                o, n = "o", "n"
            elif pos == "result":
                o, n = "mk(p, true)", "mk(p, false)"
            elif pos == "field":
                src += "class Holder {\n  v: %s?\n  constructor(self, v: %s?) {\n    self.v = v\n  }\n}\nh = Holder(p)\nhn = Holder(nil)\n" % (ty, ty)
                o, n = "h.v", "hn.v"
            elif pos == "element":
                src += "cells: [%s?...] = [mk(p, true), mk(p, false)]\n" % ty
                o, n = "cells[0]", "cells[1]"
            exp = []
            if pos == "parameter":
                src += "same = fn(o: %s?, x: %s) -> bool {\n  return o == x\n}\ndiff = fn(x: %s, o: %s?) -> bool {\n  return x != o\n}\n" % (ty, ty, ty, ty)
                for call, e in (("same(p, p)", True), ("same(p, q)", False), ("same(nil, p)", False), ("diff(p, p)", False), ("diff(q, p)", True), ("diff(p, nil)", True)):
                    src += "print %s\n" % call
                    exp.append("true" if e else "false")
            else:
                for a, op, b, e in ((o, "==", "p", True), ("p", "==", o, True), (o, "==", "q", False), (o, "!=", "p", False), ("q", "!=", o, True),
                                    (n, "==", "p", False), ("p", "!=", n, True)):
                    src += "print %s %s %s\n" % (a, op, b)
                    exp.append("true" if e else "false")
                src += "if %s == p {\n  print \"then\"\n} else {\n  print \"else\"\n}\n" % o
                exp.append("then")
            out.append(("%s/%s" % (ty, pos), src, exp))
    return out


# ---- the target of `?=`: `a ?= e` stores the value of e - nil included - in a, so a variable whose declared type is NOT
# optional cannot be the target of an optional e: if such a program is accepted, a non-optional variable holds nil (and
# the first use of it fails at run time).  Only cases in which e IS nil at run time are generated.
def unwrap_target_cases():
    """-> [(id, source)]: programs that must be rejected at compile time"""
    out = []
    for ty, v, use in (("int", "3", "v + 1"), ("str", '"s"', "v.len()"), ("bool", "true", "!v"), ("float", "1.5", "v * 2.0"), ("[int...]", "[1]", "v.len()")):
        # (an element of the list made by `map` with a callback `-> T?` is an optional like any other)
        for how, e in (("variable", "e"), ("result", "none()"), ("element", "cells[0]"), ("map-result-element", "lifted[0]")):
            for where in ("statement", "if", "while", "function"):
                pre = ("none = fn() -> %s? {\n  return nil\n}\ne: %s? = nil\ncells: [%s?...] = [nil]\nlift = fn(k: int) -> %s? {\n  return nil\n}\nlifted = [1].map(lift)\nprint \"MARK\"\n"
                       % (ty, ty, ty, ty))
                if where == "statement":
                    body = "v: %s = %s\nt = v ?= %s\nprint t\nprint %s\n" % (ty, v, e, use)
                elif where == "if":
                    body = "v: %s = %s\nif v ?= %s {\n  print \"present\"\n}\nprint %s\n" % (ty, v, e, use)
                elif where == "while":
                    body = "v: %s = %s\nwhile v ?= %s {\n  break\n}\nprint %s\n" % (ty, v, e, use)
                else:
                    body = "f = fn(v: %s) {\n  if v ?= %s {\n    print \"present\"\n  }\n  print %s\n}\nf(%s)\n" % (ty, e, use, v)
                out.append(("%s/%s/%s" % (ty, how, where), pre + body))
    return out


# ---- the position in the report of `get` on nil is a position in the TEXT (line, column counted in characters), whatever
# characters precede it on the line or in the file; fixed cases
GET_PREFIXES = [("ascii", "print \"total: \" + "), ("accents", "print \"\u00e9t\u00e9 \u2014 total: \" + "), ("cjk", "print \"\u65e5\u672c\u8a9e: \" + "),
                ("emoji", "print \"\U0001f600\U0001f680 \" + "), ("combining", "print \"e\u0301a\u0300 \" + "), ("non-ascii-name-free", "print 1 + ")]


def get_position_cases():
    """-> [(id, source, (line, column) of the operand of the failing get)]"""
    out = []
    for pid, prefix in GET_PREFIXES:
        num = pid == "non-ascii-name-free"
        decl = "prix: %s? = nil\nsuffixe = \"!\"\n" % ("int" if num else "str")
        for where in ("module", "function", "after-non-ascii-lines"):
            line = prefix + "(get prix)" + ("" if num else " + suffixe")
            col = len(prefix) + len("(get ") + 1
            if where == "module":
                src, ln = decl + line + "\n", 3
            elif where == "function":
                src, ln, col = decl + "f = fn() {\n\t" + line + "\n}\nf()\n", 4, col + 1
            else:
                src, ln = "# \u00e9\u00e8 \u65e5\u672c \U0001f600\nnote = \"\u00fc\u00f6\u00e4 \u2014\"\n" + decl + line + "\n", 5
            out.append(("%s/%s" % (pid, where), src, (ln, col)))
    return out


# ---- a fallback is evaluated only when the primary is nil -- all of it, including what FOLLOWS a nested `or` inside it
OR_NESTED_CASES = [
    ("call-with-nested-or-then-failing-constant", "scale = fn(a: int, b: int) -> int {\n  return a * b\n}\nwidth: int? = 3\nzoom: int? = nil\nprint (width) or scale((zoom) or 1, 1 / 0)\nprint \"end\"\n", ["3", "end"], 0),
    ("sum-with-nested-or-then-failing-constant", "width: int? = 3\nzoom: int? = 2\nprint (width) or ((zoom) or 1) + 1 / 0\nprint \"end\"\n", ["3", "end"], 0),
    ("nested-or-twice-then-failing-constant", "w: int? = 3\nz: int? = nil\nprint (w) or ((z) or ((z) or 1)) + (1 % 0)\nprint \"end\"\n", ["3", "end"], 0),
    ("nil-primary-reaches-the-failing-constant", "scale = fn(a: int, b: int) -> int {\n  return a * b\n}\nwidth: int? = nil\nzoom: int? = nil\nprint \"start\"\nprint (width) or scale((zoom) or 1, 1 / 0)\nprint \"never\"\n", ["start"], 1),
    ("nested-or-in-list-then-failing-constant", "w: [int...]? = [3]\nz: int? = nil\nr = (w) or [(z) or 1, 1 / 0]\nprint r\nprint \"end\"\n", ["[3]", "end"], 0),
]


# ---- precedence of the two optional operators, written WITHOUT parentheses next to every class of binary operator (fixed
# cases, the same for every seed).  The grammar (compiler/src/grammar.pest) and the operator table (PRATT_PARSER in
# compiler/src/ast/math_expr.rs) say:
#   * `x or y` is a POSTFIX of the atom x and binds tighter than every prefix and binary operator; its fallback y is a whole
#     `value`, i.e. everything that follows:   a + x or y * 2  ==  a + ((x) or (y * 2)),   -x or y == -((x) or y)
#   * `get` is a PREFIX that binds looser than every binary operator except `?=` and `is`: its operand is everything up to the
#     end of the expression:   get a == b  ==  get (a == b),   1 + get a * 2  ==  1 + get (a * 2)
# so the operand tested for nil by `or` is x alone, and the operand of `get` is the whole comparison / sum.  The expected
# value of every expression is written down here as a Python function of the optional's content (None = nil).
def _d(x, y):
    return y if x is None else x


def _tdiv(a, b):
    q = abs(a) // abs(b)
    return q if (a < 0) == (b < 0) else -q


# (id, type of the optional, result type, expression with {X} = the optional operand, value as a function of its content)
OR_PRECEDENCE = [
    ("add", "int", "int", "100 + {X} or 3", lambda x: 100 + _d(x, 3)),
    ("sub", "int", "int", "100 - {X} or 3", lambda x: 100 - _d(x, 3)),
    ("mul", "int", "int", "2 * {X} or 3", lambda x: 2 * _d(x, 3)),
    ("div", "int", "int", "100 / {X} or 3", lambda x: _tdiv(100, _d(x, 3))),
    ("rem", "int", "int", "100 % {X} or 3", lambda x: 100 - _tdiv(100, _d(x, 3)) * _d(x, 3)),
    ("shl", "int", "int", "1 << {X} or 3", lambda x: 1 << _d(x, 3)),
    ("shr", "int", "int", "4096 >> {X} or 3", lambda x: 4096 >> _d(x, 3)),
    ("bit-and", "int", "int", "6 & {X} or 3", lambda x: 6 & _d(x, 3)),
    ("bit-or", "int", "int", "8 | {X} or 3", lambda x: 8 | _d(x, 3)),
    ("bit-xor", "int", "int", "6 xor {X} or 3", lambda x: 6 ^ _d(x, 3)),
    ("lt", "int", "bool", "5 < {X} or 3", lambda x: 5 < _d(x, 3)),
    ("le", "int", "bool", "7 <= {X} or 3", lambda x: 7 <= _d(x, 3)),
    ("gt", "int", "bool", "5 > {X} or 3", lambda x: 5 > _d(x, 3)),
    ("ge", "int", "bool", "3 >= {X} or 3", lambda x: 3 >= _d(x, 3)),
    ("eq", "int", "bool", "3 == {X} or 3", lambda x: 3 == _d(x, 3)),
    ("ne", "int", "bool", "3 != {X} or 3", lambda x: 3 != _d(x, 3)),
    ("and", "bool", "bool", "true && {X} or false", lambda x: True and _d(x, False)),
    ("or-logical", "bool", "bool", "false || {X} or false", lambda x: False or _d(x, False)),
    ("xor-logical", "bool", "bool", "true ^ {X} or false", lambda x: True != _d(x, False)),
    ("not", "bool", "bool", "!{X} or false", lambda x: not _d(x, False)),
    ("neg", "int", "int", "-{X} or 3", lambda x: -_d(x, 3)),
    ("get", "int", "int", "get {X} or 3", lambda x: _d(x, 3)),
    ("concat", "str", "str", "\"name=\" + {X} or \"anonymous\"", lambda x: "name=" + _d(x, "anonymous")),
    ("concat-number-left", "str", "str", "7 + {X} or \"anonymous\"", lambda x: "7" + _d(x, "anonymous")),
    ("repeat", "int", "str", "\"ab\" * {X} or 3", lambda x: "ab" * _d(x, 3)),
    ("str-eq", "str", "bool", "\"ab\" == {X} or \"cd\"", lambda x: "ab" == _d(x, "cd")),
    # the fallback is everything that follows
    ("fallback-extends-mul", "int", "int", "100 - {X} or 3 * 2", lambda x: 100 - _d(x, 6)),
    ("fallback-extends-add", "int", "int", "{X} or 3 + 1", lambda x: _d(x, 4)),
    ("fallback-extends-both-sides", "int", "int", "2 * {X} or 3 + 1", lambda x: 2 * _d(x, 4)),
    ("fallback-extends-and", "bool", "bool", "{X} or true && false", lambda x: _d(x, False)),
    ("fallback-extends-concat", "str", "str", "\"<\" + {X} or \"anon\" + \">\"", lambda x: "<" + _d(x, "anon>")),
    # two operators before the primary, a second `or` in the fallback
    ("two-operators-before", "int", "int", "1 + 2 * {X} or 3", lambda x: 1 + 2 * _d(x, 3)),
    ("comparison-of-sum", "int", "bool", "10 == 3 + {X} or 4", lambda x: 10 == 3 + _d(x, 4)),
    ("or-chain", "int", "int", "1 + {X} or {X} or 5", lambda x: 1 + _d(x, 5)),
    ("logical-of-comparison", "int", "bool", "true && 5 < {X} or 3", lambda x: 5 < _d(x, 3)),
]
OR_COMPOUND = [("+=", lambda v, y: v + y), ("-=", lambda v, y: v - y), ("*=", lambda v, y: v * y), ("/=", _tdiv), ("%=", lambda v, y: v - _tdiv(v, y) * y)]

NEVER = "never"       # marks an expression that has no value when the optional is nil (not generated with nil)
GET_PRECEDENCE = [
    ("add", "int", "int", "get {X} + 1", lambda x: NEVER if x is None else x + 1),
    ("sub-mul", "int", "int", "get {X} - 1 * 2", lambda x: NEVER if x is None else x - 2),
    ("mul", "int", "int", "get {X} * 2", lambda x: NEVER if x is None else x * 2),
    ("div", "int", "int", "get {X} / 2", lambda x: NEVER if x is None else _tdiv(x, 2)),
    ("rem", "int", "int", "get {X} % 4", lambda x: NEVER if x is None else x - _tdiv(x, 4) * 4),
    ("shl", "int", "int", "get {X} << 1", lambda x: NEVER if x is None else x << 1),
    ("shr", "int", "int", "get {X} >> 1", lambda x: NEVER if x is None else x >> 1),
    ("bit-and", "int", "int", "get {X} & 3", lambda x: NEVER if x is None else x & 3),
    ("bit-or", "int", "int", "get {X} | 8", lambda x: NEVER if x is None else x | 8),
    ("bit-xor", "int", "int", "get {X} xor 2", lambda x: NEVER if x is None else x ^ 2),
    ("lt", "int", "bool", "get {X} < 9", lambda x: NEVER if x is None else x < 9),
    ("ge", "int", "bool", "get {X} >= 8", lambda x: NEVER if x is None else x >= 8),
    ("and", "bool", "bool", "get {X} && false", lambda x: NEVER if x is None else (x and False)),
    ("or-logical", "bool", "bool", "get {X} || false", lambda x: NEVER if x is None else (x or False)),
    ("concat", "str", "str", "get {X} + \"!\"", lambda x: NEVER if x is None else x + "!"),
    ("repeat", "str", "str", "get {X} * 2", lambda x: NEVER if x is None else x * 2),
    # comparisons for equality have a value whatever the optional holds: nil equals nil only
    ("eq", "int", "bool", "get {X} == 3", lambda x: x == 3),
    ("eq-held", "int", "bool", "get {X} == 7", lambda x: x == 7),
    ("ne", "int", "bool", "get {X} != 3", lambda x: x != 3),
    ("eq-nil", "int", "bool", "get {X} == nil", lambda x: x is None),
    ("ne-nil", "int", "bool", "get {X} != nil", lambda x: x is not None),
    ("nil-eq", "int", "bool", "get nil == {X}", lambda x: x is None),
    ("plain-eq", "int", "bool", "get 3 == {X}", lambda x: x == 3),
    ("bool-eq", "bool", "bool", "get {X} == true", lambda x: x is True),
    ("str-eq", "str", "bool", "get {X} == \"ab\"", lambda x: x == "ab"),
    ("str-ne", "str", "bool", "get {X} != \"zz\"", lambda x: x != "zz"),
    ("eq-and", "int", "bool", "get {X} == 3 || true", lambda x: True),
    ("eq-of-optionals", "int", "bool", "get {X} == {X}", lambda x: True),
    # `get` after another operator: its operand still extends to the end
    ("inner-add", "int", "int", "1 + get {X} + 2", lambda x: NEVER if x is None else 1 + (x + 2)),
    ("inner-mul", "int", "int", "1 + get {X} * 2", lambda x: NEVER if x is None else 1 + x * 2),
    ("inner-mul-add", "int", "int", "2 * get {X} + 1", lambda x: NEVER if x is None else 2 * (x + 1)),
    ("sum-eq", "int", "bool", "get {X} + 1 == 8", lambda x: NEVER if x is None else x + 1 == 8),
    ("get-get", "int", "int", "get {X} + get {X}", lambda x: NEVER if x is None else x + x),
    ("get-or-extends", "int", "int", "get {X} or 3 + 1", lambda x: _d(x, 4)),
    ("inner-eq", "int", "bool", "true && get {X} == 3", lambda x: x == 3),
]
PRESENT = {"int": ("7", 7), "bool": ("true", True), "str": ("\"ab\"", "ab")}
OPERAND_FORMS = ["variable", "parameter", "element", "field", "call-result"]


def _txt(v):
    return ("true" if v else "false") if isinstance(v, bool) else str(v)


def precedence_cases():
    """-> [(id, source, expected lines, the reading of the expression with every parenthesis written)]"""
    out = []
    for fam, table in (("or", OR_PRECEDENCE), ("get", GET_PRECEDENCE)):
        for eid, T, R, expr, fn in table:
            lit, pv = PRESENT[T]
            for form in OPERAND_FORMS:
                pre = ""
                if form == "variable":
                    pre = "on: %s? = nil\nop: %s? = %s\n" % (T, T, lit)
                    ops = {"nil": "on", "present": "op"}
                elif form == "element":
                    pre = "cells: [%s?...] = [nil, %s]\n" % (T, lit)
                    ops = {"nil": "(cells[0])", "present": "(cells[1])"}
                elif form == "field":
                    pre = "class Holder {\n\to: %s?\n\tconstructor(self, o: %s?) {\n\t\tself.o = o\n\t}\n}\nhn = Holder(nil)\nhp = Holder(%s)\n" % (T, T, lit)
                    ops = {"nil": "(hn.o)", "present": "(hp.o)"}
                elif form == "call-result":
                    pre = "mk = fn(k: int) -> %s? {\n\tif k > 0 {\n\t\treturn %s\n\t}\n\treturn nil\n}\n" % (T, lit)
                    ops = {"nil": "(mk(0))", "present": "(mk(1))"}
                else:
                    ops = {"nil": "o", "present": "o"}
                src = pre + "show = fn(k: %s) -> %s {\n\treturn k\n}\n" % (R, R)
                exp = []
                for j, (state, content) in enumerate((("nil", None), ("present", pv))):
                    want = fn(content)
                    if want is NEVER:
                        continue
                    e = expr.replace("{X}", ops[state])
                    w = _txt(want)
                    if form == "parameter":
                        # the optional is a parameter; the expression is the returned value / the condition inside the function
                        arg = "nil" if content is None else lit
                        src += "f%d = fn(o: %s?) -> %s {\n\treturn %s\n}\nprint f%d(%s)\n" % (j, T, R, e, j, arg)
                        exp.append(w)
                        if R == "bool":
                            src += ("g%d = fn(o: %s?) -> str {\n\tif %s {\n\t\treturn \"then\"\n\t}\n\treturn \"else\"\n}\nprint g%d(%s)\n" % (j, T, e, j, arg))
                            exp.append("then" if want else "else")
                        continue
                    src += "print %s\n" % e                                          # statement (print)
                    src += "r%d = %s\nprint r%d\n" % (j, e, j)                       # right-hand side of an assignment
                    src += "print show(%s)\n" % e                                    # argument
                    exp += [w, w, w]
                    if fam == "get":
                        src += "%s\nprint \"after\"\n" % e                          # bare statement: the value is dropped
                        exp.append("after")
                    if R == "bool":
                        src += "if %s {\n\tprint \"then\"\n} else {\n\tprint \"else\"\n}\n" % e
                        exp.append("then" if want else "else")
                        src += "n%d = 0\nwhile %s {\n\tn%d = n%d + 1\n\tif n%d == 2 {\n\t\tbreak\n\t}\n}\nprint n%d\n" % (j, e, j, j, j, j)
                        exp.append("2" if want else "0")
                out.append(("%s/%s/%s" % (fam, eid, form), src, exp, expr))
    # `v op= x or y`: the right operand of a compound assignment is the whole `x or y`
    for sym, fn in OR_COMPOUND:
        for form in ("variable", "element", "field", "call-result"):
            pre = {"variable": "on: int? = nil\nop: int? = 7\n", "element": "cells: [int?...] = [nil, 7]\n",
                   "field": "class Holder {\n\to: int?\n\tconstructor(self, o: int?) {\n\t\tself.o = o\n\t}\n}\nhn = Holder(nil)\nhp = Holder(7)\n",
                   "call-result": "mk = fn(k: int) -> int? {\n\tif k > 0 {\n\t\treturn 7\n\t}\n\treturn nil\n}\n"}[form]
            ops = {"variable": ("on", "op"), "element": ("(cells[0])", "(cells[1])"), "field": ("(hn.o)", "(hp.o)"), "call-result": ("(mk(0))", "(mk(1))")}[form]
            src = pre + "v = 100\nv %s %s or 3\nprint v\nw = 100\nw %s %s or 3\nprint w\n" % (sym, ops[0], sym, ops[1])
            out.append(("or/compound %s/%s" % (sym, form), src, [str(fn(100, 3)), str(fn(100, 7))], "v %s {X} or 3" % sym))
    return out


def run_precedence(ctx, binary, base):
    cases = precedence_cases()

    def one(src):
        d = programs.materialize({"files": {"main.ms": src}}, base)
        r = programs.run_bin(binary, ["run", "main.ms", "-q"], d)
        import shutil
        shutil.rmtree(d, ignore_errors=True)
        return r
    n = 0
    for (cid, src, exp, expr), (rc, out, err) in zip(cases, programs.pmap(one, [c[1] for c in cases])):
        n += 1
        got = out.split("\n")[:-1]
        if rc == 0 and got == exp:
            continue
        fam = cid.split("/")[0]
        rep = {"case": cid, "expression": expr, "program": src, "expected": exp, "observed": got, "rc": rc, "stderr": (out + err)[-500:], "how": "mscript run main.ms -q"}
        if "Did not compile successfully" in err:
            ctx.report("precedence:%s:rejected" % fam, "a fixed precedence case (%s: `%s`) is rejected by the compiler: %s"
                       % (cid, expr, [l.strip() for l in (out + err).splitlines() if l.strip().startswith("=")][:1]), rep)
            continue
        k = next((i for i, (g, e) in enumerate(zip(got, exp)) if g != e), min(len(got), len(exp)))
        ctx.report("precedence:%s" % fam,
                   ("`%s` (%s): output line %d is %r, expected %r (exit %d%s); " % (expr, cid, k + 1, got[k] if k < len(got) else None, exp[k] if k < len(exp) else None, rc,
                                                                                  (": " + ([l.strip() for l in err.splitlines() if re.match(r"\s+\d+: ", l)] or [""])[-1][:100]) if rc else ""))
                   + ("`x or y` tests the atom x alone and takes the rest of the expression as fallback" if fam == "or" else "the operand of `get` is everything that follows it"), rep)
    ctx.cov["precedence_cases"] = {"programs": n, "or_expressions": len(OR_PRECEDENCE) + len(OR_COMPOUND), "get_expressions": len(GET_PRECEDENCE), "operand_forms": OPERAND_FORMS,
                                   "positions": ["print", "assignment", "argument", "bare statement (get)", "if", "while", "returned value / condition inside a function"]}
    return n


def run_fixed_positions_and_fallbacks(ctx, binary, base):
    gcs = get_position_cases()

    def one(src):
        d = programs.materialize({"files": {"main.ms": src}}, base)
        r = programs.run_bin(binary, ["run", "main.ms", "-q"], d)
        import shutil
        shutil.rmtree(d, ignore_errors=True)
        return r
    n = 0
    for (cid, src, (ln, col)), (rc, out, err) in zip(gcs, programs.pmap(one, [c[1] for c in gcs])):
        n += 1
        m = re.search(r"main\.ms:(\d+):(\d+): unwrap of `nil`", err)
        if rc != 1 or not m or (int(m.group(1)), int(m.group(2))) != (ln, col):
            ctx.report("get-nil-position", "`get` of nil (%s): the report must name main.ms:%d:%d (line and column, in characters, of the operand); exit %d, it names %r"
                       % (cid, ln, col, rc, m.group(0) if m else (out + err)[-200:]),
                       {"case": cid, "program": src, "expected_position": "main.ms:%d:%d" % (ln, col), "rc": rc, "stdout": out[-300:], "stderr": err[-600:], "how": "mscript run main.ms -q"})
    for (cid, src, exp, erc), (rc, out, err) in zip(OR_NESTED_CASES, programs.pmap(one, [c[1] for c in OR_NESTED_CASES])):
        n += 1
        got = out.split("\n")[:-1]
        if "Did not compile successfully" in err or got != exp or (rc != 0) != (erc != 0):
            why = [l.strip() for l in (out + err).splitlines() if l.strip().startswith("=")]
            ctx.report("or-fallback-with-nested-or", "`a or b` with an `or` nested inside b (%s): %s, expected %r and %s"
                       % (cid, ("rejected at compile time %s" % why[:1]) if "Did not compile" in err else "printed %r (exit %d)" % (got, rc), exp, "normal termination" if erc == 0 else "a run-time failure"),
                       {"case": cid, "program": src, "expected": exp, "observed": got, "rc": rc, "stderr": (out + err)[-500:], "how": "mscript run main.ms -q"})
    ctx.cov["get_position_cases"] = len(gcs)
    ctx.cov["or_nested_fallback_cases"] = len(OR_NESTED_CASES)
    return n


def run(ctx):
    ok = core.coq_props(ctx, "Props/C12.v")
    binary = core.build_repo()
    projs = []
    for i in range(250 if ctx.quick() else 4000):
        tree = coregen.assign_spans(gen_program(ctx.rng), "main.ms")
        projs.append({"name": "optional%d" % i, "files": {"main.ms": coregen.render_ms(tree)}, "entry": "main.ms", "tree": tree})
    results = coretie.tie_all(ctx, binary, projs, "c12")
    st = coretie.report_results(ctx, binary, results, "c12")
    rej = [r for r in results if r["status"] == "rejected"]
    if len(rej) > len(results) // 4:
        ctx.report("generator-degraded", "%d of %d optional programs are rejected by the compiler: %s" % (len(rej), len(results), rej[0].get("stderr", "")[-300:]),
                   {"project": coretie.slim(rej[0]["proj"])}, found_input=False)
    base = ctx.mktemp()
    cases = unwrap_into_cases(ctx.rng, 60 if ctx.quick() else 600)

    def one(case):
        src, exp = case
        d = programs.materialize({"files": {"main.ms": src}}, base)
        rc, out, err = programs.run_bin(binary, ["run", "main.ms", "-q"], d)
        return src, exp, rc, out, err
    n_u = 0
    for src, exp, rc, out, err in programs.pmap(one, cases):
        n_u += 1
        got = out.split("\n")[:-1]
        if got != exp or rc != 0:
            ctx.report("unwrap-into", "`a ?= e` misbehaves: expected %r got %r (rc %d)" % (exp, got, rc),
                       {"program": src, "expected": exp, "observed": got, "rc": rc, "stderr": (out + err)[-400:]})
    n_c = n_cfail = 0
    for src, exp, fl, rc, out, err in programs.pmap(lambda c: c + one((c[0], c[1]))[2:], container_cases(ctx.rng, 150 if ctx.quick() else 2500)):
        n_c += 1
        got = out.split("\n")[:-1]
        bad = None
        if got != exp:
            bad = "printed %r, the semantics prescribes %r" % (got[-4:], exp[-4:])
        elif fl is None and rc != 0:
            bad = "exit status %d, the semantics prescribes normal termination" % rc
        elif fl is not None:
            n_cfail += 1
            m = re.search(r"main\.ms:(\d+):\d+: unwrap of `nil`", err)
            if rc != 1 or not m:
                bad = "`get` of nil at line %d must stop the program with an error naming that position; exit status %d, stderr names %r" % (fl, rc, m.group(0) if m else None)
            elif int(m.group(1)) != fl:
                bad = "`get` of nil at line %d reported at line %s" % (fl, m.group(1))
        if bad:
            ctx.report("optional-in-container", "optional field / element / map value / method result: " + bad,
                       {"program": src, "expected": exp, "expected_failure_line": fl, "observed": got, "rc": rc, "stderr": err[-400:]})
    ctx.cov["container_cases"] = {"programs": n_c, "ending_in_get_of_nil": n_cfail}
    # ---- present optional == plain value (exhaustive catalogue, both tiers)
    eqs = equality_cases()
    n_eq = 0
    for (cid, src, exp), (_, _, rc, out, err) in zip(eqs, programs.pmap(lambda c: one((c[1], c[2])), eqs)):
        n_eq += 1
        got = out.split("\n")[:-1]
        if rc == 0 and got == exp:
            continue
        rejected = "Did not compile successfully" in err
        diag = [l.strip() for l in out.splitlines() if l.strip().startswith("=")]
        ctx.report("present-optional-eq-plain:" + ("rejected" if rejected else "wrong-answer"),
                   "comparing an optional (%s) with a plain value of its type: %s" % (cid, ("the comparison is rejected at compile time: %s" % diag[:1]) if rejected
                                                                                      else "printed %r (exit %d), a present optional equals the value it holds: %r" % (got, rc, exp)),
                   {"case": cid, "program": src, "expected": exp, "observed": got, "rc": rc, "stderr": (out + err)[-500:], "how": "mscript run main.ms -q"})
    # ---- `?=` into a variable whose type cannot hold nil
    uts = unwrap_target_cases()
    n_ut = 0
    for (cid, src), (_, _, rc, out, err) in zip(uts, programs.pmap(lambda c: one((c[1], None)), uts)):
        n_ut += 1
        if "Did not compile successfully" in err and "MARK" not in out:
            continue
        ctx.report("unwrap-into:non-optional-target",
                   "`v ?= e` with v declared non-optional and e nil (%s) is accepted: `?=` stores the value of e, so v - not of optional type - holds nil; exit %d, %s"
                   % (cid, rc, ([l.strip() for l in err.splitlines() if re.match(r"\s+\d+: ", l)] or [err.strip()[-160:]])[-1][:160] if rc else "ran to completion: %r" % out.split("\n")[-4:]),
                   {"case": cid, "program": src, "expected": "rejected at compile time (the target cannot hold the value of e)", "rc": rc, "stdout": out[-300:], "stderr": err[-500:],
                    "how": "mscript run main.ms -q"})
    n_fx = run_fixed_positions_and_fallbacks(ctx, binary, base)
    n_fx += run_precedence(ctx, binary, base)
    ctx.cov["present_optional_equality_cases"] = {"programs": n_eq, "types": [t[0] for t in EQ_TYPES], "positions": EQ_POSITIONS}
    ctx.cov["unwrap_into_non_optional_target_cases"] = n_ut
    nils = sum(1 for r in results if r["status"] == "ran" and r["t3"][0] == "ok" and "unwrap of" in r["real"]["stderr"])
    ctx.cov["evaluations"] = st["programs"] + n_u + n_c + n_eq + n_ut + n_fx
    ctx.cov["distinct_nontrivial"] = len(set(r["proj"]["files"]["main.ms"] for r in results if r["status"] == "ran"))
    ctx.cov["rule"] = ("optional programs: int?/str? variables, parameters and results, each use of == nil / == value / or (literal, variable, "
                       "side-effecting and nested fallback) / get in statement, if and while position with random nil/present; `?=` in if / statement / "
                       "while position against a Python oracle; present optional == / != plain value for every scalar kind and four list types x "
                       "{variable, function result, parameter, class field, list element} (exhaustive); `?=` into a non-optional variable with e nil "
                       "(5 types x variable/result/list element/element of a `map` result x statement/if/while/function) must be rejected; `or` and `get` written without parentheses next to "
                       "every class of binary operator (precedence_cases: nil and present, 5 operand forms, print / assignment / argument / statement / if / while / return); "
                       "non-trivial = distinct program that ran")
    ctx.cov["statistics"] = st
    ctx.cov["programs_stopped_by_get_nil_with_matching_span"] = nils
    ctx.cov["unwrap_into_cases"] = n_u
    ctx.cov["traces_validated_against_impl"] = st["t2_agree"]
    ctx.sample({"program": projs[0]["files"]["main.ms"][:900]})
    ctx.cov["trusted_base"] = ["Coq 8.16.1 kernel; no axioms", "extraction + drivers", "hooks H1/H3", "Python oracle for ?="]
    ctx.assumptions = ["Lang/Eval.v is the specification for ==nil / or / get", "optionals of list and class type are outside the Coq models"]
    spec_failed = any(v[0].startswith(("semantics:", "unwrap-into", "present-optional-eq-plain", "optional-in-container", "get-nil-position", "or-fallback-with-nested-or", "precedence:")) for v in ctx.viol)
    core.proof_or_search(ctx, ok, ["C12 obligations"], spec_failed)
