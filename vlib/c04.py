"""C04: `run` == `compile`+`execute`; every argument is read back exactly as emitted."""
import os, shutil
from . import core, programs, codec_common as cc


SPELLINGS = ("plain", "dot", "absolute")


def spell(how, d, f):
    """the path of file `f` of the project directory `d`, spelled plain / with a leading `./` / absolute"""
    return f if how == 0 else ("./" + f if how == 1 else os.path.join(d, f))


def spelling_of(proj):
    """(run+compile spelling, execute spelling): `proj["spell"]` when given, else derived from the project's name.
    A bytecode file is the same file however its path is written, so the spelling used for `execute` varies independently of
    the one `compile` was given (all commands are started in the project directory)."""
    import zlib
    if "spell" in proj:
        return tuple(proj["spell"])
    k = zlib.crc32(proj["name"].encode()) % 9
    return k % 3, k // 3


def system_level(ctx, binary, projects, limit):
    """run every project both ways: stdout, exit class and loaded instruction streams must agree"""
    base = ctx.mktemp()
    todo = projects[:limit]
    tmo = 8 if ctx.quick() else 20

    def one(proj):
        d = programs.materialize(proj, base)
        e0 = proj["entry"]
        how, how_x = spelling_of(proj)
        e = spell(how, d, e0)
        r1 = programs.run_bin(binary, ["run", e, "-q"], d, {"MSCRIPT_VERIF_DUMP": os.path.join(d, "dump1")}, timeout=tmo)
        d2 = programs.materialize(proj, base)
        c = programs.run_bin(binary, ["compile", spell(how, d2, e0), "--quick"], d2)
        r2 = None
        same_spelling = None
        if r1[0] == 124:
            # a program that does not finish within the time limit cannot be compared: do not wait for it twice more
            r2 = (124, "", "")
        elif c[0] == 0:
            mmm = e0[:-3] + ".mmm"
            r2 = programs.run_bin(binary, ["execute", spell(how_x, d2, mmm)], d2, {"MSCRIPT_VERIF_DUMP": os.path.join(d2, "dump2")})
            if how_x != how and (programs.exit_class(r2[0]) != programs.exit_class(r1[0]) or not programs.same_output(r1[1], r2[1], proj)):
                # does the difference come from the spelling of the path alone?
                same_spelling = programs.run_bin(binary, ["execute", spell(how, d2, mmm)], d2)
        def rd(p):
            try:
                return programs.parse_dump(open(p, "rb").read())
            except Exception as ex:
                return None
        if r2 is not None and not programs.same_output(r1[1].replace(d + os.sep, ""), r2[1].replace(d2 + os.sep, ""), proj):
            # HashMap iteration order differs from run to run: a program whose own output is not
            # reproducible is not compared
            again = programs.run_bin(binary, ["run", e, "-q"], d)
            if not programs.same_output(r1[1], again[1], None):
                r2 = (r2[0], r1[1].replace(d + os.sep, d2 + os.sep), r2[2])
        # a printed function value shows the path of its file as compiled: the two scratch copies of the project differ
        # in nothing but their own location
        unloc = lambda r, dd: r if r is None else (r[0], r[1].replace(dd + os.sep, ""), r[2].replace(dd + os.sep, ""))
        r1, r2, same_spelling = unloc(r1, d), unloc(r2, d2), unloc(same_spelling, d2)
        res = (proj, r1, c, r2, rd(os.path.join(d, "dump1")), rd(os.path.join(d2, "dump2")), same_spelling)
        shutil.rmtree(d, ignore_errors=True)
        shutil.rmtree(d2, ignore_errors=True)
        return res

    results = programs.pmap(one, todo)
    n_run = n_both = n_dump = 0
    n_mixed = 0
    for proj, r1, c, r2, d1, d2, same_spelling in results:
        n_run += 1
        how, how_x = spelling_of(proj)
        n_mixed += how != how_x
        compiled1 = "Interpreter crashed" in r1[2] or r1[0] == 0 or "MSCRIPT INTERPRETER" in r1[2]
        if c[0] != 0:
            # not compilable: `run` must not have produced program behaviour either; outside the quantifier
            continue
        n_both += 1
        k1, k2 = programs.exit_class(r1[0]), programs.exit_class(r2[0])
        if 'timeout' in (k1, k2):
            continue
        if (not programs.same_output(r1[1], r2[1], proj) or k1 != k2) and same_spelling is not None \
                and programs.exit_class(same_spelling[0]) == k1 and programs.same_output(r1[1], same_spelling[1], proj):
            ctx.report("execute-path-spelling",
                       "the bytecode compiled from `%s` executes like `run` when started as `%s` but not as `%s` (exit %s vs %s): %s" % (
                           spell(how, "<dir>", proj["entry"]), spell(how, "<dir>", proj["entry"][:-3] + ".mmm"),
                           spell(how_x, "<dir>", proj["entry"][:-3] + ".mmm"), k1, k2, proj["name"]),
                       {"project": proj, "cwd": "the project directory <dir>", "compile_path": SPELLINGS[how], "execute_path": SPELLINGS[how_x],
                        "run": {"rc": r1[0], "stdout": r1[1][-2000:], "stderr": r1[2][-1500:]},
                        "execute": {"rc": r2[0], "stdout": r2[1][-2000:], "stderr": r2[2][-1500:]},
                        "execute_spelled_like_compile": {"rc": same_spelling[0], "stdout": same_spelling[1][-2000:]}})
            continue
        if not programs.same_output(r1[1], r2[1], proj) or k1 != k2:
            ctx.report("run-vs-execute:" + proj["name"],
                       "run and compile+execute differ on %s: exit %s vs %s" % (proj["name"], k1, k2),
                       {"project": proj, "run": {"rc": r1[0], "stdout": r1[1][-2000:], "stderr": r1[2][-1500:]},
                        "execute": {"rc": r2[0], "stdout": r2[1][-2000:], "stderr": r2[2][-1500:]}})
            continue
        if d1 is not None and d2 is not None:
            d1, d2 = programs.canon_dump(d1), programs.canon_dump(d2)
            n_dump += 1
            # same functions & instructions in the files both paths loaded
            for f in set(d1) & set(d2):
                if d1[f] != d2[f]:
                    ctx.report("dump-differs:" + proj["name"], "loaded instruction streams of %s differ between run and execute (%s)" % (f, proj["name"]),
                               {"project": proj, "file": f,
                                "diff": [(n, d1[f].get(n), d2[f].get(n)) for n in set(d1[f]) | set(d2[f]) if d1[f].get(n) != d2[f].get(n)][:3]})
    ctx.cov["programs_executed_under_another_path_spelling"] = n_mixed
    return n_run, n_both, n_dump


def failing_and_colliding_programs():
    out = []
    fails = {
        "assert": "assert k == 99",
        "div-zero": "print 10 / (k - k)",
        "unwrap-nil": "o: int? = nil\n  print get o",
        "index-range": "l: [int...] = [1]\n  print l[k + 5]",
        "overflow-panic": "v = 2147483647\n  print v + k",
        "bigint-overflow-panic": "v = B170141183460469231731687303715884105727\n  print v + k",
        "map-missing-key": "m = map[str, int] { \"a\": 1 }\n  print get m[\"zz\"]",
    }
    for name, stmt in sorted(fails.items()):
        out.append({"name": "fail:%s:module" % name, "entry": "main.ms",
                    "files": {"main.ms": "print \"before\"\nk = 1\nif k == 1 {\n  %s\n}\nprint \"after\"\n" % stmt}})
        out.append({"name": "fail:%s:function" % name, "entry": "main.ms",
                    "files": {"main.ms": "f = fn(k: int) -> int {\n  print \"in f\"\n  %s\n  return k\n}\ng = fn(k: int) -> int {\n  return f(k) + 1\n}\nprint \"before\"\nprint g(1)\nprint \"after\"\n" % stmt}})
    out.append({"name": "collide:same-class-name-in-two-scopes", "entry": "main.ms", "files": {"main.ms":
        "mk1 = fn() -> int {\n  class Box {\n    constructor(self) {}\n    fn size(self) -> int { return 1 }\n  }\n  b = Box()\n  return b.size()\n}\n"
        "mk2 = fn() -> int {\n  class Box {\n    constructor(self) {}\n    fn size(self) -> int { return 2 }\n  }\n  b = Box()\n  return b.size()\n}\n"
        "print mk1()\nprint mk2()\n"}})
    out.append({"name": "self:method-constructs-its-own-class", "entry": "main.ms", "files": {"main.ms":
        "class Counter {\n  n: int\n  constructor(self, n: int) {\n    self.n = n\n  }\n  fn next(self) -> Self {\n    return Self(self.n + 1)\n  }\n}\n"
        "c = Counter(1)\nprint c.n\nd = c.next()\nprint d.n\nprint (d.next()).n\n"}})
    out.append({"name": "self:method-constructs-its-own-class-b", "entry": "main.ms", "files": {"main.ms":
        "class P {\n  v: int\n  constructor(self, v: int) {\n    self.v = v\n  }\n  fn twice(self) -> Self {\n    return Self(self.v * 2)\n  }\n}\nprint ((P(3)).twice()).v\n"}})
    out.append({"name": "self:method-constructs-its-own-class-c", "entry": "main.ms", "files": {"main.ms":
        "class Q {\n  v: int\n  constructor(self, v: int) {\n    self.v = v\n  }\n  fn up(self) -> Self {\n    return Self(self.v + 5)\n  }\n}\nq = Q(1)\nprint (q.up()).v\n"}})
    for metric in ("true", "false"):
        out.append({"name": "collide:same-class-name-in-if-and-else-branch (%s)" % metric, "entry": "main.ms", "files": {"main.ms":
            "metric = %s\nif metric {\n  class Fmt {\n    fn unit(self) -> str {\n      return \"km\"\n    }\n  }\n  f = Fmt()\n  print \"100 \" + f.unit()\n} else {\n"
            "  class Fmt {\n    fn unit(self) -> str {\n      return \"mi\"\n    }\n  }\n  f = Fmt()\n  print \"62 \" + f.unit()\n}\n" % metric}})
    out.append({"name": "collide:same-class-name-in-two-blocks-both-run", "entry": "main.ms", "files": {"main.ms":
        "if true {\n  class Tag {\n    fn s(self) -> str {\n      return \"first\"\n    }\n  }\n  t = Tag()\n  print t.s()\n}\nfrom 0 to 1, i {\n  class Tag {\n    fn s(self) -> str {\n      return \"second\"\n    }\n  }\n  t = Tag()\n  print t.s() + i\n}\n"}})
    out.append({"name": "collide:same-function-name-in-if-and-else-branch", "entry": "main.ms", "files": {"main.ms":
        "k = 2\nif k == 1 {\n  h = fn() -> int {\n    return 1\n  }\n  print h()\n} else {\n  h = fn() -> int {\n    return 2\n  }\n  print h()\n}\n"}})
    # the life of a name: a loop counter is gone after its loop; the name declared again later is a NEW variable each time
    out.append({"name": "scope:counter-name-declared-again-in-a-later-loop-body-and-captured", "entry": "main.ms", "files": {"main.ms":
        "sum = 0\nfrom 0 to 3, k {\n  sum += k\n}\nprint sum\nfns: [fn() -> int...] = []\nj = 0\nwhile j < 3 {\n  k = j * 10\n  fns.push(fn() -> int {\n    return k\n  })\n  j += 1\n}\n"
        "a = fns[0]\nb = fns[1]\nc = fns[2]\nprint a()\nprint b()\nprint c()\n"}})
    out.append({"name": "scope:counter-name-declared-again-in-a-function", "entry": "main.ms", "files": {"main.ms":
        "run = fn() -> [fn() -> int...] {\n  t = 0\n  from 0 through 2, k {\n    t = t + k\n  }\n  print t\n  fs: [fn() -> int...] = []\n  from 0 to 3, j {\n    k = j + 100\n    fs.push(fn() -> int {\n      return k\n    })\n  }\n  return fs\n}\n"
        "fs = run()\na = fs[0]\nc = fs[2]\nprint a()\nprint c()\n"}})
    out.append({"name": "scope:counter-name-reused-by-later-loops-and-variables", "entry": "main.ms", "files": {"main.ms":
        "from 0 to 2, k {\n  print k\n}\nfrom 5 to 7, k {\n  print k\n}\nk = \"text\"\nprint k\nw = 0\nwhile w < 2 {\n  q = w * 2\n  w = w + 1\n}\nq = true\nprint q\n"}})
    out.append({"name": "scope:block-local-captured-per-iteration", "entry": "main.ms", "files": {"main.ms":
        "fs: [fn() -> int...] = []\nfrom 0 to 3, i {\n  if i != 1 {\n    v = i * 7\n    fs.push(fn() -> int {\n      return v\n    })\n  }\n}\na = fs[0]\nb = fs[1]\nprint a()\nprint b()\n"}})
    # both commands give the program the same room: a recursion that fits under `run` fits under `execute`
    for depth in (30, 45):
        out.append({"name": "recursion:depth-%d" % depth, "entry": "main.ms", "files": {"main.ms":
            "sum = fn(n: int) -> int {\n  if n == 0 {\n    return 0\n  }\n  return n + self(n - 1)\n}\nprint sum(5)\nprint sum(%d)\n" % depth}})
    out.append({"name": "collide:same-function-name-in-two-scopes", "entry": "main.ms", "files": {"main.ms":
        "a = fn() -> int {\n  h = fn() -> int { return 1 }\n  return h()\n}\nb = fn() -> int {\n  h = fn() -> int { return 2 }\n  return h()\n}\nprint a()\nprint b()\n"}})
    return out


def path_spelling_matrix():
    """programs whose bytecode refers to its own file (a method building its own class, classes and functions of one name in
    two scopes, a failing function, two modules sharing state) under every pair (compile spelling, execute spelling)"""
    base = [p for p in failing_and_colliding_programs() if p["name"].startswith(("self:", "collide:", "fail:assert:function", "fail:div-zero:module"))]
    base.append({"name": "modules:own-class-and-imported-class", "entry": "main.ms", "files": {
        "main.ms": "import lib\nimport bump from lib\nclass P {\n  v: int\n  constructor(self, v: int) {\n    self.v = v\n  }\n  fn twice(self) -> Self {\n    return Self(self.v * 2)\n  }\n}\n"
                   "print \"main\"\nbump()\nprint lib.count()\nb = lib.Box(4)\nprint (b.dup()).v\nprint ((P(3)).twice()).v\n",
        "lib.ms": "print \"lib init\"\nn = 0\nexport bump: fn() = fn() {\n  modify n = n + 1\n}\nexport count: fn() -> int = fn() -> int {\n  return n\n}\n"
                  "export class Box {\n  v: int\n  constructor(self, v: int) {\n    self.v = v\n  }\n  fn dup(self) -> Self {\n    return Self(self.v + 1)\n  }\n}\n"}})
    out = []
    for p in base:
        for how in range(3):
            for how_x in range(3):
                if how != how_x:
                    q = dict(p)
                    q["name"] = "%s [compile %s, execute %s]" % (p["name"], SPELLINGS[how], SPELLINGS[how_x])
                    q["spell"] = (how, how_x)
                    out.append(q)
    return out


def recompile_over_existing(ctx, binary, projects, limit):
    """`compile` writes the bytecode file in place: compiling a SHORTER program over the .mmm of a longer one
    (a multi-step history) must still give a file that executes like `run`."""
    base = ctx.mktemp()
    singles = [p for p in projects if len(p["files"]) == 1][:limit * 3]
    longest = max(singles, key=lambda p: len(list(p["files"].values())[0])) if singles else None
    n = 0
    if longest is None:
        return 0

    def one(proj):
        e = proj["entry"]
        d = programs.materialize({"files": {e: list(longest["files"].values())[0]}}, base)
        c0 = programs.run_bin(binary, ["compile", e, "--quick"], d)
        with open(os.path.join(d, e), "w", encoding="utf8") as f:
            f.write(proj["files"][e])
        c1 = programs.run_bin(binary, ["compile", e, "--quick"], d)
        d1 = programs.materialize(proj, base)
        r1 = programs.run_bin(binary, ["run", e, "-q"], d1, timeout=8 if ctx.quick() else 20)
        r2 = (124, "", "") if r1[0] == 124 else (programs.run_bin(binary, ["execute", e[:-3] + ".mmm"], d) if c1[0] == 0 else None)
        shutil.rmtree(d, ignore_errors=True)
        shutil.rmtree(d1, ignore_errors=True)
        return proj, c0, c1, r1, r2
    for proj, c0, c1, r1, r2 in programs.pmap(one, [p for p in singles if p is not longest][:limit]):
        if c0[0] != 0 or c1[0] != 0 or r2 is None or 124 in (r1[0], r2[0]):
            continue
        n += 1
        if programs.exit_class(r1[0]) != programs.exit_class(r2[0]) or not programs.same_output(r1[1], r2[1], proj):
            ctx.report("recompile-over-existing-file", "after compiling %s over the bytecode file of a longer program, execute differs from run (exit %s vs %s)" % (proj["name"], r2[0], r1[0]),
                       {"project": proj, "previous_program": longest["name"], "run": {"rc": r1[0], "stdout": r1[1][-800:]},
                        "execute": {"rc": r2[0], "stdout": r2[1][-800:], "stderr": r2[2][-600:]},
                        "how": "compile <long program> to x.mmm; replace x.ms by this program; compile again; execute x.mmm"})
    return n


OTHER_DIR_CLASS = "execute-from-another-directory"


def execute_from_another_directory(ctx, binary):
    """(hunt2 D8) the bytecode files `compile` wrote are executed while the process stands in ANOTHER directory (the parent
    with a relative path, an unrelated directory with an absolute path, a sub-directory with `../`).  `run` on the same sources
    behaves the same from every directory; the property compares `run` with executing the files `compile` wrote and says
    nothing of where the user stands.  Programs: the ones whose bytecode refers to its own file or to other files."""
    base = ctx.mktemp()
    progs = [p for p in failing_and_colliding_programs() if p["name"].startswith(("self:method-constructs-its-own-class-b", "collide:same-function", "fail:assert:function"))]
    progs += [p for p in path_spelling_matrix() if p["name"].startswith("modules:") and tuple(p["spell"]) == (0, 1)]
    progs.append({"name": "single:no-functions", "entry": "main.ms", "files": {"main.ms": "k = 20\nprint k + 1\nprint \"done\"\n"}})

    def one(proj):
        top = programs.materialize({"files": {}}, base)          # an empty directory of our own: <top>/proj holds the project
        d = os.path.join(top, "proj")
        os.makedirs(os.path.join(d, "inner"))
        for f, text in proj["files"].items():
            with open(os.path.join(d, f), "w", encoding="utf8") as fh:
                fh.write(text)
        other = os.path.join(top, "elsewhere")
        os.makedirs(other)
        e = proj["entry"]
        mmm = e[:-3] + ".mmm"
        runs = {"run, in the project directory": programs.run_bin(binary, ["run", e, "-q"], d),
                "run proj/%s, from the parent directory" % e: programs.run_bin(binary, ["run", os.path.join("proj", e), "-q"], top)}
        for f in [f for f in os.listdir(d) if f.endswith(".mmm")]:
            os.remove(os.path.join(d, f))
        for f in [f for f in os.listdir(top) if f.endswith(".mmm")]:
            os.remove(os.path.join(top, f))
        c = programs.run_bin(binary, ["compile", e, "--quick"], d)
        ex = {}
        if c[0] == 0:
            ex["execute %s, in the project directory" % mmm] = programs.run_bin(binary, ["execute", mmm], d)
            ex["execute proj/%s, from the parent directory" % mmm] = programs.run_bin(binary, ["execute", os.path.join("proj", mmm)], top)
            ex["execute <absolute path>/%s, from an unrelated directory" % mmm] = programs.run_bin(binary, ["execute", os.path.join(d, mmm)], other)
            ex["execute ../%s, from a sub-directory" % mmm] = programs.run_bin(binary, ["execute", os.path.join("..", mmm)], os.path.join(d, "inner"))
        unloc = lambda r: (r[0], r[1].replace(d + os.sep, "").replace("proj" + os.sep, ""), r[2].replace(d + os.sep, "").replace("proj" + os.sep, ""))
        runs = {k: unloc(v) for k, v in runs.items()}
        ex = {k: unloc(v) for k, v in ex.items()}
        shutil.rmtree(top, ignore_errors=True)
        return proj, runs, c, ex

    n = 0
    for proj, runs, c, ex in programs.pmap(one, progs):
        r1 = runs["run, in the project directory"]
        if c[0] != 0 or 124 in [r[0] for r in list(runs.values()) + list(ex.values())]:
            continue
        same = lambda r: programs.exit_class(r[0]) == programs.exit_class(r1[0]) and programs.same_output(r1[1], r[1], proj)
        if not all(same(r) for r in runs.values()):
            continue                      # `run` itself depends on the directory: nothing to compare `execute` with
        home = [k for k in ex if k.endswith("in the project directory")][0]
        if not same(ex[home]):
            continue                      # differs even at home: system_level reports that
        n += 1
        bad = [k for k, r in ex.items() if not same(r)]
        if bad:
            k = bad[0]
            ctx.report(OTHER_DIR_CLASS,
                       "%s: the bytecode files written by `compile` behave like `run` only while the process stands in the directory `compile` was started in: "
                       "%s -> exit %s %s (run: exit %s from every directory); also differs: %s" % (
                           proj["name"], k, ex[k][0], [l.strip() for l in ex[k][2].splitlines() if "failed" in l or "No such file" in l][:1], r1[0], bad[1:]),
                       {"project": proj, "how": "mkdir proj proj/inner elsewhere; write the files into proj; (cd proj && mscript compile %s --quick); then each command of `execute` below" % proj["entry"],
                        "run": {k: {"rc": r[0], "stdout": r[1][-600:]} for k, r in runs.items()},
                        "execute": {k: {"rc": r[0], "stdout": r[1][-600:], "stderr": r[2][-500:]} for k, r in ex.items()}})
    return n


# ---- fixed families (round 6): what the random / corpus programs hold constant is the SIZE of things and WHERE in a long
# literal the non-ASCII characters sit.  Expected output is computed here (the literal's own text), never taken from a run.
PAD = "0123456789abcdefghijklmnopqrstuvwxyz"
BOUNDS = (16, 32, 64, 128, 256, 512, 1024, 4096, 8192)
WIDE = ("é", "日", "\U0001F600")            # 2, 3 and 4 bytes in UTF-8


def pad(n, salt=0):
    return "".join(PAD[(i + salt) % len(PAD)] for i in range(n))


def straddling_literals(bound):
    """string values in which one multi-byte character lies across byte offset `bound` (every way a 2-, 3-, 4-byte character can),
    one made of multi-byte characters only, and the ASCII controls of bound - 1, bound, bound + 1 bytes"""
    out = []
    for ch in WIDE:
        w = len(ch.encode("utf8"))
        for p in range(bound - w + 1, bound):
            out.append(pad(p) + ch + "=" + pad(9, p))
    out.append(WIDE[1] * (bound // 3 + 2))
    out += [pad(bound - 1), pad(bound), pad(bound + 1)]
    return out


def literal_boundary_programs():
    """long literals with a multi-byte character at every byte offset around the powers of two from 16 to 8192, in every place a
    string constant can stand (module level, function, exported by an imported module, list, map key and value, object field,
    operand).  -> projects with `expect` (exact stdout, exit 0 under both commands)"""
    q = lambda s: '"' + s + '"'
    out = []
    for b in BOUNDS:
        lits = straddling_literals(b)
        exp = "".join(l + "\n" for l in lits) + "done\n"
        ctxs = {
            "module-level": "".join("s%d = %s\nprint s%d\n" % (i, q(l), i) for i, l in enumerate(lits)),
            "function": "".join("f%d = fn() -> str {\n  return %s\n}\n" % (i, q(l)) for i, l in enumerate(lits)) + "".join("print f%d()\n" % i for i in range(len(lits))),
            "list": "l: [str...] = [%s]\nfrom 0 to %d, i {\n  print l[i]\n}\n" % (", ".join(q(l) for l in lits), len(lits)),
            "map-key-and-value": "m = map[str, str] { %s }\n" % ", ".join("%s: %s" % (q(l), q(l)) for l in lits) + "".join("print get m[%s]\n" % q(l) for l in lits),
            "object-field": "".join("class K%d {\n  s: str\n  constructor(self) {\n    self.s = %s\n  }\n}\nk%d = K%d()\nprint k%d.s\n" % (i, q(l), i, i, i) for i, l in enumerate(lits)),
            "operand": "".join("print %s + \"\"\n" % q(l) for l in lits),
            "print": "".join("print %s\n" % q(l) for l in lits),
        }
        for name, body in sorted(ctxs.items()):
            out.append({"name": "literal:%s:multi-byte-character-across-byte-%d" % (name, b), "entry": "main.ms", "files": {"main.ms": body + "print \"done\"\n"}, "expect": exp})
        lib = "".join("export s%d: str = %s\n" % (i, q(l)) for i, l in enumerate(lits))
        out.append({"name": "literal:exported-by-module:multi-byte-character-across-byte-%d" % b, "entry": "main.ms", "expect": exp,
                    "files": {"lib.ms": lib, "main.ms": "import lib\n" + "".join("print lib.s%d\n" % i for i in range(len(lits))) + "print \"done\"\n"}})
        out.append({"name": "literal:imported-by-name:multi-byte-character-across-byte-%d" % b, "entry": "main.ms", "expect": exp,
                    "files": {"lib.ms": lib, "main.ms": "import %s from lib\n" % ", ".join("s%d" % i for i in range(len(lits))) + "".join("print s%d\n" % i for i in range(len(lits))) + "print \"done\"\n"}})
    return out


ROW = "0123456789abcdefghijklmnopqrstuvwxyzABCDEFGHIJKLMNOPQRSTUVWXYZ-_"


def text_of_size(n):
    return (ROW * (n // len(ROW) + 1))[:n]


def size_programs():
    """BIG programs: one string literal of 1 kB ... 1 MB (every size around 64 KiB, where a 16-bit length ends; around 4 / 8 / 32 / 128 KiB),
    with and without escapes, ASCII and not; at module level, in a function, in an imported module; many literals, many functions, a long
    list, a long function body, long names.  -> projects with `expect`"""
    out = []
    sizes = [1000, 4095, 4096, 4097, 8190, 8191, 8192, 8193, 16384, 32767, 32768, 32769] + list(range(65520, 65544)) + [70000, 131071, 131072, 131073, 204800, 1048576]
    for n in sizes:
        t = text_of_size(n)
        out.append({"name": "size:string-literal-of-%d-bytes" % n, "entry": "main.ms", "files": {"main.ms": "s = \"%s\"\nprint s\nprint \"done\"\n" % t}, "expect": t + "\ndone\n"})
    for n in (65520, 65534, 65536, 70000, 204800):
        t = text_of_size(n)
        out.append({"name": "size:string-literal-of-%d-bytes:in-function" % n, "entry": "main.ms", "expect": t + "\ndone\n",
                    "files": {"main.ms": "f = fn() -> str {\n  return \"%s\"\n}\nprint f()\nprint \"done\"\n" % t}})
        out.append({"name": "size:string-literal-of-%d-bytes:in-imported-module" % n, "entry": "main.ms", "expect": t + "\ndone\n",
                    "files": {"lib.ms": "export s: str = \"%s\"\n" % t, "main.ms": "import lib\nprint lib.s\nprint \"done\"\n"}})
    # escapes: the record in the file is longer than the value; rows of a table as the seeders' "embedded data"
    for rows, esc, dec in ((1100, "\\n", "\n"), (1000, "\\\"", "\""), (1000, "\\\\", "\\"), (1021, "\\t", "\t"), (3000, "\\n", "\n")):
        src = "".join(ROW + esc for _ in range(rows))
        val = "".join(ROW + dec for _ in range(rows))
        out.append({"name": "size:table-of-%d-rows-ending-in-%s" % (rows, esc), "entry": "main.ms", "files": {"main.ms": "s = \"%s\"\nprint s\nprint \"done\"\n" % src}, "expect": val + "\ndone\n"})
    for ch in WIDE:
        for n in (21845, 32768, 40000):
            t = ch * n
            out.append({"name": "size:%d-characters-of-%d-bytes" % (n, len(ch.encode("utf8"))), "entry": "main.ms", "files": {"main.ms": "s = \"%s\"\nprint s\nprint \"done\"\n" % t}, "expect": t + "\ndone\n"})
    many = [text_of_size(300 + i) for i in range(300)]
    out.append({"name": "size:300-literals-of-300-bytes", "entry": "main.ms", "files": {"main.ms": "".join("print \"%s\"\n" % t for t in many)}, "expect": "".join(t + "\n" for t in many)})
    out.append({"name": "size:1000-functions", "entry": "main.ms", "expect": "0\n999\n499500\n",
                "files": {"main.ms": "".join("f%d = fn() -> int {\n  return %d\n}\n" % (i, i) for i in range(1000)) + "print f0()\nprint f999()\nt = 0\n" + "".join("t = t + f%d()\n" % i for i in range(1000)) + "print t\n"}})
    out.append({"name": "size:list-of-5000-elements", "entry": "main.ms", "expect": "0\n4999\n12497500\n",
                "files": {"main.ms": "l: [int...] = [%s]\nprint l[0]\nprint l[4999]\nt = 0\nfrom 0 to 5000, i {\n  t = t + l[i]\n}\nprint t\n" % ", ".join(str(i) for i in range(5000))}})
    out.append({"name": "size:map-of-2000-pairs", "entry": "main.ms", "expect": "v0\nv1999\n",
                "files": {"main.ms": "m = map[str, str] { %s }\nprint get m[\"k0\"]\nprint get m[\"k1999\"]\n" % ", ".join("\"k%d\": \"v%d\"" % (i, i) for i in range(2000))}})
    out.append({"name": "size:6000-statements-at-module-level", "entry": "main.ms", "expect": "6000\n", "files": {"main.ms": "x = 0\n" + "x = x + 1\n" * 6000 + "print x\n"}})
    out.append({"name": "size:function-body-of-6000-statements", "entry": "main.ms", "expect": "6000\n",
                "files": {"main.ms": "f = fn() -> int {\n  x = 0\n" + "  x = x + 1\n" * 6000 + "  return x\n}\nprint f()\n"}})
    for n in (63, 64, 65, 255, 256, 257, 5000, 70000):
        v, fnn, cn = "v" + pad(n - 1), "f" + pad(n - 1), "C" + pad(n - 1)
        out.append({"name": "size:names-of-%d-characters" % n, "entry": "main.ms", "expect": "7\n8\n9\n",
                    "files": {"main.ms": "%s = 7\nprint %s\n%s = fn() -> int {\n  return %s + 1\n}\nprint %s()\nclass %s {\n  %s: int\n  constructor(self) {\n    self.%s = 9\n  }\n}\nk = %s()\nprint k.%s\n" % (v, v, fnn, v, fnn, cn, v, v, cn, v)}})
    return out


def fixed_families(ctx, binary):
    """each fixed program through `run` and through `compile` + `execute`: both must print exactly what the program's own text says
    (computed above) and exit 0.  A program the compiler refuses checks nothing: that is reported, not skipped."""
    base = ctx.mktemp()
    progs = literal_boundary_programs() + size_programs()

    def one(proj):
        d = programs.materialize(proj, base)
        r1 = programs.run_bin(binary, ["run", proj["entry"], "-q"], d, timeout=40)
        d2 = programs.materialize(proj, base)
        c = programs.run_bin(binary, ["compile", proj["entry"], "--quick"], d2, timeout=40)
        r2 = programs.run_bin(binary, ["execute", proj["entry"][:-3] + ".mmm"], d2, timeout=40) if c[0] == 0 else None
        shutil.rmtree(d, ignore_errors=True)
        shutil.rmtree(d2, ignore_errors=True)
        return r1, c, r2

    def cut(proj):
        # the replay holds the recipe, not megabytes of literal
        return {"name": proj["name"], "entry": proj["entry"], "how": "write the files (shortened here when long) with: python3 -c \"import sys; sys.path.insert(0, '/verif'); from vlib import c04; "
                       "p = [q for q in c04.literal_boundary_programs() + c04.size_programs() if q['name'] == %r][0]; [open(f, 'w', encoding='utf8').write(t) for f, t in p['files'].items()]\"; "
                       "then mscript run %s -q  /  mscript compile %s --quick; mscript execute %s.mmm" % (proj["name"], proj["entry"], proj["entry"], proj["entry"][:-3]),
                "files": {f: (t if len(t) <= 6000 else t[:3000] + "<... %d characters ...>" % (len(t) - 6000) + t[-3000:]) for f, t in proj["files"].items()}}
    n = 0
    reported = [0]

    def report(cls, what, replay):
        # one cause usually fails dozens of these programs: the first few are written out, the rest counted
        reported[0] += 1
        if reported[0] <= 5:
            ctx.report(cls, what, replay)
    for proj, (r1, c, r2) in zip(progs, programs.pmap(one, progs, workers=max(2, core.NCPU // 2))):
        tail = lambda r: {"rc": r[0], "stdout_length": len(r[1]), "stdout_tail": r[1][-300:], "stderr": r[2][-600:]}
        if c[0] != 0:
            if r1[0] == 0 and r1[1] == proj["expect"]:
                report("run-vs-execute:" + proj["name"], "`run` executes %s and prints what it says, `compile` fails with exit %s: %s" % (proj["name"], c[0], (c[1] + c[2])[-300:]),
                           {"project": cut(proj), "run": tail(r1), "compile": tail(c)})
            else:
                report("generator:rejected", "a fixed program is refused or dies (run: exit %s, compile: exit %s) and so checks nothing: %s: %s" % (r1[0], c[0], proj["name"], (c[1] + c[2])[-300:]),
                           {"project": cut(proj), "run": tail(r1), "compile": tail(c)})
            continue
        if 124 in (r1[0], r2[0]):
            continue
        n += 1
        ok1 = r1[0] == 0 and r1[1] == proj["expect"]
        ok2 = r2[0] == 0 and r2[1] == proj["expect"]
        if ok1 and ok2:
            continue
        if (r1[0], r1[1]) != (r2[0], r2[1]):
            report("run-vs-execute:" + proj["name"], "run and compile+execute differ on %s: exit %s vs %s, %d vs %d characters printed (%d expected); %s" % (
                proj["name"], r1[0], r2[0], len(r1[1]), len(r2[1]), len(proj["expect"]), ((r1[2] if not ok1 else r2[2]).strip().splitlines() or [""])[-1][:200]),
                {"project": cut(proj), "run": tail(r1), "execute": tail(r2), "expected_stdout_length": len(proj["expect"])})
        else:
            report("fixed-program-output:" + proj["name"], "both commands agree but do not print what the program says: %s: exit %s, %d characters printed, %d expected" % (
                proj["name"], r1[0], len(r1[1]), len(proj["expect"])), {"project": cut(proj), "run": tail(r1), "execute": tail(r2), "expected_tail": proj["expect"][-300:]})
    ctx.cov["fixed_literal_and_size_programs"] = {"programs": len(progs), "run_both_ways": n, "failing": reported[0],
                                                  "rule": "multi-byte character across byte offsets %r in 9 places; one literal of 1 kB - 1 MB (24 sizes around 65536); tables with escapes; many literals / functions / elements / statements; long names" % (BOUNDS,)}
    return n


def run(ctx):
    ok = core.coq_props(ctx, "Props/C04.v")
    binary = core.build_repo()
    cases, n_exh = cc.gen_cases(ctx, 1500 if ctx.quick() else 20000, 1500 if ctx.quick() else 20000)
    impl, model = cc.run_tie(ctx, cases)
    dis = spec_fail = nontrivial = 0
    seen = set()
    for c, i, m in zip(cases, impl, model):
        fields = ["tok"] if c[0] == "S" else ["bin", "load", "binhex"]
        if c[0] == "F":
            key = cc.canon_fns(c[1])
            special = any(ch in a for _, b in c[1] for _, args in b for a in args for ch in '"\\ \t\n\r')
            if special and key not in seen:
                nontrivial += 1
            seen.add(key)
        else:
            key = "S%d%s" % (c[1], c[2])
            if key not in seen and ('"' in c[2] or "\\" in c[2]):
                nontrivial += 1
            seen.add(key)
        # the property itself (specification): what was written is what is read back
        if c[0] == "F" and cc.wf_case(c, False) and i["load"] != cc.spec_fns(c):
            spec_fail += 1
            ctx.report("binary-roundtrip", "argument/function not read back as emitted: %r -> %r" % (c[1], i["load"]),
                       {"case": c, "impl": i, "model": m, "how": "./verify replay"})
        if c[0] == "F" and m.get("utf8back") != "same":
            ctx.report("correspondence:utf8back", "Utf8.decode (Utf8.encode file) is not the file for case %r" % (c,), {"case": c, "model": m}, found_input=False)
        for f in fields:
            if i[f] != m[f]:
                dis += 1
                # model and implementation disagree: correspondence broken (failing input only if the spec also fails)
                if not (c[0] == "F" and cc.wf_case(c, False) and i["load"] != cc.spec_fns(c)):
                    ctx.report("correspondence:" + f, "codec model and implementation disagree on field %s for case %r: impl=%r model=%r" % (f, c, i[f], m[f]),
                               {"case": c, "field": f, "impl": i[f], "model": m[f], "correspondence": "T4 codec (Codec/Model.v vs writer/tokenizer/loader)"},
                               found_input=False)
                break
    ctx.cov["evaluations"] = len(cases)
    ctx.cov["distinct_nontrivial"] = nontrivial
    ctx.cov["exhaustive"] = True
    ctx.cov["exhaustive_part"] = "%d strings = all strings of length <=4 over %r as make_str argument" % (n_exh, cc.ALPHABET)
    ctx.cov["rule"] = ("cases: (a) exhaustive strings <=4 over the format-special alphabet, (b) random multi-function files with 0-4 "
                       "arguments per instruction incl. Unicode whitespace, (c) raw (possibly malformed) tokenizer inputs in both modes; "
                       "non-trivial = distinct case containing a quote, backslash or whitespace in an argument")
    ctx.cov["model_impl_disagreements"] = dis
    ctx.cov["spec_failures"] = spec_fail
    ctx.sample({"case": cases[777][1], "impl_load": str(impl[777]["load"])[:200]})
    ctx.sample({"case": cases[n_exh + 3][1] if cases[n_exh + 3][0] == "F" else cases[n_exh + 3][1:], "impl": str(impl[n_exh + 3])[:300]})
    # system level: corpus programs both ways
    projects = programs.corpus_from_tests() + programs.corpus_from_examples()
    ctx.rng.shuffle(projects)
    # programs that END BADLY must end the same way under both commands (failure kinds x where the failure happens);
    # and shapes whose compiled names collide inside one file (two classes of one name in different scopes)
    matrix = path_spelling_matrix()
    projects = failing_and_colliding_programs() + projects
    n_run, n_both, n_dump = system_level(ctx, binary, matrix + projects, len(matrix) + (120 if ctx.quick() else len(projects)))
    ctx.cov["programs_recompiled_over_existing_file"] = recompile_over_existing(ctx, binary, projects, 25 if ctx.quick() else 150)
    ctx.cov["programs_executed_from_other_directories"] = execute_from_another_directory(ctx, binary)
    n_both += fixed_families(ctx, binary)
    ctx.cov["programs_run_both_ways"] = n_both
    ctx.cov["programs_tried"] = n_run
    ctx.cov["traces_validated_against_impl"] = n_dump
    ctx.cov["trusted_base"] = ["Coq 8.16.1 kernel (coqc; vm_compute in Examples)", "no axioms (Print Assumptions: closed under the global context)",
                               "extraction: ExtrOcamlBasic only; extract/codec_driver.ml glue", "harness/codec + hooks H3/H4 (bytecode::verif::load_and_dump, compiler::verif::repr_functions)",
                               "UTF-8: modelled (Codec/Utf8.v), proved a bijection (C04_utf8_decode_spec, C04_utf8_zero_byte_iff) and tied on this run: Utf8.encode of the model's file == the bytes the Rust writer wrote (field binhex)"]
    ctx.assumptions = ["model Codec/Model.v is hand-written; tied to the code by this run's differential comparison",
                       "String::from_utf8_lossy on arguments is the identity on valid UTF-8"]
    core.proof_or_search(ctx, ok, ["C04_args_roundtrip", "C04_file_roundtrip", "C04_file_roundtrip_bytes", "C04_utf8_decode_spec", "C04_utf8_zero_byte_iff"], spec_fail > 0)
