"""C02 helpers: run one generated program through the real binary and classify what happened.

Verdicts
  rejected        the compiler refused the program (diagnostic, nothing ran)
  ok              compiled and ran to completion
  rt-error        compiled, the interpreter stopped with an MScript run-time error
  panic           compiled, the interpreter process panicked (exit 101 / abort)
  compiler-panic  the compiler itself panicked (C16's business; outside C02's quantifier)
  timeout
"""
import os
import re
import shutil
import tempfile

from . import core, programs

ANSI = re.compile(r"\x1b\[[0-9;]*m")
TAGLINE = re.compile(r"^((?:<[A-Za-z]+(?::[0-9a-f]{16})?>)+)(.*)$")
TAG = re.compile(r"<([A-Za-z]+)(?::([0-9a-f]{16}))?>")

KINDS = ["int", "bigint", "float", "byte", "bool", "str"]
TAG_OF = {"int": "Int", "bigint": "BigInt", "float": "Float", "byte": "Byte", "bool": "Bool", "str": "Str"}
KIND_OF_TAG = {v: k for k, v in TAG_OF.items()}


class Res:
    __slots__ = ("verdict", "rc", "out", "lines", "msg", "diag", "stderr")

    def __init__(self):
        self.verdict = None
        self.rc = None
        self.out = ""       # raw stdout
        self.lines = []     # [(tags tuple, text)] one per stdout line; tags () when the line has no kind tag
        self.msg = ""       # innermost run-time error message
        self.diag = ""      # first compiler diagnostic message
        self.stderr = ""

    def text(self):
        return ANSI.sub("", self.out) + "\n" + self.stderr

    def brief(self):
        return {"verdict": self.verdict, "rc": self.rc, "stdout": self.out[-1500:], "msg": self.msg,
                "diag": self.diag[:400], "stderr": self.stderr[-1200:]}


def parse_lines(out):
    res = []
    for l in out.splitlines():
        m = TAGLINE.match(l)
        if m:
            res.append((tuple(t[0] for t in TAG.findall(m.group(1))), m.group(2)))
        else:
            res.append(((), l))
    return res


def classify(rc, out, err):
    r = Res()
    err = ANSI.sub("", err)
    r.rc, r.out, r.stderr = rc, out, err
    r.lines = parse_lines(out)
    if rc == 124:
        r.verdict = "timeout"
    elif rc == 0:
        r.verdict = "ok"
    elif "Did not compile successfully" in err or "Did not compile successfully" in out:
        r.verdict = "rejected"
        # the diagnostics themselves go to stdout, the summary line to stderr
        m = re.search(r"^\s*=\s*(.+)$", ANSI.sub("", out) + "\n" + err, re.M)
        r.diag = m.group(1).strip() if m else err.strip()[:300]
    elif "FATAL RUNTIME ERROR" in err or "Interpreter crashed" in err:
        r.verdict = "rt-error"
        # "Caused by:" chain: numbered entries, the last one is the innermost cause
        causes = re.findall(r"^\s+(\d+): (.*)$", err, re.M)
        if causes:
            r.msg = causes[-1][1].strip()
        else:
            m = re.search(r"Caused by:\s*\n\s*(.+)", err)
            r.msg = m.group(1).strip() if m else ""
    elif "panicked at" in err or rc == 101 or rc < 0 or rc in (134, 139):
        m = re.search(r"panicked at ([^\n]*)\n?([^\n]*)", err)
        where = m.group(1) if m else ""
        r.msg = ((m.group(1) + " " + m.group(2)) if m else err[-300:]).strip()
        if "compiler/src" in where or "compiler\\src" in where:
            r.verdict = "compiler-panic"
        elif "overflowed its stack" in err or "stack overflow" in err:
            r.verdict = "panic"
            r.msg = "stack overflow"
        elif "compiler/src" in where or "compiler\\src" in where or ("src/main.rs" in where and "bytecode" not in where and not out):
            r.verdict = "compiler-panic"
        else:
            r.verdict = "panic"
    else:
        # some other non-zero exit: a compile failure reported differently (parse error, io) or unknown
        if "-->" in err or "Error:" in err:
            r.verdict = "rejected"
            m = re.search(r"^\s*=\s*(.+)$", err, re.M)
            r.diag = m.group(1).strip() if m else err.strip()[:300]
        else:
            r.verdict = "rt-error"
            r.msg = err.strip()[-300:]
    return r


def run_src(binary, src, base, extra_files=None, timeout=30):
    """compile+run one program in a fresh scratch directory under `base` (never inside /repo)"""
    d = tempfile.mkdtemp(prefix="c-", dir=base)
    try:
        with open(os.path.join(d, "m.ms"), "w", encoding="utf8") as f:
            f.write(src)
        for n, t in (extra_files or {}).items():
            with open(os.path.join(d, n), "w", encoding="utf8") as f:
                f.write(t)
        rc, out, err = programs.run_bin(binary, ["run", "m.ms", "-q"], d, {"MSCRIPT_VERIF_TYPED_PRINT": "1"}, timeout=timeout)
        return classify(rc, out, err)
    finally:
        shutil.rmtree(d, ignore_errors=True)


# --------------------------------------------------------------------------- run-time failure classes

# the dynamic failures the LANGUAGE defines (property text): failed assertion, use of nil, index or key out of
# range, division by zero, numeric overflow or failed conversion, stack exhaustion
ALLOWED = [
    ("assertion", re.compile(r"An explicit assertion failed")),
    ("use-of-nil", re.compile(r"unwrap of `nil`|nil object|\bNil\b|`nil`|\bnil\b")),
    ("index-out-of-range", re.compile(r"index \d+ out of bounds|out of bounds|key error: map does not have key|removal index|cannot remove|index.*is out of")),
    ("division-by-zero", re.compile(r"[/%] by 0|divide by zero|division by zero|remainder with a divisor of zero")),
    ("overflow-or-conversion", re.compile(r"overflow|underflow|out of range integral type conversion|new size is too large|"
                                          r"cannot be represented|cannot be made into|too large|too big|does not fit|invalid digit|radix|capacity|is not a valid|not in the range")),
    ("stack-exhaustion", re.compile(r"stack overflow|Stack overflow|recursion|call stack")),
]


def failure_class(res):
    """(allowed?, class).  Anything that is not one of the language's own dynamic failures is a type-error-like
    failure: the class is the message with names and numbers masked, so it is stable across runs."""
    msg = res.msg or ""
    if res.verdict == "panic" and ("stack overflow" in res.stderr or "overflowed its stack" in res.stderr):
        return True, "stack-exhaustion"
    if res.verdict == "panic":
        # a numeric overflow of the PROGRAM's arithmetic is raised by the operators / built-ins on values
        # (bytecode/src/variables/**) or inside the standard library they call; a Rust panic anywhere else in the
        # interpreter (operand stack, frames, instruction decoding) is the interpreter losing track of its own state --
        # e.g. `attempt to subtract with overflow` in context.rs when an instruction finds the operand stack empty --
        # and not one of the failures the language defines
        m = re.match(r"(\S+?\.rs):\d+:\d+", msg)
        where = m.group(1) if m else ""
        if where and "variables/" not in where and not where.startswith(("/", "library/")):
            return False, "interpreter-panic:%s:%s" % (where, canon_msg(msg[m.end():].lstrip(": ")))
    for name, rx in ALLOWED:
        if rx.search(msg):
            return True, name
    return False, canon_msg(msg)


def canon_msg(msg):
    m = msg
    m = re.sub(r"\(valid ops are.*$", "", m)
    m = re.sub(r"\(found:?.*$", "", m)
    m = re.sub(r"\(got .*$", "", m)
    m = re.sub(r"[A-Za-z0-9_./\\-]+\.(ms|mmm|rs)(:\d+)*(:\d+)?", "FILE", m)
    m = re.sub(r"^\w+ is not in scope", "NAME is not in scope", m)
    m = re.sub(r"`[^`]*`", "`_`", m)
    m = re.sub(r"'[^']*'", "'_'", m)
    m = re.sub(r'"[^"]*"', '"_"', m)
    m = re.sub(r"\b\d+\b", "N", m)
    m = re.sub(r"\s+", " ", m).strip()
    return m[:90]
