"""C16: the compiler is total -- any input yields success or diagnostics, never a crash.

Three parts (see manifest.d/C16.json for what is claimed):
  PROOF   Props/C16.v: termination of the PEG interpreter for every well-formed grammar, `wf` of the grammar
          TRANSLATED from the current grammar.pest (gen/pest2coq.py, re-run here), step growth of the model.
  TIE     pest's own parser derived from the current grammar.pest (harness/peg) versus the Coq interpreter
          (extracted) on the same inputs: parse trees (rule, span, depth) must be identical.
  SEARCH  (not proof) the real `mscript compile f.ms --quick` on grammar-generated and token-mutated inputs <= 4 kB:
          exit 0/1 with diagnostics is fine; panic (101) / abort / stack overflow / timeout is a violation whose
          input is minimised and written as replay.
"""
import os
import re
import shutil
import tempfile
import time

from . import core, programs, peg_gen, extract

MAX_BYTES = 4096
TIMEOUT = 10


# ------------------------------------------------------------------------------ running the compiler

def compile_once(binary, base, files, entry, timeout=TIMEOUT, backtrace=False):
    d = tempfile.mkdtemp(prefix="c-", dir=base)
    try:
        for rel, txt in files.items():
            p = os.path.join(d, rel)
            os.makedirs(os.path.dirname(p), exist_ok=True)
            with open(p, "wb") as f:
                f.write(txt.encode("utf8", "surrogatepass") if isinstance(txt, str) else txt)
        t0 = time.time()
        rc, out, err = programs.run_bin(binary, ["compile", entry, "--quick"], d,
                                        {"RUST_BACKTRACE": "1"} if backtrace else None, timeout=timeout)
        return rc, out, err, time.time() - t0
    finally:
        shutil.rmtree(d, ignore_errors=True)


PANIC_AT = re.compile(r"panicked at ([^\s:]+):(\d+):(\d+):\n(.*)")


def bracket_depth(text, ch="["):
    close = {"[": "]", "(": ")", "{": "}"}[ch]
    d = best = 0
    for c in text:
        if c == ch:
            d += 1
            best = max(best, d)
        elif c == close and d:
            d -= 1
    return best


TYPE_CONTEXT = re.compile(r"(:|->|\btype\s+\w+|\bmap\s*\[|\.\.\.)\s*(\[\s*){10,}")


FN_HEAD = re.compile(r"\bfn\b\s*(\w+\s*)?\(")


def fn_literal_depth(text):
    """deepest nesting of function bodies: a `{` counts when a function head `fn(` was opened since the previous brace"""
    stack, best, last = [], 0, 0
    for i, c in enumerate(text):
        if c == "{":
            stack.append(bool(FN_HEAD.search(text, last, i)))
            best = max(best, sum(stack))
            last = i + 1
        elif c == "}":
            if stack:
                stack.pop()
            last = i + 1
    return best


def timeout_shape(text):
    """the exponential families of the grammar (DESIGN F10) are recognised by their shape"""
    if bracket_depth(text) >= 12:
        return "nested-list-type" if TYPE_CONTEXT.search(text) else "nested-list-value"
    if fn_literal_depth(text) >= 8:
        return "nested-function-literal"
    return "other"


CHAIN_OP = re.compile(r"(?<=[\w)\]\"])\s*(\+|-|\*|/|%|&&|\|\||==|!=|<=|>=|<<|>>|<|>|\||&|\^|\bxor\b|\bor\b)\s*(?=[\w(\[\"!-])")


def operator_chain_length(text):
    """the largest number of binary operators on one line (a flat chain `a + b + c + ...` is one left-deep expression)"""
    return max([len(CHAIN_OP.findall(l)) for l in text.split("\n")] or [0])


def raw_key(rc, err, text=""):
    """coarse failure key of one run (stable within one build): None when the run is fine"""
    if rc in (0, 1):
        return None
    if rc == 124:
        return ("timeout", timeout_shape(text))
    m = PANIC_AT.search(err)
    if "has overflowed its stack" in err:
        return ("stack-overflow", "deep-nesting" if nesting_depth(text) >= 100 else
                ("long-operator-chain" if operator_chain_length(text) >= 150 else "other"))
    if m:
        return ("panic", "%s:%s" % (m.group(1), m.group(2)))
    return ("exit", str(rc))


def panic_kind(msg):
    pats = [("unwrap-none", r"Option::unwrap\(\)` on a `None`"), ("unwrap-err", r"Result::unwrap\(\)` on an `Err`"),
            ("refcell", r"already (mutably )?borrowed"), ("index", r"index out of bounds|out of range|byte index|is out of bounds"),
            ("unreachable", r"entered unreachable code"), ("unimplemented", r"not implemented"), ("todo", r"not yet implemented"),
            ("assert", r"assertion"), ("overflow", r"attempt to .* with overflow"), ("slice", r"slice index|char boundary")]
    for k, p in pats:
        if re.search(p, msg):
            return k
    return "expect"


FRAME = re.compile(r"^\s*\d+: (.+)\n\s+at (\S+?):(\d+):\d+", re.M)


def panic_class(binary, base, files, entry, err):
    """canonical class of a panic: source file + enclosing function (from a backtrace run) + kind of panic.
    Robust against line shifts; falls back to file:line when no frame of the repository is found."""
    m = PANIC_AT.search(err)
    file, line, msg = (m.group(1), m.group(2), m.group(4)) if m else ("?", "?", "")
    kind = panic_kind(msg)
    rc, out, err2, _ = compile_once(binary, base, files, entry, backtrace=True)
    fn = None
    for fm in FRAME.finditer(err2):
        sym, path = fm.group(1), fm.group(2)
        if path.endswith(file) and fm.group(3) == line:
            fn = sym
            break
    if fn is None:
        return "panic:%s:%s:%s" % (file, line, kind)
    fn = re.sub(r"::\{\{closure\}\}", "", fn)
    fn = re.sub(r"<impl [^>]*>::", "", fn)
    fn = re.sub(r"::h[0-9a-f]{16}$", "", fn)
    return "panic:%s:%s:%s" % (file, fn.split("::")[-1], kind)


def nesting_depth(text):
    d = best = 0
    for c in text:
        if c in "([{":
            d += 1
            best = max(best, d)
        elif c in ")]}" and d:
            d -= 1
    return best


def final_class(binary, base, key, files, entry, err):
    if key[0] == "panic":
        return panic_class(binary, base, files, entry, err)
    if key[0] == "stack-overflow":
        return {"deep-nesting": "stack-overflow-deep-nesting", "long-operator-chain": "stack-overflow-long-operator-chain"}.get(key[1], "stack-overflow")
    if key[0] == "timeout":
        return {"nested-list-type": "exponential-nested-list-type", "nested-list-value": "exponential-nested-list-value",
                "nested-function-literal": "exponential-nested-function-literal"}.get(key[1], "timeout")
    return "unexpected-exit:%s" % key[1]


# ------------------------------------------------------------------------------ input streams

def suspects():
    """boundary / previously seen failures first (DESIGN section 7 F10 F11 F16 F17 + stack depth)"""
    k = 26
    return [
        ("suspect:F11-wide-byte-literal", "x = 0b111111111\n"),
        ("suspect:F16-fn-literal-in-self-call",
         "mk = fn(n: int, k: fn() -> int) -> int { if n == 0 { return k() } return self(n - 1, fn() -> int { return n }) }\n"),
        ("suspect:F10-nested-list-type", "x: " + "[" * k + "int..." + "]" * k + " = 1\n"),
        ("suspect:F10-unclosed-nested-list", "x = " + "[" * k),
        ("suspect:deep-parens", "x = " + "(" * 1900 + "1" + ")" * 1900 + "\n"),
        ("suspect:deep-list", "x = " + "[" * 1000 + "1" + "]" * 1000 + "\n"),
        ("suspect:deep-blocks", "if true {" * 400 + "}" * 400 + "\n"),
        ("suspect:empty", ""),
        ("suspect:bom", "﻿print 1\n"),
        ("suspect:nul", "print \x00\n"),
        ("suspect:unterminated-string", "x = \"abc\n"),
        ("suspect:unterminated-block-comment", "### abc\nprint 1\n"),
        ("suspect:huge-int", "x = 99999999999999999999999999999\n"),
        ("suspect:huge-bigint", "x = B99999999999999999999999999999\n"),
        ("suspect:huge-hex", "x = 0xFFFFFFFFFFFFFFFFFFFFFFFFF\n"),
        ("suspect:float-forms", "x = 1.5\ny = 1f\nz = 1_0.0_1\n"),
        ("suspect:neg-index", "a = [1]\nprint a[-1]\n"),
        ("suspect:self-outside", "print self\nself()\n"),
        ("suspect:return-outside", "return 5\nbreak\ncontinue\n"),
        ("suspect:import-missing", "import nothing_here\nimport a, b from nothing_here\n"),
        ("suspect:import-self", "import main\n"),
        ("suspect:class-weird", "class A { constructor(self) {} fn f(self) -> A { return self } x: int }\nA().f().x = 5\n"),
    ]


def placement_suspects():
    """an expression that is rejected only in the CODE-GENERATION phase (`-a ?= b`: `?=` needs a name on its left), and the
    type `Self` outside a class, each placed in every kind of nested position: the error must come out as a diagnostic"""
    out = []
    bad = ["-a ?= b", "(a) ?= b", "!t ?= b"]
    pre = "a = 5\nb: int? = 5\nt = true\nf3 = fn(x: int, y: bool, z: bool) -> int { return x }\nl: [bool...] = [true]\n"
    holes = ["f3(1, %s, true)", "f3(1, true, %s)", "f3(f3(1, %s, true), true, true)", "[true, %s]", "[[true], [true, %s]]",
             "map[str, bool] { \"k\": %s }", "true && %s", "(%s) || t", "l.push(%s)", "f3(1, true, true) + f3(2, %s, t)"]
    for e in bad:
        for i, h in enumerate(holes):
            out.append(("placement:codegen-error %s in hole %d" % (e, i), pre + "print " + (h % e) + "\n"))
            out.append(("placement:codegen-error %s in hole %d (assigned)" % (e, i), pre + "r = " + (h % e) + "\nprint r\n"))
        out.append(("placement:codegen-error %s as condition" % e, pre + "if %s {\n  print 1\n}\nwhile %s {\n  break\n}\n" % (e, e)))
        out.append(("placement:codegen-error %s returned" % e, pre + "g = fn() -> bool {\n  return %s\n}\nprint g()\n" % e))
    # type errors whose DIAGNOSTIC is built from both types (hints that index into the shorter / longer of two shapes)
    for decl, val in [("[int, str]", '[7, "ada", true]'), ("[int, str, bool]", '[7, "ada"]'), ("[int, str]", '["x", 1]'), ("[int, str]", "[]"),
                      ("[int, [str, bool]]", '[1, ["a", true, 2]]'), ("[[int, str]...]", '[[1, "a"], [2, "b", 3]]'), ("[int, str]?", '[1, "a", nil]'),
                      ("map[str, [int, str]]", 'map[str, [int, str, int]] { "k": [1, "a", 2] }'), ("fn([int, str]) -> int", "fn(a: [int, str, bool]) -> int { return 1 }")]:
        out.append(("placement:shape-mismatch %s <- %s const" % (decl, val[:20]), "const p: %s = %s\nprint p\n" % (decl, val)))
        out.append(("placement:shape-mismatch %s <- %s argument" % (decl, val[:20]), "f = fn(a: %s) {\n  print a\n}\nf(%s)\n" % (decl, val)))
        out.append(("placement:shape-mismatch %s <- %s return" % (decl, val[:20]), "f = fn() -> %s {\n  return %s\n}\nprint f()\n" % (decl, val)))
    # import paths without a file name, at the top level and inside every kind of block
    for path in ["..ms", "..", ".", "./", "/", "a/..", "../..ms", "./.ms", ".ms", "a/../..ms"]:
        out.append(("placement:import-path %s top" % path, "import %s\n" % path))
        out.append(("placement:import-path %s names" % path, "import x from %s\n" % path))
        for head in ("if true {", "while true {", "from 0 to 1 {", "f = fn() {", "if false {\n} else {"):
            out.append(("placement:import-path %s in %s" % (path, head.split()[0]), "%s\n  import %s\n}\n" % (head, path)))
    for ty in ["Self", "Self?", "[Self...]", "[Self?...]", "map[str, Self]", "fn(Self) -> int", "fn() -> Self", "fn() -> Self?"]:
        out.append(("placement:Self-outside-class %s variable" % ty, "x: %s = nil\nprint x\n" % ty))
        out.append(("placement:Self-outside-class %s member" % ty, "x: %s = nil\nprint (get x).foo\nprint x.foo\nprint (x).foo()\n" % ty))
        out.append(("placement:Self-outside-class %s parameter" % ty, "f = fn(p: %s) {\n  print (get p).foo\n  print p\n}\n" % ty))
        out.append(("placement:Self-outside-class %s result" % ty, "f = fn() -> %s {\n  return nil\n}\nprint f()\n" % ty))
    return out


def breadth_suspects():
    """WIDE rather than deep inputs: long flat chains / sequences of one construct.  Their size is linear, so the
    compiler must answer within the time limit (an exponential pass over a left-nested chain shows here)"""
    out = []
    # flat chains of several hundred operands, still below 4 kB: the bytecode is a linear sequence, nothing is nested
    for n, op, var, pre in ((900, "+", "x", "x = 1\n"), (1300, "+", "x", "x = 1\n"), (900, "*", "x", "x = 1\n"), (800, "&&", "b", "b = true\n"),
                            (700, "or", "o", "o: int? = 1\n"), (650, "+", "\"s\"", ""), (780, "==", "b", "b = true\n")):
        sep = (" %s " % op) if n < 1000 else op
        out.append(("breadth:long-chain %s x%d" % (op, n), pre + "y = " + sep.join([var] * n) + "\nprint y\n"))
    for n in (40, 200):
        for op in ("+", "-", "*", "|", "&&", "||", "=="):
            lit = {"&&": "true", "||": "false", "==": "true", "*": "1"}.get(op)
            consts = [lit] * n if lit else [str(i % 7 + 1) for i in range(n)]
            out.append(("breadth:const-chain %s x%d" % (op, n), "x = " + (" %s " % op).join(consts) + "\nprint x\n"))
            var = {"&&": "b", "||": "b", "==": "b"}.get(op, "v")
            out.append(("breadth:var-chain %s x%d" % (op, n), "v = 1\nb = true\nx = " + (" %s " % op).join([var] * n) + "\nprint x\n"))
        out.append(("breadth:mixed-chain x%d" % n, "v = 2\nx = " + " + ".join(("v" if i % 5 == 4 else str(i % 9)) for i in range(n)) + "\nprint x\n"))
        out.append(("breadth:str-chain x%d" % n, "x = " + " + ".join('"s%d"' % (i % 10) for i in range(n)) + "\nprint x\n"))
        out.append(("breadth:float-chain x%d" % n, "x = " + " + ".join("%d.5" % (i % 10) for i in range(n)) + "\nprint x\n"))
        out.append(("breadth:list-literal x%d" % n, "x = [" + ", ".join(str(i) for i in range(n)) + "]\nprint x.len()\n"))
        out.append(("breadth:args x%d" % n, "f = fn(" + ", ".join("a%d: int" % i for i in range(n)) + ") -> int { return a0 }\nprint f(" + ", ".join(str(i) for i in range(n)) + ")\n"))
        out.append(("breadth:else-if x%d" % n, "v = 3\nif v == 0 { print 0 }" + "".join(" else if v == %d { print %d }" % (i, i) for i in range(1, n)) + " else { print 9 }\n"))
        out.append(("breadth:statements x%d" % n, "".join("a%d = %d\n" % (i, i) for i in range(n * 5)) + "print a0\n"))
        out.append(("breadth:index-chain x%d" % min(n, 60), "l = [0]\nx = l" + "[l" * 0 + "[0]" * 1 + "\n" + "y = " + "l[" * min(n, 60) + "0" + "]" * min(n, 60) + "\nprint y\n"))
        out.append(("breadth:neg-chain x%d" % min(n, 60), "v = 1\nx = " + "-(" * min(n, 60) + "v" + ")" * min(n, 60) + "\nprint x\n"))
        out.append(("breadth:not-chain x%d" % min(n, 60), "b = true\nx = " + "!(" * min(n, 60) + "b" + ")" * min(n, 60) + "\nprint x\n"))
        out.append(("breadth:map-literal x%d" % n, "m = map[int, int] { " + ", ".join("%d: %d" % (i, i) for i in range(n)) + " }\nprint m.len()\n"))
    return out


def depth_suspects():
    """MODERATELY deep valid inputs (a few dozen levels, a few hundred bytes): far below any stack limit, so the only way to
    fail is time -- a pass that visits a child twice per level (typing an element, then typing it again) needs 2^k steps"""
    out = []
    for k in (24, 40, 64):
        out.append(("depth:one-element-lists x%d" % k, "const x = " + "[" * k + "7" + "]" * k + "\nprint 1\n"))
        out.append(("depth:two-element-lists x%d" % k, "const x = " + "[0, " * k + "7" + "]" * k + "\nprint 1\n"))
        out.append(("depth:const-one-element-lists x%d" % k, "const x = " + "[" * k + "\"s\"" + "]" * k + "\nprint 1\n"))
        out.append(("depth:list-argument x%d" % k, "f = fn(n: int) -> int { return n }\nconst x = " + "[f(" * k + "7" + ")]" + "[0])]" * (k - 1) + "\nprint 1\n"))
        out.append(("depth:parens x%d" % k, "v = 1\nx = " + "(" * k + "v" + ")" * k + "\nprint x\n"))
        out.append(("depth:parens-sum x%d" % k, "v = 1\nx = " + "(1 + " * k + "v" + ")" * k + "\nprint x\n"))
        out.append(("depth:calls x%d" % k, "f = fn(n: int) -> int { return n }\nx = " + "f(" * k + "7" + ")" * k + "\nprint x\n"))
        out.append(("depth:or-fallbacks x%d" % k, "o: int? = nil\nx = " + "(o) or (" * k + "7" + ")" * k + "\nprint x\n"))
        out.append(("depth:index x%d" % k, "l: [int...] = [0]\nx = " + "l[" * k + "0" + "]" * k + "\nprint x\n"))
        out.append(("depth:typed-lists x%d" % min(k, 24), "x: " + "[" * min(k, 24) + "int" + "...]" * min(k, 24) + " = " + "[" * min(k, 24) + "7" + "]" * min(k, 24) + "\nprint 1\n"))
        out.append(("depth:list-types x%d" % min(k, 24), "x: " + "[" * min(k, 24) + "int" + "...]" * min(k, 24) + " = []\nprint 1\n"))
        out.append(("depth:optional-lists x%d" % k, "n: int? = 1\nconst x = " + "[" * k + "n" + "]" * k + "\nprint 1\n"))
        kk = min(k, 40)
        ty = "[" * kk + "int" + "...]" * kk
        fpre = "f = fn(n: int) -> int { return n }\n"
        # a type MISMATCH at the bottom of nested list types: the diagnostic must come as promptly as the matching twin compiles
        out.append(("depth:mismatched-list-declaration x%d" % kk, fpre + "y: " + ty + " = " + "[" * kk + "f(1), \"a\"" + "]" * kk + "\n"))
        out.append(("depth:mismatched-list-argument x%d" % kk, fpre + "g = fn(a: " + ty + ") {}\ng(" + "[" * kk + "f(1), \"a\"" + "]" * kk + ")\n"))
        out.append(("depth:mismatched-list-reassignment x%d" % kk, fpre + "y: " + ty + " = " + "[" * kk + "f(1), f(2)" + "]" * kk + "\ny = " + "[" * kk + "f(1), \"a\"" + "]" * kk + "\n"))
        out.append(("depth:mismatched-list-return x%d" % kk, fpre + "g = fn() -> " + ty + " {\n  return " + "[" * kk + "f(1), \"a\"" + "]" * kk + "\n}\n"))
        out.append(("depth:mismatched-list-equality x%d" % kk, fpre + "y: " + ty + " = " + "[" * kk + "f(1), f(2)" + "]" * kk + "\nz: " + "[" * kk + "str" + "...]" * kk + " = " + "[" * kk + "\"a\"" + "]" * kk + "\nprint y == z\n"))
        out.append(("depth:blocks x%d" % k, "v = 1\n" + "if v == 1 {\n" * k + "print v\n" + "}\n" * k))
        out.append(("depth:not x%d" % k, "b = true\nx = " + "!(" * k + "b" + ")" * k + "\nprint x\n"))
    return out


def constant_arith_suspects():
    """operators applied to CONSTANT boundary operands (the compiler folds them): smallest / largest int and bigint, -1, 0, the
    widths 31 / 32 / 64 / 127 / 128 as shift counts, bytes.  Whatever the verdict (folded, deferred to run time, rejected with a
    diagnostic), the compiler must not die in its own arithmetic.  One line per triple, 12 per file; also as unary operands."""
    vals = ["(-2147483647 - 1)", "-2147483647", "-1", "0", "1", "2147483647", "31", "32", "64", "127", "128",
            "(-B170141183460469231731687303715884105727 - B1)", "-B1", "B0", "B1", "B170141183460469231731687303715884105727",
            "0b0", "0b11111111", "0.0", "-1.5"]
    ops = ["+", "-", "*", "/", "%", "<<", ">>", "&", "|", "^", "xor", "<", "==", "&&"]
    out = []
    for op in ops:
        for a in vals:
            out.append(("constant-arith:%s %s *" % (a, op), "".join("print %s %s %s\n" % (a, op, b) for b in vals)))
            for b in ("(-2147483647 - 1)", "-1", "0", "(-B170141183460469231731687303715884105727 - B1)", "-B1", "128"):
                # alone: a diagnostic for one line must not hide the folding of this one
                out.append(("constant-arith:%s %s %s" % (a, op, b), "x = %s %s %s\nprint x\n" % (a, op, b)))
    for a in vals:
        out.append(("constant-arith:unary %s" % a, "print -%s\nprint -(-%s)\nprint !(%s == 0)\nx = -%s\nprint x\n" % (a, a, a, a)))
    return out


def backtracking_suspects():
    """NEARLY VALID deep code: one operand is missing in the innermost of k nested function literals, the ordinary shape of
    callbacks and factories while they are being typed.  The input is a few hundred bytes; the diagnostic must come as promptly
    as the valid twin compiles (a parser that tries every enclosing level twice needs 2^k steps)."""
    out = []
    fams = {
        "callback": ("run = fn(cb: fn()) { cb() }\n", "run(fn() {\n", "print 1 %s\n", "})\n"),
        "method-callback": ("l = [1]\n", "l.map(fn(e: int) {\n", "print 1 %s\n", "})\n"),
        "second-argument": ("run = fn(a: int, cb: fn()) { cb() }\n", "run(1, fn() {\n", "print 1 %s\n", "})\n"),
        "list-of-functions": ("", "x = [fn() {\n", "print 1 %s\n", "}]\n"),
        "map-of-functions": ("", "x = map[str, fn()] { \"k\": fn() {\n", "print 1 %s\n", "} }\n"),
        "callback-in-if": ("run = fn(cb: fn()) { cb() }\n", "run(fn() {\n if true {\n", "print 1 %s\n", "}})\n"),
        "returned-and-called": ("", "x = fn() -> int {\n return (fn() -> int {\n", "return 1 %s\n", "})()\n}\n"),
        "assigned": ("", "x = fn() {\n", "print 1 %s\n", "}\n"),
        "method-body": ("", "class K {\n fn m(self) {\n  run(fn() {\n", "print 1 %s\n", "})\n }\n}\n"),
    }
    for name, (pre, opener, inner, closer) in sorted(fams.items()):
        for k in (12, 20, 32):
            out.append(("backtracking:%s x%d missing operand" % (name, k), pre + opener * k + (inner % "+") + closer * k))
            out.append(("backtracking:%s x%d valid twin" % (name, k), pre + opener * k + (inner % "+ 1") + closer * k))
        out.append(("backtracking:%s x20 unclosed" % name, pre + opener * 20 + (inner % "+ 1")))
    return out


def alias_index_suspects():
    """WELL-TYPED (or nearly) programs that reach the code generator through a TYPE ALIAS: `type A <container>` for open / fixed lists,
    str and maps of every key kind, the alias direct or through a second alias (the container itself as control); a value of that type
    reached as variable, parameter or object field; indexed with a CONSTANT of every kind (int, negative, folded, huge, bigint, byte,
    float, folded float, str, bool) and with a variable of the key's kind; read, written, compound-assigned.  One statement per file:
    a diagnostic for one would keep the others from code generation."""
    conts = [("list-int", "[int...]", "[1, 2, 3]", "7", "1"), ("list-str", "[str...]", '["a", "b", "c"]', '"z"', "1"),
             ("list-float", "[float...]", "[0.5, 1.5, 2.5]", "7.5", "1"), ("fixed-list", "[int, str]", '[1, "a"]', "7", "0"), ("str", "str", '"abc"', '"z"', "1")]
    keys = [("int", "1", "2"), ("bigint", "B1", "B2"), ("byte", "0b1", "0b10"), ("float", "0.5", "1.5"), ("str", '"k"', '"j"'), ("bool", "true", "false")]
    for kk, k1, k2 in keys:
        # an alias is a compound-atomic rule: the type it names is written without blanks
        conts.append(("map-%s-key" % kk, "map[%s,str]" % kk, 'map[%s, str]{%s: "x", %s: "y"}' % (kk, k1, k2), '"z"', k2))
    consts = [("int", "1"), ("zero", "0"), ("negative", "-1"), ("folded-int", "1 + 0"), ("huge-int", "99999999999"), ("bigint", "B1"), ("byte", "0b1"),
              ("float", "1.5"), ("folded-float", "1.0 + 0.5"), ("str", '"k"'), ("bool", "true"), ("variable", "key")]
    out = []
    for cname, ty, init, val, keyinit in conts:
        for depth, (decl, tname) in enumerate([("", ty), ("type A %s\n" % ty, "A"), ("type Inner %s\ntype A Inner\n" % ty, "A")]):
            for kname, k in consts:
                pre = decl + ("key = %s\n" % keyinit if kname == "variable" else "")
                for oname, stmt in (("read", "print x[%s]\n" % k), ("write", "x[%s] = %s\nprint x\n" % (k, val)), ("compound", "x[%s] += %s\nprint x\n" % (k, val))):
                    tag = "alias-index:%s:%s:%s-constant:%s" % (cname, ("direct", "alias", "alias-of-alias")[depth], kname, oname)
                    out.append((tag + ":variable", pre + "x: %s = %s\n%s" % (tname, init, stmt)))
                    out.append((tag + ":parameter", pre + "f = fn(x: %s) {\n  %s}\nf(%s)\n" % (tname, stmt.replace("\n", "\n  ", stmt.count("\n") - 1), init)))
                    if depth:
                        field = stmt.replace("x[", "t[").replace("print x", "print t")
                        out.append((tag + ":field", pre + "class K {\n  x: %s\n  constructor(self) {\n    self.x = %s\n  }\n}\nk = K()\nt = k.x\n%s" % (tname, init, field)))
    return out


def same_name_suspects():
    """ONE name declared in TWO scopes of one file - a class (its constructor and methods are functions named after it), a function,
    a type alias, a variable, and mixed pairs - in every arrangement of the two scopes: module + function (called or never called),
    two functions, the branches of an if, two blocks, two loop bodies, function in function, a method / constructor body, block in
    function.  Nothing here is more than people write when they keep an old helper around."""
    def decl(kind, n, tag):
        if kind == "class":
            return ("class %s {\n  n: int\n  constructor(self, start: int) {\n    self.n = start\n  }\n  fn bump(self) -> int {\n    self.n = self.n + %d\n    return self.n\n  }\n}\n" % (n, tag),
                    "c%d = %s(0)\nprint c%d.bump()\n" % (tag, n, tag))
        if kind == "bare-class":
            return "class %s {\n  fn tag(self) -> int {\n    return %d\n  }\n}\n" % (n, tag), "t%d = %s()\nprint t%d.tag()\n" % (tag, n, tag)
        if kind == "function":
            return "%s = fn() -> int {\n  return %d\n}\n" % (n, tag), "print %s()\n" % n
        if kind == "type":
            return "type %s %s\n" % (n, "int" if tag == 1 else "str"), "v%d: %s = %s\nprint v%d\n" % (tag, n, "5" if tag == 1 else '"s"', tag)
        return "%s = %d\n" % (n, tag), "print %s\n" % n

    def ind(t, k=1):
        return "".join("  " * k + l + "\n" for l in t.splitlines())

    def arrangements(a, b):
        A, B = a[0] + a[1], b[0] + b[1]
        return [
            ("module + function never called", A + "legacy = fn() -> int {\n" + ind(B) + "  return 0\n}\n" + a[1]),
            ("module + function called", A + "helper = fn() -> int {\n" + ind(B) + "  return 0\n}\nprint helper()\n" + a[1]),
            ("function first, module after", "helper = fn() -> int {\n" + ind(B) + "  return 0\n}\n" + A + "print helper()\n"),
            ("two functions", "one = fn() -> int {\n" + ind(A) + "  return 1\n}\ntwo = fn() -> int {\n" + ind(B) + "  return 2\n}\nprint one()\nprint two()\n"),
            ("if and else branch", "flag = true\nif flag {\n" + ind(A) + "} else {\n" + ind(B) + "}\n"),
            ("two blocks", "if true {\n" + ind(A) + "}\nif true {\n" + ind(B) + "}\n"),
            ("two loop bodies", "w = 0\nwhile w < 1 {\n" + ind(A) + "  w = w + 1\n}\nfrom 0 to 1 {\n" + ind(B) + "}\n"),
            ("function in function", "outer = fn() -> int {\n" + ind(A) + "  inner = fn() -> int {\n" + ind(B, 2) + "    return 2\n  }\n  return inner()\n}\nprint outer()\n"),
            ("module + block", A + "if true {\n" + ind(B) + "}\n" + a[1]),
            ("module + method body", A + "class Other {\n  fn m(self) -> int {\n" + ind(B, 2) + "    return 0\n  }\n}\no = Other()\nprint o.m()\n" + a[1]),
            ("module + constructor body", A + "class Other {\n  constructor(self) {\n" + ind(B, 2) + "  }\n}\no = Other()\n" + a[1]),
            ("module + block in function", A + "deep = fn() -> int {\n  if true {\n" + ind(B, 2) + "  }\n  return 0\n}\nprint deep()\n" + a[1]),
            ("three scopes", A + "mid = fn() -> int {\n" + ind(B) + "  if true {\n" + ind(A, 2) + "  }\n  return 0\n}\nprint mid()\n"),
        ]
    kinds = ["class", "bare-class", "function", "type", "variable"]
    out = []
    for k1 in kinds:
        for k2 in kinds:
            arr = arrangements(decl(k1, "Counter", 1), decl(k2, "Counter", 2))
            for i, (aname, text) in enumerate(arr):
                if k1 == k2 or i in (0, 1, 3, 8):
                    out.append(("same-name:%s then %s:%s" % (k1, k2, aname), text))
    # the same name in two FILES is two names
    for k in ("class", "function"):
        a, b = decl(k, "Counter", 1), decl(k, "Counter", 2)
        out.append(("same-name:%s:entry and imported module" % k, {"main.ms": "import lib\n" + a[0] + a[1] + "print lib.go()\n",
                                                                  "lib.ms": b[0] + "export go: fn() -> int = fn() -> int {\n" + ind(b[1].replace("print ", "x = ").splitlines()[0]) + "  return 2\n}\n"}))
    return out


def build_inputs(ctx, gr, n_gen, n_mut, n_mutgen, n_grid=0):
    """-> list of cases {name, stream, files, entry}"""
    rng = ctx.rng
    cases = []
    for name, text in suspects() + breadth_suspects() + backtracking_suspects() + depth_suspects() + constant_arith_suspects() + placement_suspects():
        cases.append({"name": name, "stream": "suspect", "files": {"main.ms": text}, "entry": "main.ms"})
    # round 6: programs that TYPE-CHECK and so reach the code generator (streams of their own: the share that compiles is in by_stream)
    for stream, fam in (("alias-index", alias_index_suspects()), ("same-name", same_name_suspects())):
        for name, text in fam:
            cases.append({"name": name, "stream": stream, "files": dict(text) if isinstance(text, dict) else {"main.ms": text}, "entry": "main.ms"})
    corpus = programs.corpus_from_tests() + programs.corpus_from_examples()
    for p in corpus:
        cases.append({"name": p["name"], "stream": "corpus", "files": dict(p["files"]), "entry": p["entry"]})
    deriver = None
    gen_texts = []
    pool = list(peg_gen.EXTRA_TOKENS)
    if gr is not None:
        pool += gr.literals
        deriver = peg_gen.Deriver(gr, rng)
        for i in range(n_gen):
            budget = rng.choice([60, 150, 300, 600, 1200, 3000])
            deriver.max_depth = rng.choice([8, 10, 14, 18])
            t = deriver.derive("file", budget=budget)
            gen_texts.append(t)
        # steer to alternatives not yet taken
        for _ in range(3):
            for tgt in deriver.uncovered():
                if tgt[0] in gr.reach["file"] or tgt[0] == "file":
                    gen_texts.append(deriver.derive("file", target=tgt))
        for i, t in enumerate(gen_texts):
            cases.append({"name": "gen:%d" % i, "stream": "generated", "files": {"main.ms": t}, "entry": "main.ms"})

    def fragment():
        if deriver is None:
            return rng.choice(pool)
        deriver.max_depth = 6
        return deriver.derive(rng.choice(["value", "type", "declaration", "math_expr", "function", "list", "map", "block"]), budget=80) \
            if all(r in gr.by for r in ("value", "type", "declaration", "math_expr", "function", "list", "map", "block")) \
            else deriver.derive(rng.choice(gr.names), budget=80)

    small = [p for p in corpus if peg_gen.byte_len(p["files"][p["entry"]]) <= MAX_BYTES]
    for i in range(n_mut):
        p = rng.choice(small)
        which = p["entry"] if rng.random() < 0.85 or len(p["files"]) == 1 else rng.choice(sorted(p["files"]))
        text, ops = peg_gen.mutate(rng, p["files"][which], pool, fragment=fragment)
        files = dict(p["files"])
        files[which] = text
        cases.append({"name": "mut:%d:%s" % (i, p["name"]), "stream": "mutated-corpus", "files": files, "entry": p["entry"], "ops": ops})
    grid = []
    for i in range(n_grid):
        t = peg_gen.typed_grid_case(rng)
        grid.append(t)
        cases.append({"name": "grid:%d" % i, "stream": "typed-grid", "files": {"main.ms": t}, "entry": "main.ms"})
    for i in range(n_grid // 8):
        text, ops = peg_gen.mutate(rng, rng.choice(grid), pool, n_ops=1, fragment=fragment)
        cases.append({"name": "mutgrid:%d" % i, "stream": "mutated-typed-grid", "files": {"main.ms": text}, "entry": "main.ms", "ops": ops})
    # exhaustive: control statements in every enclosing-construct combination (see peg_gen.control_nesting_cases)
    seen_ctl = set()
    ctl = peg_gen.control_nesting_cases(3, ["break", "continue", "return", "return 1"]) + peg_gen.control_nesting_cases(2)
    if not ctx.quick():
        ctl += peg_gen.control_nesting_cases(3)
        ctl += [c for c in peg_gen.control_nesting_cases(4, ["break", "continue"]) if c[0].count(">") == 3]
    for name, t in ctl:
        if t not in seen_ctl:
            seen_ctl.add(t)
            cases.append({"name": "ctl:" + name, "stream": "control-nesting", "files": {"main.ms": t}, "entry": "main.ms"})
    for i in range(n_mutgen if gen_texts else 0):
        text, ops = peg_gen.mutate(rng, rng.choice(gen_texts), pool, fragment=fragment)
        cases.append({"name": "mutgen:%d" % i, "stream": "mutated-generated", "files": {"main.ms": text}, "entry": "main.ms", "ops": ops})
    return cases, deriver, corpus


# ------------------------------------------------------------------------------ the search

def search(ctx, binary, cases):
    base = ctx.mktemp()
    t0 = time.time()

    def one(c):
        if any(peg_gen.byte_len(t) > MAX_BYTES for t in c["files"].values()) and c["stream"] not in ("corpus",):
            return None
        rc, out, err, dt = compile_once(binary, base, c["files"], c["entry"])
        return rc, out[-600:], err[-1500:], dt

    results = programs.pmap(one, cases)
    by_exit, by_stream, slow = {}, {}, []
    failures = {}      # raw key -> smallest failing case
    n = 0
    nodiag = []
    for c, r in zip(cases, results):
        if r is None:
            continue
        n += 1
        rc, out, err, dt = r
        k = programs.exit_class(rc)
        by_exit[k] = by_exit.get(k, 0) + 1
        s = by_stream.setdefault(c["stream"], {})
        s[k] = s.get(k, 0) + 1
        if dt > 2 and rc != 124:
            slow.append((round(dt, 1), c["name"]))
        if rc == 1 and not (out.strip() or err.strip()):
            nodiag.append(c)
        key = raw_key(rc, err, c["files"][c["entry"]])
        if key is None:
            continue
        size = sum(len(t) for t in c["files"].values())
        if key not in failures or size < failures[key][0]:
            failures[key] = (size, c, rc, err)
    ctx.cov["search_wall_s"] = round(time.time() - t0, 1)
    return n, by_exit, by_stream, slow, failures, nodiag, base


def minimise_failure(ctx, binary, base, key, c, rc, err):
    """delta-debug the entry file (lines, then tokens) keeping the same raw failure key"""
    files = dict(c["files"])
    entry = c["entry"]
    if c["stream"] in ("suspect", "alias-index", "same-name"):
        return files, entry, rc, err, None          # hand-written, already minimal
    # try to drop the other files of the project first
    if len(files) > 1:
        rc1, out, e2, _ = compile_once(binary, base, {entry: files[entry]}, entry)
        if raw_key(rc1, e2, files[entry]) == key:
            files = {entry: files[entry]}
    budget = 16 if key[0] == "timeout" else (120 if key[0] == "stack-overflow" else 500)

    def still(text):
        f2 = dict(files)
        f2[entry] = text
        rc1, out, e2, _ = compile_once(binary, base, f2, entry)
        return raw_key(rc1, e2, text) == key
    text = files[entry]
    if len(text) > 40:
        text = peg_gen.minimise(text, still, max_tests=budget)
    if text == c["files"][entry] and files == c["files"] and key[0] != "timeout":
        return files, entry, rc, err, None
    files[entry] = text
    # the minimised input must fail on its own
    rc2, out, e2, dt = compile_once(binary, base, files, entry)
    if raw_key(rc2, e2, text) != key:
        files = dict(c["files"])
        rc2, out, e2, dt = compile_once(binary, base, files, entry)
        if raw_key(rc2, e2, files[entry]) != key:
            return None          # not reproducible when run alone (e.g. a time-out under load): never reported
    return files, entry, rc2, e2, dt


def report_failures(ctx, binary, base, failures):
    keys = sorted(failures, key=lambda k: tuple(map(str, k)))

    def one(key):
        size, c, rc, err = failures[key]
        m = minimise_failure(ctx, binary, base, key, c, rc, err)
        if m is None:
            return None
        files, entry, rc2, err2, dt = m
        cls = final_class(binary, base, key, files, entry, err2)
        return key, c, files, entry, rc2, err2, dt, cls

    found = 0
    sites = []
    for r in programs.pmap(one, keys):
        if r is None:
            continue
        key, c, files, entry, rc2, err2, dt, cls = r
        m = PANIC_AT.search(err2)
        what = "mscript compile dies on a %d-byte input: %s" % (
            peg_gen.byte_len(files[entry]),
            ("panic at %s:%s: %s" % (m.group(1), m.group(2), m.group(4)[:160])) if m else
            ("no result within %d s" % TIMEOUT if key[0] == "timeout" else
             ("stack overflow (SIGABRT)" if key[0] == "stack-overflow" else "exit status %s" % rc2)))
        sites.append({"class": cls, "raw": list(key), "from": c["name"], "rc": rc2, "witness": files[entry][:400]})
        found += 1
        ctx.report(cls, what, {"files": files, "entry": entry, "cmd": "mscript compile %s --quick   (in a scratch copy of the files)" % entry,
                               "exit": rc2, "stderr": err2[-1200:], "found_from": c["name"], "stream": c["stream"],
                               "expected": "exit 0, or exit 1 with diagnostics, within %d s" % TIMEOUT})
    return found, sites


def run_search(ctx, binary, gr):
    q = ctx.quick()
    cases, deriver, corpus = build_inputs(ctx, gr, 1500 if q else 15000, 3500 if q else 40000, 1000 if q else 10000, 4000 if q else 60000)
    n, by_exit, by_stream, slow, failures, nodiag, base = search(ctx, binary, cases)
    found, sites = report_failures(ctx, binary, base, failures)
    for c in nodiag[:1]:
        found += 1
        ctx.report("failure-without-diagnostics", "compile exits 1 without printing any diagnostic for %s" % c["name"],
                   {"files": c["files"], "entry": c["entry"]})
    ctx.cov["control_nesting"] = {
        "rule": "EXHAUSTIVE stream: each control statement (break, continue, return, return <value>, ...) wrapped in every chain of enclosing "
                "constructs {function literal, typed function literal, callback argument, method, constructor, class body, if, else, else-if, "
                "while body, from body} of length 0..3 (quick: 4 core statements at depth <= 3, all %d statement forms at depth <= 2; "
                "thorough: all forms at depth <= 3 and break/continue at depth 4)" % len(peg_gen.CONTROL_STMTS),
        "cases": sum(1 for c in cases if c["stream"] == "control-nesting"), "wrappers": sorted(peg_gen.CONTROL_WRAPPERS)}
    ctx.cov["nearly_valid_deep_code"] = {
        "rule": "one operand missing in (or the closing brackets missing after) the innermost of k = 12 / 20 / 32 nested function literals, in 9 shapes "
                "(callback argument, method callback, second argument, list / map of functions, callback inside if, returned and called, assigned, method body), "
                "each with its valid twin; flat operator chains of 650-1300 operands below 4 kB",
        "cases": sum(1 for c in cases if c["name"].startswith(("backtracking:", "breadth:long-chain")))}
    ctx.cov["search"] = {"label": "SEARCH, not proof: exit-status observation of the real compiler",
                         "inputs_run": n, "by_exit": by_exit, "by_stream": by_stream, "slow_over_2s": slow[:10],
                         "distinct_failure_sites": sites, "timeout_s": TIMEOUT, "max_bytes": MAX_BYTES}
    if deriver is not None:
        tot = sum(gr.alts.values())
        reach = [(r, nid, a) for (r, nid), k in gr.alts.items() for a in range(k) if r == "file" or r in gr.reach["file"]]
        cov = [x for x in reach if x in deriver.covered]
        ctx.cov["production_coverage"] = {
            "rule": "choice alternatives and taken/not-taken branches of ? * + in rules reachable from `file`, taken at least once by the grammar-directed derivations",
            "covered": len(cov), "reachable": len(reach), "all_in_grammar": tot,
            "uncovered": [list(x) for x in reach if x not in deriver.covered][:20]}
    return n, found, cases


# ------------------------------------------------------------------------------ the tie of the PEG model

TIE_MAX_CHARS = 1500
TIE_MAX_NEST = 10
MODEL_FUEL = 400000


def hexs(s):
    return s.encode("utf8").hex() or "-"


def cps(s):
    return ".".join(str(ord(c)) for c in s) or "-"


def tie_inputs(ctx, gr, search_cases, n_rule, n_file, n_mut):
    """(rule, text) pairs: every rule as start symbol with every alternative forced once, file-rooted
    derivations, mutated corpus / generated programs, hand-picked skipping/atomicity probes"""
    rng = ctx.rng
    d = peg_gen.Deriver(gr, rng, max_depth=8, size_budget=120)
    out = []
    probes = ["", " ", "\n", "x=1", "x = 1 ", " x = 1", "x = 1 # c", "x = 1 ### c ### ", "###", "#", "print  1", "print 1", "print\t1", "return", "return ",
              "a . b ( 1 ) [ 2 ]", "a.b(1)[2] [3]", "typeof x", "typeofx", "get x", "getx", "x or 1", "xor 1", "a xor b", "a xorb", "x is int", "x isint",
              "import a", "import a, type b from ./c", "import  a.ms", "export class A {}", "export  export class A {}", "export type T int", "type T int",
              "0b12", "0x_1", "1_000.5_0", "1f", "B0x1F", "B12", "1 . 5", "\"a\\\"b\"", "\"a", "[1, 2, ]", "[,]", "map[str,int]{\"a\":1,}", "[int...]", "[[int...]]",
              "[int, str...]", "[int , str ...]", "fn(a,b:int)->(int){}", "fn ( ) { }", "if a {} else if b {} else {}", "from 1 to 2 step 3, i {}",
              "from 1 through 2 {}", "\r\n", "\r", "x\r\ny", "é = 1", "x = \"é\U0001F600\"", "a?=b", "a ?= b", "modify const export x = 1", "[a,b,] = c",
              "(a).b = 1", "a[0][1] = 2", "a.b.c() = 3", "assert x", "assertx", "while x {}", "whilex {}", "continue", "break", "nil", "nilx", "x: int? = nil"]
    for t in probes:
        out.append(("file", t))
        for r in ("declaration", "value", "type", "math_expr"):
            if r in gr.by:
                out.append((r, t))
    user = [n for n, _, _, b in gr.rules if not b]      # built-ins are not members of pest's Rule enum
    for r in user:
        for _ in range(n_rule):
            out.append((r, d.derive(r)))
    d.covered = set()
    for r in user:
        d.derive(r)
    for _ in range(2):
        for tgt in d.uncovered():
            st = tgt[0] if tgt[0] in user else next((r for r in (["file"] if "file" in user else []) + user if tgt[0] in gr.reach[r]), None)
            if st is not None:
                out.append((st, d.derive(st, target=tgt)))
    rule_cov = (len(d.covered), sum(gr.alts.values()), [list(x) for x in d.uncovered()][:10])
    for _ in range(n_file):
        d.max_depth = rng.choice([6, 8, 10, 12])
        out.append(("file", d.derive("file", budget=rng.choice([40, 100, 250, 600]))))
    texts = [c["files"][c["entry"]] for c in search_cases if c["stream"] in ("mutated-corpus", "mutated-generated", "corpus")]
    rng.shuffle(texts)
    for t in texts[:n_mut]:
        out.append(("file", t))
    # suffix / prefix damage of valid derivations exercises backtracking and error paths
    for r, t in list(out[:400]):
        if len(t) > 3:
            k = rng.randrange(1, len(t))
            out.append((r, t[:k]))
            out.append((r, t[k:]))
    seen, res = set(), []
    for r, t in out:
        if (r, t) in seen or len(t) > TIE_MAX_CHARS or nesting_depth(t) > TIE_MAX_NEST:
            continue
        if any(0xD800 <= ord(c) <= 0xDFFF for c in t):
            continue
        seen.add((r, t))
        res.append((r, t))
    return res, rule_cov


def run_tie(ctx, gr, cases):
    hdir = core.build_harness("peg")
    model = extract.build("peg", "PegExtract.v", "peg_driver.ml")
    idx = {n: i for i, n in enumerate(gr.names)}
    chunks = [cases[i:i + 150] for i in range(0, len(cases), 150)]

    def one(chunk):
        a = core.sh([os.path.join(hdir, "peg_harness")], inp=("\n".join(r + " " + hexs(t) for r, t in chunk) + "\n").encode(), timeout=300)
        b = core.sh([model, str(MODEL_FUEL)], inp=("\n".join("%d %s" % (idx[r], cps(t)) for r, t in chunk) + "\n").encode(), timeout=300)
        return a, b

    res = programs.pmap(one, chunks)
    n = ok_trees = errs = dis = 0
    nontrivial = set()
    max_steps = (0, None)
    for chunk, (a, b) in zip(chunks, res):
        la = a[1].decode("utf8", "replace").splitlines()
        lb = b[1].decode("utf8", "replace").splitlines()
        if a[0] != 0 or b[0] != 0 or len(la) != len(chunk) or len(lb) != len(chunk):
            ctx.report("correspondence:peg-tie-crashed", "PEG tie: harness rc=%s (%d lines) model rc=%s (%d lines) for a chunk of %d cases: %s" % (
                a[0], len(la), b[0], len(lb), len(chunk), (a[2] + b[2]).decode("utf8", "replace")[-400:]),
                {"first_case": chunk[0], "correspondence": "T-peg (harness/peg vs Peg/Interp.v)"}, found_input=False)
            continue
        for (r, t), x, y in zip(chunk, la, lb):
            n += 1
            ys = y.split()
            if ys[0] == "OK":
                steps = int(ys[1])
                toks = []
                for p in ys[2:]:
                    d_, ri, s_, e_ = p.split(":")
                    toks.append("%s:%s:%s:%s" % (d_, gr.names[int(ri)], s_, e_))
                y2 = " ".join(["OK"] + toks)
            else:
                steps = int(ys[1]) if len(ys) > 1 else 0
                y2 = ys[0]
            if steps > max_steps[0]:
                max_steps = (steps, (r, t[:80], len(t)))
            if x != y2:
                dis += 1
                ctx.report("correspondence:peg-tree", "pest and the Coq PEG interpreter disagree on rule %s, input %r: pest=%s model=%s" % (r, t[:120], x[:300], y2[:300]),
                           {"rule": r, "input": t, "pest": x, "model": y2, "correspondence": "T-peg: pest parser derived from the current grammar.pest vs Peg/Interp.v on Gen/Grammar.v"},
                           found_input=False)
                continue
            if x.startswith("OK"):
                ok_trees += 1
                if x.count(" ") >= 3:
                    nontrivial.add(x)
            else:
                errs += 1
    return {"cases": n, "parsed": ok_trees, "rejected": errs, "disagreements": dis, "distinct_nontrivial_trees": len(nontrivial),
            "max_model_steps": max_steps[0], "max_model_steps_case": max_steps[1]}


def build_growth(ctx):
    """Peg/Growth.v: the model reproduces the exponential step growth of the two known families.  It is a
    witness of a DEFECT, so failing to compile (grammar repaired) is recorded, never reported as a violation."""
    with core.Lock("coq"):
        rc, out, err = core.sh("timeout 600 make -j%d Peg/Growth.vo" % core.NCPU, cwd=core.COQ, timeout=700)
    gate = core.coq_gate(["Peg/Growth.v"])
    n, names = core.count_obligations(["Peg/Growth.v"])
    okg = rc == 0 and not gate
    ctx.cov["exponential_growth_reproduced_in_model"] = {
        "file": "Peg/Growth.v", "compiled": okg, "examples": names,
        "meaning": "steps(k+2)-steps(k+1) = 2*(steps(k+1)-steps(k)) and steps(k) >= 2^k for k = 1..12, both families (vm_compute)"}
    if okg:
        ctx.cov["obligations"] = ctx.cov.get("obligations", 0) + n
        ctx.cov["discharged"] = ctx.cov.get("discharged", 0) + n
    else:
        print("note: Peg/Growth.v (model-level witness of the known exponential findings) no longer compiles: %s" % (err.decode("utf8", "replace")[-300:]))
    return okg


def run(ctx):
    # T6: translate the CURRENT grammar.pest (Gen/Grammar.v must exist before make)
    gr = None
    try:
        from gen import pest2coq
        rules = pest2coq.main(core.REPO, os.path.join(core.COQ, "Gen", "Grammar.v"))
        gr = peg_gen.Grammar(rules)
        ctx.cov["grammar"] = {"rules": len(rules), "built_in": sum(1 for r in rules if r[3]),
                              "by_modifier": {m: sum(1 for r in rules if r[1] == m) for m in sorted({r[1] for r in rules})}}
    except Exception as ex:
        ctx.report("translator-broken", "T6 translator gen/pest2coq.py failed on the current grammar.pest: %s" % ex,
                   {"error": str(ex)}, found_input=False)
    ok = core.coq_props(ctx, "Props/C16.v")
    if ok:
        build_growth(ctx)
    binary = core.build_repo()
    n, found, cases = run_search(ctx, binary, gr)
    tie = None
    if gr is not None:
        q = ctx.quick()
        try:
            tcases, rule_cov = tie_inputs(ctx, gr, cases, 4 if q else 40, 300 if q else 6000, 400 if q else 8000)
            tie = run_tie(ctx, gr, tcases)
        except core.BuildError as ex:
            ctx.report("correspondence:peg-tie-unavailable", "PEG tie could not be built: %s" % str(ex)[-600:],
                       {"error": str(ex)[-2000:], "correspondence": "T-peg (harness/peg vs extracted Peg/Interp.v)"}, found_input=False)
        if tie is not None:
            tie["start_rule_coverage"] = {"rule": "alternatives / optional branches taken when every rule is used as start symbol", "covered": rule_cov[0], "of": rule_cov[1], "uncovered": rule_cov[2]}
            ctx.cov["peg_tie"] = tie
            ctx.cov["traces_validated_against_impl"] = tie["cases"]
            ctx.cov["distinct_nontrivial"] = tie["distinct_nontrivial_trees"]
            for r, t in tcases[200:203]:
                ctx.sample({"tie_case": {"rule": r, "input": t[:120]}})
    ctx.cov["rule"] = ("evaluations = compiler runs of the SEARCH + PEG tie cases; distinct_nontrivial = distinct pest parse trees with >= 3 nodes "
                       "on which pest (derived from the current grammar.pest) and the Coq interpreter agreed node by node (rule, span, depth)")
    ctx.cov["evaluations"] = n + (tie["cases"] if tie else 0)
    ctx.cov["exhaustive"] = False
    for c in cases[:400]:
        if c["stream"] in ("generated", "mutated-corpus") and len(ctx.cov["samples"]) < 6 and 20 < len(c["files"][c["entry"]]) < 200:
            ctx.sample({"search_case": c["name"], "stream": c["stream"], "input": c["files"][c["entry"]][:200]})
    ctx.cov["trusted_base"] = ["Coq 8.16.1 kernel (coqc; vm_compute in Examples)", "no axioms (Print Assumptions: closed under the global context)",
                               "gen/pest2coq.py (translator grammar.pest -> Gen/Grammar.v, incl. its table of pest built-ins)",
                               "Peg/Desugar.v + Peg/Interp.v are a hand-written model of pest 2.8 semantics, tied by this run's parse-tree comparison",
                               "harness/peg (pest_derive on the current grammar.pest), extraction ExtrOcamlBasic only + extract/peg_driver.ml glue",
                               "the exit-status SEARCH is testing, not proof"]
    ctx.assumptions = ["PROVED: parser-layer termination for the translated grammar (model of pest); NOT proved: everything behind the parser "
                       "(AST builders, type checker, code generator: several hundred unwrap-like sites) -- searched only",
                       "native stack exhaustion is outside the model (fuel is recursion depth, not a stack size)",
                       "pest error positions are not modelled (the tie compares accept/reject and trees)"]
    core.proof_or_search(ctx, ok, ["C16_parser_terminates_partial", "C16_grammar_wf", "C16_mscript_parser_terminates_partial"], found > 0)
