"""Generator of Core MScript programs: one tree, two renderings (.ms text / token stream for the
extracted Coq models).  Every random choice comes from the rng passed in.

Tree encoding (nested tuples):
 expr: ('int', z) ('bool', b) ('str', s) ('nil',) ('var', x) ('bin', op, a, b) ('and', a, b) ('or', a, b)
       ('not', a) ('neg', a) ('call', f, [args]) ('self', [args]) ('fn', [(name, ty)], ret_ty, [stmts])
       ('nilor', a, b) ('get', a)
 stmt: ('asg', x, ty|None, e) ('mod', x, e) ('opa', x, op, e) ('print', e) ('assert', e) ('expr', e)
       ('if', c, body) ('ifelse', c, body, els) ('ifelif', c, body, nxt) ('while', c, body)
       ('from', a, b, incl, step|None, name|None, collide, body) ('break',) ('continue',) ('ret', e|None)
"""

OPS_ARITH = ['+', '-', '*']
OPS_CMP = ['<', '<=', '>', '>=', '==', '!=']
OPNAME = {'+': 'BAdd', '-': 'BSub', '*': 'BMul', '/': 'BDiv', '%': 'BMod', '<': 'BLt', '<=': 'BLe',
          '>': 'BGt', '>=': 'BGe', '==': 'BEq', '!=': 'BNeq'}


def is_lit(e):
    return e[0] in ('int', 'bool', 'str', 'nil') or (e[0] == 'neg' and e[1][0] == 'int')


class Gen:
    def __init__(self, rng, max_depth=3, closures=True, optionals=False, failures=0.15, expr_depth=3, logs=False):
        self.r = rng
        self.max_depth = max_depth
        self.closures = closures
        self.optionals = optionals
        self.failures = failures
        self.expr_depth = expr_depth
        self.logs = logs
        self.counter = 0
        self.protected = set()
        self.hidden = set()     # outer names reused as a loop counter inside the current function: not read again there
        self.funcs = []      # (name, [param types], ret type) visible at module level (captured by reference)

    def fresh(self, p='v'):
        self.counter += 1
        return '%s%d' % (p, self.counter)

    # ---------------------------------------------------------------- expressions
    def lit(self, ty):
        r = self.r
        if ty == 'int':
            return ('int', r.choice([0, 1, 2, 3, 5, 7, 10, -1, -4, 100]))
        if ty == 'bool':
            return ('bool', r.random() < 0.5)
        # (also literals whose LAST character is an escaped backslash: the closing quote is not part of an escape)
        return ('str', r.choice(['a', 'bc', '', 'x y', 'é', 'q"t', 'n\\l', 'e\\', '\\']))

    def vars_of(self, env, ty):
        return [x for scope in env for x, t in scope.items() if t == ty and x not in self.hidden]

    def targets_of(self, env, ty):
        """variables that may be assigned: not loop counters (w*, j*) and not the recursion parameter"""
        return [x for x in self.vars_of(env, ty) if x[0] not in 'wj' and x not in self.protected]

    def expr(self, env, ty, depth, in_fn=None):
        r = self.r
        vs = self.vars_of(env, ty)
        if depth <= 0 or r.random() < 0.25:
            if vs and r.random() < 0.7:
                return ('var', r.choice(vs))
            return self.lit(ty)
        k = r.random()
        if ty == 'int':
            if k < 0.45:
                op = r.choice(OPS_ARITH)
                a = self.expr(env, 'int', depth - 1, in_fn)
                b = self.expr(env, 'int', depth - 1, in_fn)
                if is_lit(a) and is_lit(b):
                    a = ('var', r.choice(vs)) if vs else a
                    if is_lit(a):
                        return a
                return ('bin', op, a, b)
            if k < 0.55:
                op = r.choice(['/', '%'])
                a = self.expr(env, 'int', depth - 1, in_fn)
                if r.random() < self.failures and vs:
                    b = ('var', r.choice(vs))
                else:
                    b = ('int', r.choice([1, 2, 3, 7]))
                if is_lit(a) and is_lit(b):
                    if not vs:
                        return a
                    a = ('var', r.choice(vs))
                return ('bin', op, a, b)
            if k < 0.62 and vs:
                return ('neg', ('var', r.choice(vs)))
            fs = [f for f in self.funcs if f[2] == 'int' and f[0] in self.visible_funcs(env)]
            if k < 0.85 and fs:
                f = r.choice(fs)
                return ('call', ('var', f[0]), self.call_args(env, f, depth - 1, in_fn))
            if in_fn and in_fn.get('rec') and in_fn['ret'] == 'int' and k < 0.95:
                return in_fn['rec'](self, env, depth)
            return self.expr(env, ty, 0, in_fn)
        if ty == 'bool':
            if k < 0.45:
                op = r.choice(OPS_CMP)
                a = self.expr(env, 'int', depth - 1, in_fn)
                b = self.expr(env, 'int', depth - 1, in_fn)
                if is_lit(a) and is_lit(b):
                    ivs = self.vars_of(env, 'int')
                    if not ivs:
                        return self.lit('bool')
                    a = ('var', r.choice(ivs))
                return ('bin', op, a, b)
            if k < 0.7:
                a = self.expr(env, 'bool', depth - 1, in_fn)
                b = self.expr(env, 'bool', depth - 1, in_fn)
                if is_lit(a) and is_lit(b):
                    return a
                return (r.choice(['and', 'or']), a, b)
            if k < 0.8:
                a = self.expr(env, 'bool', depth - 1, in_fn)
                if is_lit(a) or a[0] == 'not':
                    return a
                return ('not', a)
            if k < 0.9:
                svs = self.vars_of(env, 'str')
                if svs:
                    return ('bin', r.choice(['==', '!=']), ('var', r.choice(svs)), self.expr(env, 'str', depth - 1, in_fn))
            return self.expr(env, ty, 0, in_fn)
        # str
        if k < 0.5:
            a = self.expr(env, 'str', depth - 1, in_fn)
            b = self.expr(env, r.choice(['str', 'str', 'int']), depth - 1, in_fn)
            if is_lit(a) and is_lit(b):
                svs = self.vars_of(env, 'str')
                if not svs:
                    return a
                a = ('var', r.choice(svs))
            return ('bin', '+', a, b)
        return self.expr(env, ty, 0, in_fn)

    def call_args(self, env, f, depth, in_fn):
        args = [self.expr(env, t, depth, in_fn) for t in f[1]]
        if len(f) > 3 and f[3]:
            args[0] = ('int', self.r.randint(0, 3))      # recursion depth stays small
        return args

    def visible_funcs(self, env):
        return set(x for scope in env for x, t in scope.items() if isinstance(t, tuple))

    # ---------------------------------------------------------------- statements
    def block(self, env, depth, in_loop, in_fn, n=None):
        env = env + [{}]
        out = []
        for _ in range(n if n is not None else self.r.randint(1, 3)):
            out += self.stmt(env, depth, in_loop, in_fn)
            if out and out[-1][0] in ('ret', 'break', 'continue'):
                break                      # nothing after a terminator (a bare `return` would swallow the next line)
        return out

    def cond(self, env, in_fn):
        c = self.expr(env, 'bool', 2, in_fn)
        if is_lit(c):
            ivs = self.vars_of(env, 'int')
            if ivs:
                c = ('bin', self.r.choice(OPS_CMP), ('var', self.r.choice(ivs)), ('int', self.r.choice([0, 1, 2, 3])))
        return c

    def stmt(self, env, depth, in_loop, in_fn):
        r = self.r
        k = r.random()
        ty = r.choice(['int', 'int', 'bool', 'str'])
        local = env[-1]
        if k < 0.22:
            # new variable or re-assignment of one visible in this function
            vs = self.targets_of(env[in_fn['base']:] if in_fn else env, ty)
            if vs and r.random() < 0.5:
                return [('asg', r.choice(vs), None, self.expr(env, ty, self.expr_depth, in_fn))]
            x = self.fresh()
            e = self.expr(env, ty, self.expr_depth, in_fn)
            local[x] = ty
            return [('asg', x, ty if r.random() < 0.5 else None, e)]
        if k < 0.38:
            return [('print', self.expr(env, ty, self.expr_depth, in_fn))]
        if k < 0.43:
            ivs = self.targets_of(env[in_fn['base']:] if in_fn else env, 'int')
            if ivs:
                return [('opa', r.choice(ivs), r.choice(['+', '-', '*']), self.expr(env, 'int', 1, in_fn))]
        if k < 0.47:
            ivs = self.vars_of(env, 'int')
            if ivs:
                x = r.choice(ivs)
                if r.random() < self.failures:
                    return [('assert', ('bin', r.choice(OPS_CMP), ('var', x), self.expr(env, 'int', 1, in_fn)))]
                return [('assert', ('bin', '==', ('var', x), ('var', x)))]
        if k < 0.52:
            fs = [f for f in self.funcs if f[0] in self.visible_funcs(env)]
            if fs:
                f = r.choice(fs)
                return [('expr', ('call', ('var', f[0]), self.call_args(env, f, 2, in_fn)))]
        if depth > 0:
            if k < 0.66:
                c = self.cond(env, in_fn)
                body = self.block(env, depth - 1, in_loop + 1 if in_loop else 0, in_fn)
                kk = r.random()
                if kk < 0.4:
                    return [('if', c, body)]
                if kk < 0.75:
                    return [('ifelse', c, body, self.block(env, depth - 1, in_loop + 1 if in_loop else 0, in_fn))]
                c2 = self.cond(env, in_fn)
                b2 = self.block(env, depth - 1, in_loop + 1 if in_loop else 0, in_fn)
                if r.random() < 0.5:
                    nxt = ('if', c2, b2)
                else:
                    nxt = ('ifelse', c2, b2, self.block(env, depth - 1, in_loop + 1 if in_loop else 0, in_fn))
                return [('ifelif', c, body, nxt)]
            if k < 0.76:
                # while with guaranteed progress: the counter is bumped first
                i = self.fresh('w')
                local[i] = 'int'
                lim = r.randint(1, 4)
                body = [('asg', i, None, ('bin', '+', ('var', i), ('int', 1)))] + self.block(env, depth - 1, 1, in_fn)
                return [('asg', i, None, ('int', 0)), ('while', ('bin', '<', ('var', i), ('int', lim)), body)]
            if k < 0.90:
                named = r.random() < 0.6
                name = None
                collide = False
                pre = []
                inner = dict()
                if named:
                    cands = [x for x, t in env[-1].items() if t == 'int']
                    if cands and r.random() < 0.3:
                        name = r.choice(cands)
                        collide = True
                    elif in_fn and r.random() < 0.2:
                        # named like a variable of an ENCLOSING scope: a new local for the duration of the loop only
                        outer = [x for sc in env[:in_fn['base']] for x, t in sc.items() if t == 'int' and x[0] not in 'wj'
                                 and not any(x in sc2 for sc2 in env[in_fn['base']:])]
                        name = r.choice(outer) if outer else self.fresh('j')
                    else:
                        name = self.fresh('j')
                # a colliding counter does not occur in its own bounds (the order "assign start, then evaluate
                # the upper bound" is an implementation detail the language does not define)
                benv0 = [{x: t for x, t in sc.items() if not (named and x == name)} for sc in env]   # the counter's own name stays out of the bounds
                lit_only = 2.0 if collide else 0.7      # (calls could read the counter through a capture)
                a = ('int', r.randint(0, 2)) if r.random() < lit_only else self.expr(benv0, 'int', 1, in_fn)
                b = ('int', r.randint(1, 5)) if r.random() < lit_only else self.expr(benv0, 'int', 1, in_fn)
                step = None
                if r.random() >= 0.5:
                    ivs_ = [x for x in self.vars_of(benv0, 'int')]
                    if named and r.random() < 0.5:
                        # the step is evaluated inside the loop, after every iteration: there the counter's name is the
                        # counter (Lang/Eval.v SFrom, Compile.v fv_s), whatever the name means outside the loop
                        ivs_ = ivs_ + [name, name]
                    kk = r.random()
                    if kk < 0.45 or not ivs_:
                        step = ('int', r.randint(1, 3))
                    elif kk < 0.75:
                        # a compound, non-constant expression whose value is a small positive number
                        step = ('bin', '+', ('bin', '*', ('var', r.choice(ivs_)), ('int', 0)), ('int', r.randint(1, 3)))
                    else:
                        v_ = r.choice(ivs_)
                        step = ('bin', '+', ('bin', '-', ('var', v_), ('var', v_)), ('bin', '*', ('int', r.randint(1, 2)), ('bin', '+', ('bin', '*', ('var', v_), ('int', 0)), ('int', 1))))
                benv = env + [{name: 'int'}] if (named and not collide) else env
                body = self.block(benv, depth - 1, 1, in_fn)
                return pre + [('from', a, b, r.random() < 0.4, step, name, collide, body)]
        if in_loop and k < 0.95:
            return [r.choice([('break',), ('continue',)])]
        if in_fn and k < 0.98:
            if in_fn['ret'] is not None:          # a bare `return` is rejected by the compiler in a void function
                return [('ret', self.expr(env, in_fn['ret'], 2, in_fn))]
        return [('print', self.expr(env, ty, 2, in_fn))]

    def function(self, env, recursive=False, nested_depth=0):
        r = self.r
        name = self.fresh('f')
        ptys = [r.choice(['int', 'int', 'bool', 'str']) for _ in range(r.randint(0 if not recursive else 1, 3))]
        if recursive:
            ptys[0] = 'int'
        params = [(self.fresh('p'), t) for t in ptys]
        ret = r.choice(['int', 'int', 'bool', 'str', None]) if not recursive else 'int'
        fenv = env + [dict(params)]
        saved_hidden = set(self.hidden)
        in_fn = {'ret': ret, 'base': len(env), 'rec': None}
        body = []
        if recursive:
            n = params[0][0]
            self.protected.add(n)
            body.append(('if', ('bin', '<=', ('var', n), ('int', 0)), [('ret', self.expr(fenv, 'int', 1, None))]))
            def rec(g, e2, depth, params=params, n=n):
                args = [('bin', '-', ('var', n), ('int', 1))] + [g.expr(e2, t, 1, None) for _, t in params[1:]]
                return ('self', args)
            in_fn['rec'] = rec
        if not recursive and r.random() < 0.25:
            # a loop counter named like a variable of an ENCLOSING scope: a new local for the duration of the loop.
            # It is the first statement of the body and the name is not used again in this function (a read of the
            # outer variable BEFORE such a loop is a known defect of the capture analysis, see DESIGN 7)
            outer = [x for sc in env for x, t in sc.items() if t == 'int' and x[0] not in 'wj']
            if outer:
                nm = r.choice(outer)
                self.hidden.add(nm)
                body.append(('from', ('int', 0), ('int', r.randint(1, 3)), False, None, nm, False,
                             [('print', ('bin', '+', ('var', params[0][0]), ('int', 1)) if params and params[0][1] == 'int' else ('str', 'tick'))]))
        body += self.block(fenv, self.max_depth - 1 - nested_depth, 0, in_fn, n=r.randint(1, 4))
        if ret is None and not recursive and r.random() < 0.3 and not (body and body[-1][0] == 'ret'):
            # the function's LAST statement is a loop with a constant-true condition left by break
            w = self.fresh('w')
            body += [('asg', w, None, ('int', 0)),
                     ('while', ('bool', True), [('asg', w, None, ('bin', '+', ('var', w), ('int', 1))),
                                                ('if', ('bin', '>=', ('var', w), ('int', r.randint(1, 3))), [('print', ('var', w)), ('break',)])])]
        if body and body[-1][0] == 'ret':
            pass
        elif ret is not None:
            body.append(('ret', self.expr(fenv + [{}], ret, 2, in_fn)))
        self.hidden = saved_hidden
        return name, ptys, ret, ('fn', params, ret, body)

    @staticmethod
    def norm_e(e, top):
        """a negative literal is folded by the compiler only when it is the whole value; inside an
        operator it is unary minus applied to the positive literal"""
        k = e[0]
        N = Gen.norm_e
        if k == 'int':
            return e if (top or e[1] >= 0) else ('neg', ('int', -e[1]))
        if k == 'bin':
            return (k, e[1], N(e[2], False), N(e[3], False))
        if k in ('and', 'or', 'nilor'):
            return (k, N(e[1], False), N(e[2], False))
        if k == 'not':
            return (k, N(e[1], False))
        if k == 'neg':
            return e if e[1][0] == 'int' else (k, N(e[1], False))
        if k == 'call':
            return (k, N(e[1], False), [N(a, True) for a in e[2]])
        if k == 'self':
            return (k, [N(a, True) for a in e[1]])
        if k == 'fn':
            return (k, e[1], e[2], [Gen.norm_s(s) for s in e[3]])
        if k == 'get':
            return (k, N(e[1], False)) + tuple(e[2:])
        return e

    @staticmethod
    def norm_s(s):
        k = s[0]
        N, S = Gen.norm_e, Gen.norm_s
        if k == 'asg':
            return (k, s[1], s[2], N(s[3], True))
        if k == 'mod':
            return (k, s[1], N(s[2], True))
        if k == 'opa':
            return (k, s[1], s[2], N(s[3], False))
        if k in ('print', 'expr'):
            return (k, N(s[1], True))
        if k == 'assert':
            return (k, N(s[1], True)) + tuple(s[2:])
        if k == 'if':
            return (k, N(s[1], True), [S(x) for x in s[2]])
        if k == 'ifelse':
            return (k, N(s[1], True), [S(x) for x in s[2]], [S(x) for x in s[3]])
        if k == 'ifelif':
            return (k, N(s[1], True), [S(x) for x in s[2]], S(s[3]))
        if k == 'while':
            return (k, N(s[1], True), [S(x) for x in s[2]])
        if k == 'from':
            return (k, N(s[1], True), N(s[2], True), s[3], N(s[4], True) if s[4] is not None else None, s[5], s[6], [S(x) for x in s[7]])
        if k == 'ret':
            return (k, N(s[1], True) if s[1] is not None else None)
        return s

    def program(self, n_stmts=None):
        return [Gen.norm_s(s) for s in self.program_raw(n_stmts)]

    def program_raw(self, n_stmts=None):
        r = self.r
        env = [{}]
        out = []
        for _ in range(r.randint(1, 3)):
            t = r.choice(['int', 'int', 'bool', 'str'])
            x = self.fresh('g')
            out.append(('asg', x, t, self.lit(t)))
            env[0][x] = t
        for _ in range(r.randint(0, 3)):
            rec = r.random() < 0.3
            name, ptys, ret, fn = self.function(env, recursive=rec)
            out.append(('asg', name, None, fn))
            env[0][name] = ('fn', tuple(ptys), ret)
            self.funcs.append((name, ptys, ret, rec))
        for _ in range(n_stmts if n_stmts is not None else r.randint(2, 7)):
            out += self.stmt(env, self.max_depth, 0, None)
        return out


# ---------------------------------------------------------------- rendering: .ms
def esc(s):
    return s.replace('\\', '\\\\').replace('"', '\\"').replace('\n', '\\n').replace('\t', '\\t')


MINIMAL_PARENS = False      # when True, expressions are rendered with only the parentheses precedence requires
PREC = {'or': 1, 'and': 2, '<': 3, '<=': 3, '>': 3, '>=': 3, '==': 3, '!=': 3, '+': 6, '-': 6, '*': 7, '/': 7, '%': 7}


def ms_expr(e, top=False, need=0):
    """need = the lowest operator level that may appear here without parentheses (left-associative infix
    operators: the right operand needs one level more).  Levels follow compiler/src/ast/math_expr.rs PRATT_PARSER:
    || (1) < && (2) < comparisons (3) < + - (6) < * / % (7) < prefix ! - (8) < postfix."""
    k = e[0]
    if k == 'int':
        return str(e[1])
    if k == 'bool':
        return 'true' if e[1] else 'false'
    if k == 'str':
        return '"%s"' % esc(e[1])
    if k == 'nil':
        return 'nil'
    if k == 'var':
        return e[1]
    if k in ('bin', 'and', 'or'):
        if k == 'bin':
            op, a, b = e[1], e[2], e[3]
            lvl = PREC[op]
        else:
            op, a, b = ('&&' if k == 'and' else '||'), e[1], e[2]
            lvl = PREC[k]
        if not MINIMAL_PARENS:
            return '(%s %s %s)' % (ms_expr(a), op, ms_expr(b))
        txt = '%s %s %s' % (ms_expr(a, False, lvl), op, ms_expr(b, False, lvl + 1))
        return '(%s)' % txt if lvl < need else txt
    if k == 'not':
        return '!%s' % ms_expr(e[1], False, 8)
    if k == 'neg':
        return '-%s' % ms_expr(e[1], False, 8)
    if k == 'call':
        return '%s(%s)' % (ms_expr(e[1], False, 9), ', '.join(ms_expr(a) for a in e[2]))
    if k == 'self':
        return 'self(%s)' % ', '.join(ms_expr(a) for a in e[1])
    if k == 'fn':
        ps = ', '.join('%s: %s' % (n, ms_type(t)) for n, t in e[1])
        ret = ' -> %s' % ms_type(e[2]) if e[2] is not None else ''
        return 'fn(%s)%s {\n%s\n}' % (ps, ret, ms_block(e[3], 1))
    if k == 'nilor':
        return '((%s) or %s)' % (ms_expr(e[1]), ms_expr(e[2]))
    if k == 'get':
        return '(get %s)' % ms_expr(e[1], False, 9)
    raise ValueError(k)


def ms_type(t):
    if isinstance(t, tuple) and t[0] == 'fn':
        return 'fn(%s)%s' % (', '.join(ms_type(x) for x in t[1]), (' -> ' + ms_type(t[2])) if t[2] is not None else '')
    if isinstance(t, tuple) and t[0] == 'opt':
        return ms_type(t[1]) + '?'
    return t


def ms_stmt(s, ind):
    p = '  ' * ind
    k = s[0]
    if k == 'asg':
        if s[2] is not None:
            return '%s%s: %s = %s' % (p, s[1], ms_type(s[2]), ms_expr(s[3], True))
        return '%s%s = %s' % (p, s[1], ms_expr(s[3], True))
    if k == 'mod':
        return '%smodify %s = %s' % (p, s[1], ms_expr(s[2], True))
    if k == 'opa':
        return '%s%s %s= %s' % (p, s[1], s[2], ms_expr(s[3], True))
    if k == 'print':
        return '%sprint %s' % (p, ms_expr(s[1], True))
    if k == 'assert':
        return '%sassert %s' % (p, ms_expr(s[1], True))
    if k == 'expr':
        if s[1][0] == 'get':
            # a statement may not start with `(`: it would continue the previous statement's expression as a call
            return '%sget %s' % (p, ms_expr(s[1][1], False, 9))
        return '%s%s' % (p, ms_expr(s[1], True))
    if k == 'if':
        return '%sif %s {\n%s\n%s}' % (p, ms_expr(s[1]), ms_block(s[2], ind + 1), p)
    if k == 'ifelse':
        return '%sif %s {\n%s\n%s} else {\n%s\n%s}' % (p, ms_expr(s[1]), ms_block(s[2], ind + 1), p, ms_block(s[3], ind + 1), p)
    if k == 'ifelif':
        return '%sif %s {\n%s\n%s} else %s' % (p, ms_expr(s[1]), ms_block(s[2], ind + 1), p, ms_stmt(s[3], ind).lstrip())
    if k == 'while':
        return '%swhile %s {\n%s\n%s}' % (p, ms_expr(s[1]), ms_block(s[2], ind + 1), p)
    if k == 'from':
        _, a, b, incl, step, name, collide, body = s
        h = 'from %s %s %s' % (ms_expr(a), 'through' if incl else 'to', ms_expr(b))
        if step is not None:
            h += ' step %s' % ms_expr(step)
        if name is not None:
            h += ', %s' % name
        return '%s%s {\n%s\n%s}' % (p, h, ms_block(body, ind + 1), p)
    if k == 'break':
        return p + 'break'
    if k == 'continue':
        return p + 'continue'
    if k == 'ret':
        return p + ('return' if s[1] is None else 'return %s' % ms_expr(s[1], True))
    raise ValueError(k)


def ms_block(ss, ind):
    return '\n'.join(ms_stmt(s, ind) for s in ss)


def render_ms(prog):
    return ms_block(prog, 0) + '\n'


# ---------------------------------------------------------------- spans of assert / get (line:col as the compiler reports)
def assign_spans(prog, fname):
    """after rendering, find each `assert` / `get` keyword position: returns the program with spans filled
    (stmt ('assert', e, span), expr ('get', a, span)) by scanning the rendered text in order"""
    text = render_ms(prog)
    import re
    positions = []
    for ln, line in enumerate(text.split('\n'), 1):
        for m in re.finditer(r'\bassert\b|\bget\b', line):
            # `assert` reports the statement, `get` the operand that follows the keyword
            col = m.start() + 1 + (4 if m.group(0) == 'get' else 0)
            positions.append((m.group(0), '%s:%d:%d' % (fname, ln, col)))
    it = {'assert': iter([p for k, p in positions if k == 'assert']), 'get': iter([p for k, p in positions if k == 'get'])}

    def fe(e):
        k = e[0]
        if k == 'get':
            a = fe(e[1])
            return ('get', a, next(it['get']))
        if k in ('bin',):
            return (k, e[1], fe(e[2]), fe(e[3]))
        if k in ('and', 'or', 'nilor'):
            return (k, fe(e[1]), fe(e[2]))
        if k in ('not', 'neg'):
            return (k, fe(e[1]))
        if k == 'call':
            return (k, fe(e[1]), [fe(a) for a in e[2]])
        if k == 'self':
            return (k, [fe(a) for a in e[1]])
        if k == 'fn':
            return (k, e[1], e[2], [fs(s) for s in e[3]])
        return e

    def fs(s):
        k = s[0]
        if k == 'asg':
            return (k, s[1], s[2], fe(s[3]))
        if k == 'mod':
            return (k, s[1], fe(s[2]))
        if k == 'opa':
            return (k, s[1], s[2], fe(s[3]))
        if k in ('print', 'expr'):
            return (k, fe(s[1]))
        if k == 'assert':
            sp = next(it['assert'])
            return (k, fe(s[1]), sp)
        if k == 'if':
            return (k, fe(s[1]), [fs(x) for x in s[2]])
        if k == 'ifelse':
            return (k, fe(s[1]), [fs(x) for x in s[2]], [fs(x) for x in s[3]])
        if k == 'ifelif':
            return (k, fe(s[1]), [fs(x) for x in s[2]], fs(s[3]))
        if k == 'while':
            return (k, fe(s[1]), [fs(x) for x in s[2]])
        if k == 'from':
            return (k, fe(s[1]), fe(s[2]), s[3], fe(s[4]) if s[4] is not None else None, s[5], s[6], [fs(x) for x in s[7]])
        if k == 'ret':
            return (k, fe(s[1]) if s[1] is not None else None)
        return s
    # NOTE: order of traversal = textual order for assert statements; `get` inside expressions likewise
    return [fs(s) for s in prog]


# ---------------------------------------------------------------- rendering: tokens for the OCaml driver
def hx(s):
    b = s.encode('utf8')
    return b.hex() if b else '-'


def tok_expr(e, out):
    k = e[0]
    if k == 'int':
        out += ['I', str(e[1])]
    elif k == 'bool':
        out += ['B', '1' if e[1] else '0']
    elif k == 'str':
        out += ['S', hx(e[1])]
    elif k == 'nil':
        out += ['N']
    elif k == 'var':
        out += ['V', hx(e[1])]
    elif k == 'bin':
        out += ['bin', OPNAME[e[1]]]
        tok_expr(e[2], out)
        tok_expr(e[3], out)
    elif k in ('and', 'or', 'nilor'):
        out += [k]
        tok_expr(e[1], out)
        tok_expr(e[2], out)
    elif k in ('not', 'neg'):
        out += [k]
        tok_expr(e[1], out)
    elif k == 'call':
        out += ['call']
        tok_expr(e[1], out)
        out += [str(len(e[2]))]
        for a in e[2]:
            tok_expr(a, out)
    elif k == 'self':
        out += ['self', str(len(e[1]))]
        for a in e[1]:
            tok_expr(a, out)
    elif k == 'fn':
        out += ['fn', str(len(e[1]))] + [hx(n) for n, _ in e[1]] + [str(len(e[3]))]
        for s in e[3]:
            tok_stmt(s, out)
    elif k == 'get':
        out += ['get']
        tok_expr(e[1], out)
        out += [hx(e[2] if len(e) > 2 else '')]
    else:
        raise ValueError(k)


def tok_block(ss, out):
    out += [str(len(ss))]
    for s in ss:
        tok_stmt(s, out)


def tok_stmt(s, out):
    k = s[0]
    if k == 'asg':
        out += ['asg', hx(s[1])]
        tok_expr(s[3], out)
    elif k == 'mod':
        out += ['mod', hx(s[1])]
        tok_expr(s[2], out)
    elif k == 'opa':
        out += ['opa', hx(s[1]), OPNAME[s[2]]]
        tok_expr(s[3], out)
    elif k in ('print', 'expr'):
        out += [k]
        tok_expr(s[1], out)
    elif k == 'assert':
        out += ['assert']
        tok_expr(s[1], out)
        out += [hx(s[2] if len(s) > 2 else '')]
    elif k == 'if':
        out += ['if']
        tok_expr(s[1], out)
        tok_block(s[2], out)
    elif k == 'ifelse':
        out += ['ifelse']
        tok_expr(s[1], out)
        tok_block(s[2], out)
        tok_block(s[3], out)
    elif k == 'ifelif':
        out += ['ifelif']
        tok_expr(s[1], out)
        tok_block(s[2], out)
        tok_stmt(s[3], out)
    elif k == 'while':
        out += ['while']
        tok_expr(s[1], out)
        tok_block(s[2], out)
    elif k == 'from':
        _, a, b, incl, step, name, collide, body = s
        out += ['from']
        tok_expr(a, out)
        tok_expr(b, out)
        out += ['1' if incl else '0']
        if step is None:
            out += ['nostep']
        else:
            out += ['step']
            tok_expr(step, out)
        out += ['anon'] if name is None else ['named', hx(name)]
        out += ['1' if collide else '0']
        tok_block(body, out)
    elif k in ('break', 'continue'):
        out += [k]
    elif k == 'ret':
        if s[1] is None:
            out += ['ret0']
        else:
            out += ['ret']
            tok_expr(s[1], out)
    else:
        raise ValueError(k)


def render_tokens(prog):
    out = []
    tok_block(prog, out)
    return ' '.join(out)


# ---------------------------------------------------------------- exhaustive statement skeletons (C01 / C09)
def skeletons(depth, in_loop, in_fn, counter=[0]):
    """all nesting shapes up to `depth` over {if, if/else, else-if chain, while, from (to/through, step,
    named/anonymous), break, continue, return, expression statement/call, print}.  Yields lists of stmts.
    Variables available: n (int parameter / module variable), k (int)."""
    leaves = [[('print', ('var', 'n'))], [('expr', ('call', ('var', 'h'), [('var', 'n')]))]]
    if in_loop:
        leaves += [[('break',)], [('continue',)]]
    if in_fn:
        leaves += [[('ret', ('bin', '+', ('var', 'n'), ('int', 1)))]]
    for l in leaves:
        yield l
    if depth == 0:
        return
    def fresh(p):
        counter[0] += 1
        return '%s%d' % (p, counter[0])
    conds = [('bin', '<', ('var', 'n'), ('int', 2)), ('bin', '==', ('var', 'k'), ('int', 1))]
    for child in skeletons(depth - 1, in_loop, in_fn, counter):
        tail = [] if child[-1][0] in ('break', 'continue', 'ret') else [('asg', 'k', None, ('bin', '+', ('var', 'k'), ('int', 1)))]
        body = child + tail
        yield [('if', conds[0], body)]
        yield [('ifelse', conds[1], body, [('print', ('var', 'k'))])]
        yield [('ifelse', conds[0], [('print', ('str', 'then'))], body)]
        yield [('ifelif', conds[0], [('print', ('str', 'a'))], ('ifelse', conds[1], body, [('print', ('str', 'c'))]))]
    for child in skeletons(depth - 1, True, in_fn, counter):
        tail = [] if child[-1][0] in ('break', 'continue', 'ret') else [('print', ('var', 'k'))]
        w = fresh('w')
        yield [('asg', w, None, ('int', 0)),
               ('while', ('bin', '<', ('var', w), ('int', 3)),
                [('asg', w, None, ('bin', '+', ('var', w), ('int', 1))), ('asg', 'k', None, ('var', w))] + child + tail)]
        j = fresh('j')
        yield [('from', ('int', 0), ('int', 3), False, None, j, False, [('asg', 'k', None, ('var', j))] + child + tail)]
        yield [('from', ('int', 1), ('var', 'n'), True, ('int', 2), None, False, [('asg', 'k', None, ('bin', '+', ('var', 'k'), ('int', 1)))] + child + tail)]
        j2 = fresh('j')
        yield [('from', ('int', 0), ('int', 4), False, ('bin', '+', ('bin', '*', ('var', 'n'), ('int', 0)), ('int', 2)), j2, False, [('asg', 'k', None, ('var', j2))] + child + tail)]


def skeleton_programs(depth, per_file=12):
    """pack skeletons into programs: each skeleton once as a function body and once at module level"""
    out = []
    fn_bodies = list(skeletons(depth, False, True, [0]))
    mod_bodies = list(skeletons(depth, False, False, [0]))
    helper = ('asg', 'h', None, ('fn', [('x', 'int')], 'int', [('ret', ('bin', '*', ('var', 'x'), ('int', 2)))]))
    tail_loop = ('asg', 'tl', None, ('fn', [('n', 'int')], None, [
        ('asg', 'k', 'int', ('int', 0)),
        ('while', ('bool', True), [('asg', 'k', None, ('bin', '+', ('var', 'k'), ('int', 1))),
                                   ('ifelse', ('bin', '>', ('var', 'k'), ('var', 'n')), [('print', ('var', 'k')), ('break',)], [('continue',)])])]))
    for start in range(0, len(fn_bodies), per_file):
        prog = [('asg', 'n', 'int', ('int', 1)), ('asg', 'k', 'int', ('int', 0)), helper, tail_loop,
                ('expr', ('call', ('var', 'tl'), [('int', 2)]))]
        names = []
        for i, b in enumerate(fn_bodies[start:start + per_file]):
            fname = 'f%d' % i
            body = [('asg', 'k', 'int', ('int', 0))] + b
            if body[-1][0] != 'ret':
                body = body + [('ret', ('var', 'k'))]
            prog.append(('asg', fname, None, ('fn', [('n', 'int')], 'int', body)))
            names.append(fname)
        for fname in names:
            for arg in (0, 1, 3):
                prog.append(('print', ('call', ('var', fname), [('int', arg)])))
        out.append(prog)
    for start in range(0, len(mod_bodies), per_file):
        prog = [('asg', 'n', 'int', ('int', 1)), ('asg', 'k', 'int', ('int', 0)), helper]
        for b in mod_bodies[start:start + per_file]:
            prog += b
            prog.append(('asg', 'n', None, ('bin', '+', ('var', 'n'), ('int', 1))))
        out.append(prog)
    return out


def precedence_programs(per_file=10):
    """every ordered pair of infix operators (and each prefix operator with each infix operator) in both tree shapes,
    as a function of its leaves called on value tuples that tell the two parses apart; meant to be rendered with
    MINIMAL_PARENS so that the PARSER has to rebuild the tree from the precedence table"""
    bool_ops = [('or',), ('and',)]
    cmp_ops = [('bin', o) for o in ('<', '<=', '>', '>=', '==', '!=')]
    ar_ops = [('bin', o) for o in ('+', '-', '*', '/', '%')]

    def sig(op):
        if op in bool_ops:
            return ('bool', 'bool')
        if op in cmp_ops:
            return ('int', 'bool')
        return ('int', 'int')

    def mk(op, a, b):
        return (op[0], a, b) if op[0] in ('and', 'or') else ('bin', op[1], a, b)

    def ev(e, env):
        k = e[0]
        if k == 'var':
            return env[e[1]]
        if k == 'not':
            return not ev(e[1], env)
        if k == 'neg':
            return -ev(e[1], env)
        if k == 'and':
            return ev(e[1], env) and ev(e[2], env)
        if k == 'or':
            return ev(e[1], env) or ev(e[2], env)
        a, b = ev(e[2], env), ev(e[3], env)
        o = e[1]
        if o in ('/', '%'):
            if b == 0:
                raise ZeroDivisionError
            q = abs(a) // abs(b) * (1 if (a < 0) == (b < 0) else -1)
            return q if o == '/' else a - q * b
        return {'+': a + b, '-': a - b, '*': a * b, '<': a < b, '<=': a <= b, '>': a > b, '>=': a >= b, '==': a == b, '!=': a != b}[o]

    trees = []
    ops = bool_ops + cmp_ops + ar_ops
    for o1 in ops:
        for o2 in ops:
            for shape in (0, 1):
                # shape 0: o1(A, o2(B, C))   shape 1: o1(o2(A, B), C)
                in1, out1 = sig(o1)
                in2, out2 = sig(o2)
                if out2 != in1:
                    continue
                names = iter(['a', 'b', 'c'])
                leaves = []

                def leaf(t):
                    n = next(names)
                    leaves.append((n, t))
                    return ('var', n)
                if shape == 0:
                    x = leaf(in1)
                    inner = mk(o2, leaf(in2), leaf(in2))
                    trees.append((mk(o1, x, inner), list(leaves), out1))
                else:
                    inner = mk(o2, leaf(in2), leaf(in2))
                    trees.append((mk(o1, inner, leaf(in1)), list(leaves), out1))
        in1, out1 = sig(o1)
        pre = 'not' if in1 == 'bool' else 'neg'
        trees.append((mk(o1, (pre, ('var', 'a')), ('var', 'b')), [('a', in1), ('b', in1)], out1))
        trees.append((mk(o1, ('var', 'a'), (pre, ('var', 'b'))), [('a', in1), ('b', in1)], out1))
        if out1 in ('bool', 'int'):
            trees.append((('not' if out1 == 'bool' else 'neg', mk(o1, ('var', 'a'), ('var', 'b'))), [('a', in1), ('b', in1)], out1))
    ints = [(7, 3, 2), (2, 3, 7), (5, 5, 1), (1, 2, 3), (-7, 2, 3), (9, -4, 2), (0, 1, 1), (6, 2, 4)]
    out = []
    for start in range(0, len(trees), per_file):
        prog = []
        for i, (t, leaves, rt) in enumerate(trees[start:start + per_file]):
            f = 'p%d' % i
            prog.append(('asg', f, None, ('fn', leaves, rt, [('ret', t)])))
            import itertools
            doms = [([True, False] if ty == 'bool' else None) for _, ty in leaves]
            tuples = []
            for tr in ints:
                for bs in itertools.product([True, False], repeat=sum(1 for d in doms if d)):
                    bi = iter(bs)
                    ii = iter(tr)
                    vals = [next(bi) if d else next(ii) for d in doms]
                    if vals not in tuples:
                        tuples.append(vals)
            for vals in tuples:
                try:
                    ev(t, {n: v for (n, _), v in zip(leaves, vals)})
                except ZeroDivisionError:
                    continue
                args = [('bool', v) if isinstance(v, bool) else ('int', v) for v in vals]
                prog.append(('print', ('call', ('var', f), args)))
        out.append(prog)
    return out


def boolean_chain_programs(per_file=8):
    """all bracketings of 3 logical operators over 4 boolean leaves x all choices of && / || (x an optional `!` on the
    nested group), each a function of its leaves called on all 16 truth assignments: short-circuit jumps that cross nested
    groups (`a && (b && c) && d`)"""
    import itertools
    V = lambda x: ('var', x)
    shapes = [lambda o: (o[0], (o[1], (o[2], 'a', 'b'), 'c'), 'd'),          # ((a.b).c).d
              lambda o: (o[0], (o[1], 'a', (o[2], 'b', 'c')), 'd'),          # (a.(b.c)).d
              lambda o: (o[0], (o[1], 'a', 'b'), (o[2], 'c', 'd')),          # (a.b).(c.d)
              lambda o: (o[0], 'a', (o[1], (o[2], 'b', 'c'), 'd')),          # a.((b.c).d)
              lambda o: (o[0], 'a', (o[1], 'b', (o[2], 'c', 'd')))]          # a.(b.(c.d))

    def build(t, neg_inner):
        if isinstance(t, str):
            return V(t)
        k, x, y = t
        bx, by = build(x, neg_inner), build(y, neg_inner)
        if neg_inner and not isinstance(y, str):
            by = ('not', by)
        return (k, bx, by)
    trees = []
    for sh in shapes:
        for ops in itertools.product(['and', 'or'], repeat=3):
            trees.append(build(sh(ops), False))
    for sh in shapes[1:]:
        for ops in (('and', 'and', 'and'), ('or', 'or', 'or'), ('and', 'or', 'and')):
            trees.append(build(sh(ops), True))
    out = []
    params = [(x, 'bool') for x in 'abcd']
    for start in range(0, len(trees), per_file):
        prog = []
        for i, t in enumerate(trees[start:start + per_file]):
            f = 'q%d' % i
            prog.append(('asg', f, None, ('fn', params, 'bool', [('ret', t)])))
            for vals in itertools.product([True, False], repeat=4):
                prog.append(('print', ('call', V(f), [('bool', v) for v in vals])))
        out.append(prog)
    return out


# ---------------------------------------------------------------- shrinking (delta debugging over statement lists)
def shrink(prog, still_fails, budget=150):
    """greedy: try dropping each statement / replacing a compound statement by its body, anywhere in the tree"""
    def variants(stmts):
        for i, s in enumerate(stmts):
            yield stmts[:i] + stmts[i + 1:]
            k = s[0]
            if k == 'if':
                yield stmts[:i] + list(s[2]) + stmts[i + 1:]
            elif k == 'ifelse':
                yield stmts[:i] + list(s[2]) + stmts[i + 1:]
                yield stmts[:i] + list(s[3]) + stmts[i + 1:]
            elif k == 'ifelif':
                yield stmts[:i] + list(s[2]) + stmts[i + 1:]
                yield stmts[:i] + [s[3]] + stmts[i + 1:]
            # recurse into bodies
            subs = []
            if k in ('if', 'while'):
                subs = [(2, s[2])]
            elif k == 'ifelse':
                subs = [(2, s[2]), (3, s[3])]
            elif k == 'ifelif':
                subs = [(2, s[2])]
            elif k == 'from':
                subs = [(7, s[7])]
            elif k == 'asg' and s[3][0] == 'fn':
                for v in variants(list(s[3][3])):
                    if v:
                        yield stmts[:i] + [('asg', s[1], s[2], ('fn', s[3][1], s[3][2], v))] + stmts[i + 1:]
            for idx, body in subs:
                for v in variants(list(body)):
                    if v:
                        ns = list(s)
                        ns[idx] = v
                        yield stmts[:i] + [tuple(ns)] + stmts[i + 1:]
            if k == 'ifelif':
                for v in variants([s[3]]):
                    if len(v) == 1 and v[0][0] in ('if', 'ifelse', 'ifelif'):
                        yield stmts[:i] + [('ifelif', s[1], s[2], v[0])] + stmts[i + 1:]
    cur = list(prog)
    n = 0
    progress = True
    while progress and n < budget:
        progress = False
        for v in variants(cur):
            n += 1
            if n > budget:
                break
            try:
                if still_fails(v):
                    cur = v
                    progress = True
                    break
            except Exception:
                continue
    return cur
