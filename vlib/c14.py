"""C14: string and number built-in methods compute their documented function.

Per call  receiver.method(args)  three things are compared with what the real `mscript run` prints
(typed print: kind + value, floats by bit pattern) or how it stops:
  A. the Coq impl-model (Builtins/StrImpl.v, NumBuiltins.v, ParseFloat.v; extracted)   -> correspondence
  B. the Coq specification (Builtins/StrSpec.v, NumBuiltins.v spec_*; extracted)       -> the property
  C. an independent oracle written with Python's own str/bytes/int/fractions (below)    -> the property
plus the declared result type (`typeof call`) against the Coq table `declared` (get_property_type).
Fixed families next to the call stream: string histories, positions, constant string expressions (repetition /
concatenation / const) indexed at every valid position and one past the end (const_string_cases), `+=` / `*=` on a
str held in a variable, list element, object field, map value (str_compound_cases)."""
import ctypes, math, os, re, shutil, struct
from fractions import Fraction
from . import core, programs, extract

I32_MIN, I32_MAX = -2**31, 2**31 - 1
I128_MIN, I128_MAX = -2**127, 2**127 - 1
USIZE_MAX, ISIZE_MAX = 2**64 - 1, 2**63 - 1
NAN_BITS = 0x7ff8000000000000

# ----------------------------------------------------------------------------- values

def V(kind, x=None):
    return (kind, x)


def f2b(x):
    return struct.unpack("<Q", struct.pack("<d", x))[0]


def b2f(b):
    return struct.unpack("<d", struct.pack("<Q", b))[0]


def canon_bits(b):
    return NAN_BITS if (b & 0x7ff0000000000000) == 0x7ff0000000000000 and (b & 0xfffffffffffff) else b


def sbin(z):
    return ("-" if z < 0 else "") + format(abs(z), "b")


def cps(s):
    return ".".join(str(ord(c)) for c in s) if s else "-"


def uncps(t):
    return "" if t in ("-", "") else "".join(chr(int(x)) for x in t.split("."))


def enc_val(v):
    k, x = v
    if k == "int":
        return "i:" + sbin(x)
    if k == "big":
        return "B:" + sbin(x)
    if k == "byte":
        return "y:" + sbin(x)
    if k == "float":
        return "f:" + format(x, "b")
    if k == "str":
        return "s:" + cps(x)
    if k == "bool":
        return "b:%d" % (1 if x else 0)
    raise ValueError(v)


def dec_val(t):
    if t == "nil":
        return V("nil")
    if t.startswith("v["):
        inner = t[2:-1]
        return V("vec", [dec_val(x) for x in inner.split(";")] if inner else [])
    k, r = t[:2], t[2:]
    if k in ("i:", "B:", "y:"):
        return V({"i:": "int", "B:": "big", "y:": "byte"}[k], int(r, 2))
    if k == "f:":
        return V("float", canon_bits(int(r, 2)))
    if k == "s:":
        return V("str", uncps(r))
    if k == "b:":
        return V("bool", r == "1")
    raise ValueError(t)


TAG = {"int": "Int", "big": "BigInt", "byte": "Byte", "bool": "Bool", "str": "Str", "nil": "Nil", "vec": "Vector"}


def plain(v, depth):
    """Primitive::fmt_recursive (floats: None = text not predicted)"""
    k, x = v
    if k in ("int", "big"):
        return str(x)
    if k == "byte":
        return "0b" + format(x, "b")
    if k == "bool":
        return "true" if x else "false"
    if k == "str":
        return '"%s"' % x if depth else x
    if k == "nil":
        return "nil"
    if k == "opt":
        return plain(x, depth)
    if k == "vec":
        return "[" + ", ".join(plain(e, depth + 1) for e in x) + "]"
    if k == "float":
        return rust_float_display(b2f(x))
    raise ValueError(v)


def typed(v):
    """what `print v` shows under MSCRIPT_VERIF_TYPED_PRINT: (tag, payload) ; payload None for floats"""
    k, x = v
    if k == "float":
        return ("<Float:%016x>" % x, None)
    if k == "opt":
        t, p = typed(x)
        return ("<Optional>" + t, p)
    return ("<%s>" % TAG[k], plain(v, 0))


FLOAT_TAG = re.compile(r"^((?:<Optional>)*)<Float:([0-9a-f]{16})>")


def parse_typed(text):
    """real output -> canonical (tag, payload); float payload dropped, NaNs unified"""
    m = FLOAT_TAG.match(text)
    if m:
        return (m.group(1) + "<Float:%016x>" % canon_bits(int(m.group(2), 16)), None)
    m = re.match(r"^((?:<[A-Za-z]+>)+)", text)
    if not m:
        return ("?", text)
    return (m.group(1), text[m.end():])


def canon_typed(tp):
    tag, p = tp
    m = FLOAT_TAG.match(tag)
    if m:
        return (m.group(1) + "<Float:%016x>" % canon_bits(int(m.group(2), 16)), None)
    return tp


# ----------------------------------------------------------------------------- Rust float Display (oracle C only)

def _shortest_half_up(a):
    """shortest decimal text that reads back as the float `a` (>= 0), as Python's repr, except that when the exact
    value lies exactly half way between two such texts the one of larger magnitude is taken (Rust's Display does
    that; Python's repr takes the even digit).  Both read back as the same float."""
    import decimal
    r = repr(a)
    if a == 0 or "inf" in r or "nan" in r:
        return r
    mant, _, e = r.partition("e")
    nd = len(mant.replace(".", "").lstrip("0")) or 1
    d = decimal.Decimal(a)
    with decimal.localcontext() as c:
        c.prec = nd
        c.rounding = decimal.ROUND_HALF_UP
        q = +d
    if float(q) != a or q == decimal.Decimal(r):
        return r
    sgn, digs, ex = q.as_tuple()
    digits = "".join(map(str, digs)).rstrip("0") or "0"
    ex += len(digs) - len(digits)
    # write as repr would: d.ddde+XX when repr used an exponent, positional otherwise
    if e:
        return digits[0] + ("." + digits[1:] if len(digits) > 1 else "") + "e%+03d" % (ex + len(digits) - 1)
    if ex >= 0:
        return digits + "0" * ex + ".0"
    if -ex >= len(digits):
        return "0." + "0" * (-ex - len(digits)) + digits
    return digits[:ex] + "." + digits[ex:]


def rust_float_display(x):
    if x != x:
        return "NaN"
    if x in (float("inf"), float("-inf")):
        return "inf" if x > 0 else "-inf"
    r = _shortest_half_up(abs(x))
    sign = "-" if math.copysign(1.0, x) < 0 else ""
    if "e" in r:
        mant, e = r.split("e")
        e = int(e)
        if "." in mant:
            a, b = mant.split(".")
        else:
            a, b = mant, ""
        digits = a + b
        point = len(a) + e
        if point <= 0:
            r = "0." + "0" * (-point) + digits
        elif point >= len(digits):
            r = digits + "0" * (point - len(digits))
        else:
            r = digits[:point] + "." + digits[point:]
    if r.endswith(".0"):
        r = r[:-2]
    return sign + r


# ----------------------------------------------------------------------------- .ms rendering

def ms_str(s):
    out = []
    for c in s:
        out.append({"\\": "\\\\", '"': '\\"', "\n": "\\n", "\t": "\\t", "\r": "\\r"}.get(c, c))
    return '"' + "".join(out) + '"'


def ms_expr(v):
    k, x = v
    if k == "int":
        if x == I32_MIN:
            return "(-2147483647 - 1)"
        return str(x) if x >= 0 else "(-%d)" % -x
    if k == "big":
        if x == I128_MIN:
            return "(B0 - B%d - B1)" % I128_MAX
        return "B%d" % x if x >= 0 else "(B0 - B%d)" % -x
    if k == "byte":
        return "0b" + format(x, "b")
    if k == "bool":
        return "true" if x else "false"
    if k == "str":
        return ms_str(x)
    if k == "float":
        f = b2f(x)
        r = repr(f)
        if f == f and "e" not in r and "inf" not in r and not r.startswith("-") and len(r) < 25:
            return r
        if f != f:
            r = "NaN"
        return '(get "%s".parse_float())' % r
    raise ValueError(v)


ARITY = {"len": 0, "substring": 2, "contains": 1, "index_of": 1, "reverse": 0, "insert": 2, "replace": 2, "delete": 2,
         "split": 1, "chars": 0, "parse_int": 0, "parse_int_radix": 1, "parse_bigint": 0, "parse_bigint_radix": 1,
         "parse_float": 0, "parse_bool": 0, "parse_byte": 0, "to_int": 0, "to_bigint": 0, "to_byte": 0, "to_float": 0,
         "abs": 0, "pow": 1, "powf": 1, "sqrt": 0, "floor": 0, "ceil": 0, "round": 0, "ipart": 0, "fpart": 0,
         "to_str": 0, "to_ascii": 0}


def call_expr(method, names):
    if method == "index":
        return "%s[%s]" % (names[0], names[1])
    if method == "repeat":
        return "%s * %s" % (names[0], names[1])
    if method == "concat":
        return "%s + %s" % (names[0], names[1])
    return "%s.%s(%s)" % (names[0], method, ", ".join(names[1:]))


def block(k, case):
    method, args = case
    names = ["%s%d" % ("abcd"[i], k) for i in range(len(args))]
    lines = ['print "@@%d"' % k]
    if method == "index_lit":
        # s[<literal>]: the index is written into the vec_op instruction and parsed there
        args, names, lit = args[:1], names[:1], args[1][1]
    for n, a in zip(names, args):
        lines.append("%s = %s" % (n, ms_expr(a)))
    for n in names:
        lines.append("print %s" % n)
    lines.append('print "@="')
    if method == "index_lit":
        lines.append("print %s[%d]" % (names[0], lit))
    else:
        lines.append("print " + call_expr(method, names))
    return "\n".join(lines) + "\n"


def expected_echo(case):
    args = case[1][:1] if case[0] == "index_lit" else case[1]
    return [canon_typed(typed(a)) for a in args]


# ----------------------------------------------------------------------------- running the real implementation

MARK = re.compile(r"^<Str>@@(\d+)$")


def run_batch(binary, base, cases, idxs):
    """runs cases[idxs] as one program; returns {idx: observation}; observation =
       ('ok', (tag, payload)) | ('err',) | ('panic', reason) | ('setup', text) | ('rejected', diag) ;
       indices after a failing call are absent (not executed)"""
    src = "".join(block(i, cases[i]) for i in idxs)
    d = programs.materialize({"files": {"t.ms": src}}, base)
    rc, out, err = programs.run_bin(binary, ["run", "t.ms", "-q"], d, {"MSCRIPT_VERIF_TYPED_PRINT": "1"}, timeout=60)
    import shutil
    shutil.rmtree(d, ignore_errors=True)
    if "Did not compile" in err or (rc != 0 and not out and "panicked" not in err and "RUNTIME ERROR" not in err):
        return {"compile_error": err[-1500:], "rc": rc}
    lines = out.split("\n")
    if lines and lines[-1] == "":
        lines.pop()
    blocks, cur = [], None
    for ln in lines:
        m = MARK.match(ln)
        if m:
            cur = (int(m.group(1)), [])
            blocks.append(cur)
        elif cur is not None:
            cur[1].append(ln)
    res = {}
    for n, (i, body) in enumerate(blocks):
        last = n == len(blocks) - 1
        if "<Str>@=" in body:
            p = body.index("<Str>@=")
            echo, result = body[:p], body[p + 1:]
        else:
            echo, result = body, None
        if result is None or (last and rc != 0 and not result):
            if result is None:
                # stopped while evaluating the arguments
                res[i] = ("setup", "\n".join(echo)[-300:] + " | " + err[-300:])
            elif rc == 101 or "panicked at" in err:
                m = re.search(r"panicked at ([^\n]*)\n([^\n]*)", err)
                res[i] = ("panic", panic_site(m.group(1), m.group(2)) if m else "panic")
            elif rc == 124:
                res[i] = ("timeout",)
            else:
                res[i] = ("err",)
            continue
        # echo check: the arguments really are the intended values
        exp = expected_echo(cases[i])
        got = split_echo(echo, exp)
        if got != exp:
            res[i] = ("setup", "arguments echoed as %r, intended %r" % (got, exp))
            continue
        res[i] = ("ok", parse_typed("\n".join(result)))
    return res


def panic_site(where, msg):
    """canonical site of a panic: source file:line (library paths shortened) + the message without the data"""
    where = re.sub(r"^/rustc/[0-9a-f]+/", "", where)
    where = ":".join(where.split(":")[:2])
    msg = re.split(r" of `|; it is inside| when slicing `", msg)[0]
    msg = re.sub(r"\d+", "N", msg)
    return "%s %s" % (where, msg[:120])


def split_echo(lines, exp):
    """echo lines -> typed values; a string argument may span several lines"""
    out, pos = [], 0
    for tag, payload in exp:
        if pos >= len(lines):
            return out
        n = 1 if payload is None else payload.count("\n") + 1
        out.append(parse_typed("\n".join(lines[pos:pos + n])))
        pos += n
    if pos != len(lines):
        out.append(("extra", "\n".join(lines[pos:])))
    return out


def string_histories(ctx, binary):
    """the receiver of len / indexing / substring is a VARIABLE with a history (built by +=, *=, re-assignment in a block
    or a loop): the methods must see the string the variable holds now (Python oracle)"""
    rng = ctx.rng
    base = ctx.mktemp()
    progs = []
    for _ in range(40 if ctx.quick() else 400):
        a = "".join(rng.choice("abcxyz") for _ in range(rng.randint(1, 4)))      # ASCII: byte and character positions coincide
        b = "".join(rng.choice("defuvw") for _ in range(rng.randint(1, 4)))
        k = rng.randint(2, 3)
        how = rng.choice(["+=", "*=", "block", "loop", "else", "fn"])
        if how == "+=":
            src, cur = 'q = "%s"\nq += "%s"\n' % (a, b), a + b
        elif how == "*=":
            src, cur = 'q = "%s"\nq *= %d\n' % (a, k), a * k
        elif how == "block":
            src, cur = 'q = "%s"\nif true {\n  q = "%s"\n}\n' % (a, a + b), a + b
        elif how == "else":
            src, cur = 'q = "%s"\nif q.len() > 99 {\n  q = "z"\n} else {\n  q = q + "%s"\n}\n' % (a, b), a + b
        elif how == "loop":
            src, cur = 'q = "%s"\nfrom 0 to %d {\n  q = q + "%s"\n}\n' % (a, k, b), a + b * k
        else:
            src, cur = 'q = "%s"\ngrow = fn(s: str) -> str {\n  return s + "%s"\n}\nq = grow(q)\n' % (a, b), a + b
        i = len(cur) - 1
        lo = rng.randint(0, len(cur) - 1)
        src += "print q.len()\nprint q[%d]\nprint q[0]\nprint q.substring(%d, %d)\nprint q.index_of(\"%s\")\n" % (i, lo, len(cur), cur[-1])
        exp = [str(len(cur)), cur[i], cur[0], cur[lo:], str(cur.index(cur[-1]))]
        progs.append((how, src, exp))

    def one(p):
        d = programs.materialize({"files": {"t.ms": p[1]}}, base)
        return programs.run_bin(binary, ["run", "t.ms", "-q"], d)
    n = 0
    for (how, src, exp), (rc, out, err) in zip(progs, programs.pmap(one, progs)):
        n += 1
        got = out.split("\n")[:-1]
        if rc != 0 or got != exp:
            ctx.report("string-history/%s" % how, "a string variable built by `%s`: len / index / substring / index_of give %r (exit %d), its value demands %r: %s" % (how, got, rc, exp, (out + err)[-200:].replace("\n", " ")),
                       {"program": src, "expected": exp, "observed": got, "rc": rc, "stderr": err[-500:], "how": "mscript run t.ms -q"})
    ctx.cov["string_history_programs"] = n
    return n


POSITION_TEXTS = ["abc", "hello world", "a", "éab", "aéb", "abé", "日本語x", "a😀b😀"]
POSITIONS_KNOWN = "string-positions/bytes-vs-characters"


def string_positions(ctx, binary):
    """ONE notion of position: the number `index_of` returns, the numbers below `len()` and the offsets `substring` takes
    denote the same places as the index of `s[i]` (property: each returns "the value its meaning defines"; a position has one
    meaning).  Probes, each its own program: s[get s.index_of(p)] is the first character of p; s[s.len() - 1] is the last
    character; s.substring(i, i + 1) == s[i] for every index i of s.  On ASCII text any deviation is a violation of its own
    class.  On multi-byte text the implementation mixes units (len / index_of / substring / insert / delete / split count
    UTF-8 bytes, `s[i]` counts characters): a deviation that is exactly what this mixture predicts is reported under the one
    class POSITIONS_KNOWN, anything else under the probe's own class."""
    base = ctx.mktemp()
    FAILS = ("<fail>",)
    progs = []
    for t in POSITION_TEXTS:
        e = t.encode("utf8")
        ascii_only = len(e) == len(t)
        lit = '"%s"' % t
        for c in sorted(set(t)):
            b = e.find(c.encode("utf8"))
            progs.append(("index-of-then-index", t, ascii_only, 's = %s\ni = get s.index_of("%s")\nprint s[i]\n' % (lit, c), [c], [t[b]] if b < len(t) else FAILS))
        progs.append(("len-minus-one", t, ascii_only, "s = %s\nprint s[s.len() - 1]\n" % lit, [t[-1]], [t[len(e) - 1]] if len(e) - 1 < len(t) else FAILS))
        for i in range(len(t)):
            cut = byte_cut(t, i) is not None and byte_cut(t, i + 1) is not None
            mixed = [("true" if e[i:i + 1].decode("utf8") == t[i] else "false")] if cut else FAILS
            progs.append(("substring-vs-index", t, ascii_only, "s = %s\ni = %d\nprint s.substring(i, i + 1) == s[i]\n" % (lit, i), ["true"], mixed))

    def one(p):
        d = programs.materialize({"files": {"t.ms": p[3]}}, base)
        return programs.run_bin(binary, ["run", "t.ms", "-q"], d)
    n = known = 0
    for (probe, t, ascii_only, src, exp, mixed), (rc, out, err) in zip(progs, programs.pmap(one, progs)):
        n += 1
        got = out.split("\n")[:-1]
        if rc == 0 and got == exp:
            continue
        if "Did not compile" in err:
            ctx.report("string-positions/rejected", "a position probe was rejected by the compiler: %s" % (out + err)[-300:], {"program": src, "stderr": (out + err)[-600:]}, found_input=False)
            continue
        stopped = rc == 1 and not got
        as_mixed = (not ascii_only) and ((mixed is FAILS and stopped) or (mixed is not FAILS and rc == 0 and got == list(mixed)))
        if as_mixed:
            known += 1
            if known > 3:
                continue
        ctx.report(POSITIONS_KNOWN if as_mixed else "string-positions/%s/%s" % (probe, "ascii" if ascii_only else "multi-byte"),
                   "positions in \"%s\" (%s): %s, one notion of position demands %r%s"
                   % (t, probe, "the program stops (exit %d): %s" % (rc, ([l.strip() for l in err.split("\n") if re.match(r"\s*\d+: ", l)] or [""])[-1][:120]) if rc != 0 else "printed %r" % got, exp,
                      "; len / index_of / substring count UTF-8 bytes while s[i] counts characters" if as_mixed else ""),
                   {"program": src, "expected": exp, "observed": got, "rc": rc, "stderr": err[-400:], "how": "mscript run t.ms -q"})
    ctx.cov["string_position_programs"] = n
    ctx.cov["string_position_programs_mixing_units"] = known
    return n


# ---- indexing a string whose text is fixed by a CONSTANT expression (literal, repetition, concatenation, a `const` bound to
# one): the compiler knows such a string's length and refuses a constant index beyond it, so the length it computes for
# `*` and `+` must be the length of the value.  Fixed family: every expression x (direct | const | const of const) x every
# valid position (constant index and index held in a variable) -> the character; one past the end -> no value.  ASCII only.
CONST_STR_EXPRS = [
    ('"abc"', "abc"), ('"ab" * 3', "ab" * 3), ('3 * "ab"', "ab" * 3), ('"=-" * 4', "=-" * 4), ('3 * "xyz"', "xyz" * 3), ('"ab" * B3', "ab" * 3), ('B2 * "abc"', "abc" * 2),
    ('"abc" * 1', "abc"), ('1 * "abc"', "abc"), ('"a" * 5', "aaaaa"), ('"ab" * 0', ""), ('0 * "ab"', ""), ('"" * 3', ""),
    ('"ab" + "cde"', "abcde"), ('"" + "cde"', "cde"), ('"ab" + ""', "ab"), ('"ab" + 7', "ab7"), ('7 + "ab"', "7ab"), ('"ab" + 123 + "c"', "ab123c"), ('"ab" + true', "abtrue"),
    ('"ab" * 2 + "c"', "ababc"), ('"c" + "ab" * 2', "cabab"), ('("ab" * 2) + ("cd" * 2)', "ababcdcd"), ('("a" + "bc") * 2', "abcabc"), ('2 * ("a" + "bc")', "abcabc"),
    ('("ab" * 2) * 2', "abababab"), ('2 * ("ab" * 2)', "abababab"), ('("ab" + "c") + ("d" * 3)', "abcddd"), ('"x" + "ab" * 2 + "y"', "xababy"), ('"ab" * (1 + 2)', "ababab"),
]
CONST_STR_FORMS = ["direct", "const", "const-of-const-plus", "const-of-const-times", "variable"]


def const_string_cases():
    """-> [(id, program, expected lines or None = must not yield a value)]"""
    out = []
    for expr, text in CONST_STR_EXPRS:
        for form in CONST_STR_FORMS:
            if form == "direct":
                pre, recv, cur = "", "(%s)" % expr, text
            elif form == "const":
                pre, recv, cur = "const bar = %s\n" % expr, "bar", text
            elif form == "const-of-const-plus":
                pre, recv, cur = 'const bar = %s\nconst baz = bar + "!?"\n' % expr, "baz", text + "!?"
            elif form == "const-of-const-times":
                pre, recv, cur = "const bar = %s\nconst baz = bar * 2\n" % expr, "baz", text * 2
            else:
                pre, recv, cur = "bar = %s\n" % expr, "bar", text          # a plain variable forgets the length: the run-time check decides
            body = pre + ("print %s.len()\n" % recv if form != "direct" else "")
            exp = [str(len(cur))] if form != "direct" else []
            for i in range(len(cur)):
                body += "print %s[%d]\n" % (recv, i)
                exp.append(cur[i])
            if cur:
                body += "k = %d\nprint %s[k]\n" % (len(cur) - 1, recv)
                exp.append(cur[-1])
            out.append(("%s/%s/valid-positions" % (expr, form), body, exp))
            out.append(("%s/%s/one-past-the-end" % (expr, form), pre + 'print "before"\nprint %s[%d]\nprint "after"\n' % (recv, len(cur)), None))
    return out


def constant_string_indexing(ctx, binary):
    base = ctx.mktemp()
    cases = const_string_cases()

    def one(c):
        d = programs.materialize({"files": {"t.ms": c[1]}}, base)
        r = programs.run_bin(binary, ["run", "t.ms", "-q"], d)
        shutil.rmtree(d, ignore_errors=True)
        return r
    n = 0
    for (cid, src, exp), (rc, out, err) in zip(cases, programs.pmap(one, cases)):
        n += 1
        got = out.split("\n")[:-1]
        rejected = "Did not compile successfully" in err
        why = [l.strip() for l in (out + err).splitlines() if l.strip().startswith("=")][:2]
        rep = {"case": cid, "program": src, "expected": exp, "observed": got, "rc": rc, "stderr": (out + err)[-500:], "how": "mscript run t.ms -q"}
        if exp is None:
            # outside the domain: a compile-time refusal or a run-time stop, never a value, never the statement after it
            if rejected and "before" not in got:
                continue
            if rc == 0 or got != ["before"]:
                ctx.report("constant-string-index/past-the-end-yields-value", "indexing the constant string %s one past its end: printed %r (exit %d); the index is outside the string, no value may be produced"
                           % (cid, got, rc), rep)
            continue
        if rejected:
            ctx.report("constant-string-index/valid-index-rejected", "indexing the constant string %s at a valid position is refused by the compiler: %s; every index below the length of the value is in the domain"
                       % (cid, why), rep)
        elif rc != 0 or got != exp:
            ctx.report("constant-string-index/wrong-character", "indexing the constant string %s: printed %r (exit %d), the value demands %r" % (cid, got, rc, exp), rep)
    ctx.cov["constant_string_index_programs"] = n
    return n


# ---- `+=` (concatenation) and `*=` (repetition) on a str, the target being a variable, a list element, an object field (from
# outside and through `self`), a map value; str and non-str right operands; applied twice (left-to-right accumulation)
STR_COMPOUND_TARGETS = ["variable", "element", "field", "self-field", "map-value"]
STR_COMPOUND_RHS = [("+", V("str", "X")), ("+", V("str", "")), ("+", V("str", "ab")), ("+", V("int", 7)), ("+", V("int", -3)), ("+", V("big", 12)), ("+", V("byte", 5)),
                    ("+", V("bool", True)), ("+", V("float", f2b(2.5))), ("*", V("int", 2)), ("*", V("int", 3)), ("*", V("int", 1)), ("*", V("int", 0)), ("*", V("big", 2)),
                    ("*", V("int", -1))]


def str_compound_cases():
    """-> [(id, program, expected typed lines or None = the program must stop)]"""
    out = []
    start = "cd"
    for op, rhs in STR_COMPOUND_RHS:
        for inline in (True, False):
            if not inline and rhs[0] not in ("str", "int"):
                continue
            for t in STR_COMPOUND_TARGETS:
                lit = ms_expr(rhs)
                ty = {"str": "str", "int": "int", "big": "bigint", "byte": "byte", "bool": "bool", "float": "float"}[rhs[0]]
                use = lit if inline else "y"
                step = (lambda cur: cur + plain(rhs, 0)) if op == "+" else (lambda cur: cur * rhs[1])
                fails = op == "*" and rhs[1] < 0
                # applied twice for `+` (an operand order mistake cannot hide behind a palindrome), then the other operator
                ops = [(op, use)] * (2 if op == "+" else 1) + ([("*", "2")] if op == "+" else [("+", '"-z"')])
                cur = start
                for o, u in ops:
                    cur = cur + plain(rhs, 0) if (o, u) == (op, use) and op == "+" else (cur * rhs[1] if (o, u) == (op, use) else (cur * 2 if o == "*" else cur + "-z"))
                pre = "" if inline else "y: %s = %s\n" % (ty, lit)
                if t == "variable":
                    src = pre + 's = "%s"\n' % start + "".join("s %s= %s\n" % ou for ou in ops) + "print s\nprint s.len()\n"
                    exp = ["<Str>" + cur, "<Int>%d" % len(cur)]
                elif t == "element":
                    src = pre + 'l: [str...] = ["ab", "%s"]\n' % start + "".join("l[1] %s= %s\n" % ou for ou in ops) + "r = l[1]\nprint r\nq = l[0]\nprint q\nprint r.len()\n"
                    exp = ["<Str>" + cur, "<Str>ab", "<Int>%d" % len(cur)]
                elif t == "field":
                    src = ('class Label {\n\ttext: str\n\tother: str\n\tconstructor(self) {\n\t\tself.text = "%s"\n\t\tself.other = "ab"\n\t}\n}\n' % start + pre + "o = Label()\n"
                           + "".join("o.text %s= %s\n" % ou for ou in ops) + "r = o.text\nprint r\nq = o.other\nprint q\nprint r.len()\n")
                    exp = ["<Str>" + cur, "<Str>ab", "<Int>%d" % len(cur)]
                elif t == "self-field":
                    meths = "".join("\tfn step%d(self%s) {\n\t\tself.text %s= %s\n\t}\n" % (j, "" if (inline or u != "y") else ", y: %s" % ty, o, u) for j, (o, u) in enumerate(ops))
                    calls = "".join("o.step%d(%s)\n" % (j, "" if (inline or u != "y") else "y") for j, (o, u) in enumerate(ops))
                    src = ('class Label {\n\ttext: str\n\tother: str\n\tconstructor(self) {\n\t\tself.text = "%s"\n\t\tself.other = "ab"\n\t}\n%s}\n' % (start, meths) + pre + "o = Label()\n"
                           + calls + "r = o.text\nprint r\nq = o.other\nprint q\nprint r.len()\n")
                    exp = ["<Str>" + cur, "<Str>ab", "<Int>%d" % len(cur)]
                else:
                    src = (pre + 'm = map[str, str]\nm["k"] = "%s"\nm["j"] = "ab"\n' % start + "".join('m["k"] %s= %s\n' % ou for ou in ops)
                           + 'r = m["k"]\nprint r\nq = m["j"]\nprint q\nprint r.len()\n')
                    exp = ["<Str>" + cur, "<Str>ab", "<Int>%d" % len(cur)]
                out.append(("str %s= %s (%s)/%s" % (op, lit, "literal" if inline else "variable", t), src, None if fails else exp))
    return out


def string_compound_targets(ctx, binary):
    base = ctx.mktemp()
    cases = str_compound_cases()

    def one(c):
        d = programs.materialize({"files": {"t.ms": c[1]}}, base)
        r = programs.run_bin(binary, ["run", "t.ms", "-q"], d, {"MSCRIPT_VERIF_TYPED_PRINT": "1"})
        shutil.rmtree(d, ignore_errors=True)
        return r
    n = 0
    for (cid, src, exp), (rc, out, err) in zip(cases, programs.pmap(one, cases)):
        n += 1
        got = out.split("\n")[:-1]
        rep = {"case": cid, "program": src, "expected": exp, "observed": got, "rc": rc, "stderr": (out + err)[-500:], "how": "MSCRIPT_VERIF_TYPED_PRINT=1 mscript run t.ms -q"}
        if "Did not compile successfully" in err:
            ctx.report("string-compound/rejected", "a fixed case of `+=` / `*=` on a str (%s) is rejected by the compiler: %s"
                       % (cid, [l.strip() for l in (out + err).splitlines() if l.strip().startswith("=")][:1]), rep, found_input=False)
        elif exp is None:
            if rc == 0 or got:
                ctx.report("string-compound/negative-count-yields-value", "%s: repetition by a negative count must stop the program; printed %r (exit %d)" % (cid, got, rc), rep)
        elif rc != 0 or got != exp:
            ctx.report("string-compound/" + cid.split("/")[-1], "%s: printed %r (exit %d); `s += t` is s followed by the text of t, `s *= n` is s repeated n times: %r" % (cid, got, rc, exp), rep)
    ctx.cov["string_compound_assignment_programs"] = n
    return n


def run_all(ctx, binary, cases, expect_fail, batch=120):
    """every case is executed exactly once (cases behind a stopping call are re-batched)"""
    base = ctx.mktemp()
    n = len(cases)
    okc = [i for i in range(n) if not expect_fail[i]]
    bad = [i for i in range(n) if expect_fail[i]]
    batches = [okc[j:j + batch] for j in range(0, len(okc), batch)]
    # one expected failure closes each batch; the rest run alone
    for b in batches:
        if bad:
            b.append(bad.pop())
    batches += [[i] for i in bad]
    obs, runs = {}, 0
    while batches:
        results = programs.pmap(lambda b: run_batch(binary, base, cases, b), batches)
        runs += len(batches)
        nxt = []
        for b, r in zip(batches, results):
            if "compile_error" in r:
                if len(b) == 1:
                    obs[b[0]] = ("rejected", r["compile_error"])
                else:
                    h = len(b) // 2
                    nxt += [b[:h], b[h:]]
                continue
            done = [i for i in b if i in r]
            for i in done:
                obs[i] = r[i]
            rest = [i for i in b if i not in r]
            if rest:
                if not done:
                    # nothing ran (e.g. a crash before the first marker)
                    if len(rest) == 1:
                        obs[rest[0]] = ("setup", "no output")
                    else:
                        h = len(rest) // 2
                        nxt += [rest[:h], rest[h:]]
                else:
                    nxt.append(rest)
        batches = nxt
    return obs, runs


# ----------------------------------------------------------------------------- Coq models (extracted)

def run_models(exe, cases):
    inp = "".join("%s\t%s\n" % ("index" if m == "index_lit" else m, "\t".join(enc_val(a) for a in args)) for m, args in cases)
    rc, out, err = core.sh([exe], inp=inp.encode(), timeout=1800)
    if rc != 0:
        raise core.BuildError("builtins model driver crashed rc=%s %s" % (rc, err.decode("utf8", "replace")[-600:]))
    res = []
    for line in out.decode().split("\n"):
        if not line:
            continue
        impl, head, spec = line.split("\t")
        res.append((dec_outcome(impl), dec_outcome(head), dec_outcome(spec)))
    assert len(res) == len(cases), (len(res), len(cases))
    return res


def dec_outcome(t):
    if t.startswith("OK ") or t.startswith("VAL "):
        return ("val", dec_val(t.split(" ", 1)[1]))
    if t.startswith("LIBM "):
        _, x, y = t.split(" ")
        return ("libm", int(x, 2), int(y, 2))
    return {"ERR": ("err",), "PANIC": ("panic",), "OUTSIDE": ("outside",), "FAIL": ("fail",), "UNSPEC": ("unspec",)}[t]


_libm = None


def libm_pow(xb, yb):
    global _libm
    if _libm is None:
        _libm = ctypes.CDLL("libm.so.6")
        _libm.pow.restype = ctypes.c_double
        _libm.pow.argtypes = [ctypes.c_double, ctypes.c_double]
    return canon_bits(f2b(_libm.pow(b2f(xb), b2f(yb))))


# ----------------------------------------------------------------------------- oracle C (Python's own primitives)

FAIL = ("fail",)
UNSPEC = ("unspec",)


def val(v):
    return ("val", v)


def byte_cut(s, b):
    """(prefix, suffix) of s at UTF-8 byte offset b, or None when b is not a character boundary"""
    e = s.encode("utf8")
    if b < 0 or b > len(e):
        return None
    if b < len(e) and (e[b] & 0xC0) == 0x80:
        return None
    return e[:b].decode("utf8"), e[b:].decode("utf8")


def blen(s):
    return len(s.encode("utf8"))


def prefixed(s, prefix):
    """`0x` / `0b` announce digits: the prefix counts as one only when no sign follows it"""
    return s.startswith(prefix) and s[len(prefix):len(prefix) + 1] not in ("+", "-")


def int_text(s, radix, lo, hi, signed=True):
    m = re.fullmatch(r"([+-]?)([0-9A-Za-z]+)", s, re.A)
    if not m:
        return None
    sign, ds = m.groups()
    if sign == "-" and not signed:
        return None
    n = 0
    for c in ds:
        d = int(c, 36)
        if d >= radix:
            return None
        n = n * radix + d
    z = -n if sign == "-" else n
    return z if lo <= z <= hi else None


FLOAT_RE = re.compile(r"([+-]?)(?:([0-9]*)(?:\.([0-9]*))?(?:[eE]([+-]?[0-9]+))?|(inf|infinity|nan))", re.A | re.I)


def float_text(s):
    m = FLOAT_RE.fullmatch(s)
    if not m:
        return None
    sign, ip, fp, ex, special = m.groups()
    if special:
        sp = special.lower()
        if sp == "nan":
            return NAN_BITS
        return f2b(float("-inf" if sign == "-" else "inf"))
    ip, fp = ip or "", fp or ""
    if not ip and not fp:
        return None
    e10 = int(ex or "0") - len(fp)
    mant = int(ip + fp)
    if mant == 0:
        return f2b(-0.0 if sign == "-" else 0.0)
    if e10 > 400:
        x = float("inf")
    elif e10 < -1200 - len(ip + fp):
        x = 0.0
    else:
        fr = Fraction(mant) * (Fraction(10) ** e10)
        try:
            x = fr.numerator / fr.denominator      # int / int true division is correctly rounded
        except OverflowError:
            x = float("inf")
    return f2b(-x if sign == "-" else x)


def trunc_of_float(bits):
    f = b2f(bits)
    if f != f or f in (float("inf"), float("-inf")):
        return None
    return int(f)


def exact_float(fr):
    """Fraction -> bits when it is exactly a double, else None"""
    try:
        x = fr.numerator / fr.denominator
    except (OverflowError, ZeroDivisionError):
        return None
    if x in (float("inf"), float("-inf")) or Fraction(x) != fr:
        return None
    return f2b(x)


def num_as_fraction(v):
    k, x = v
    if k == "float":
        f = b2f(x)
        if f != f or f in (float("inf"), float("-inf")):
            return None
        return Fraction(f)
    return Fraction(x)


def oracle(method, args):
    a = [x[1] for x in args]
    k0 = args[0][0]
    if method == "len":
        n = blen(a[0])
        return val(V("int", n)) if n <= I32_MAX else FAIL
    if method in ("index", "index_lit"):
        s, i = a
        return val(V("str", s[i])) if 0 <= i < len(s) else FAIL
    if method == "substring":
        s, b, t = a
        cb, ct = byte_cut(s, b), byte_cut(s, t)
        if b > t or cb is None or ct is None:
            return FAIL
        return val(V("str", s.encode("utf8")[b:t].decode("utf8")))
    if method == "contains":
        return val(V("bool", a[1] in a[0]))
    if method == "index_of":
        p = a[0].encode("utf8").find(a[1].encode("utf8"))
        return val(V("nil")) if p < 0 else val(V("int", p))
    if method == "reverse":
        return val(V("str", a[0][::-1]))
    if method == "insert":
        s, new, b = a
        c = byte_cut(s, b)
        return FAIL if c is None else val(V("str", c[0] + new + c[1]))
    if method == "replace":
        return val(V("str", a[0].replace(a[1], a[2])))
    if method == "delete":
        s, b, t = a
        cb, ct = byte_cut(s, b), byte_cut(s, t)
        if b > t or cb is None or ct is None:
            return FAIL
        return val(V("str", cb[0] + ct[1]))
    if method == "split":
        s, mid = a
        if mid < 0 or mid >= blen(s):
            return val(V("vec", [V("str", s), V("str", "")]))
        c = byte_cut(s, mid)
        return FAIL if c is None else val(V("vec", [V("str", c[0]), V("str", c[1])]))
    if method == "chars":
        return val(V("vec", [V("str", c) for c in a[0]]))
    if method in ("parse_int", "parse_bigint"):
        lo, hi, kind = (I32_MIN, I32_MAX, "int") if method == "parse_int" else (I128_MIN, I128_MAX, "big")
        s = a[0]
        # a sign stands BEFORE a number, never between the `0x` prefix and the digits: "0x-1F" is not a number
        z = int_text(s[2:], 16, lo, hi) if prefixed(s, "0x") else int_text(s, 10, lo, hi)
        return val(V("nil")) if z is None else val(V(kind, z))
    if method in ("parse_int_radix", "parse_bigint_radix"):
        lo, hi, kind = (I32_MIN, I32_MAX, "int") if method == "parse_int_radix" else (I128_MIN, I128_MAX, "big")
        s, r = a
        if not 2 <= r <= 36:
            return FAIL
        # the radix is stated by the caller: `0x` announces hexadecimal digits and nothing else (in radix 34 and up
        # `0` and `x` are ordinary digits; below that a text with an `x` in it is not a number)
        z = int_text(s[2:] if (r == 16 and prefixed(s, "0x")) else s, r, lo, hi)
        return val(V("nil")) if z is None else val(V(kind, z))
    if method == "parse_bool":
        return val(V("bool", a[0] == "true")) if a[0] in ("true", "false") else val(V("nil"))
    if method == "parse_byte":
        s = a[0]
        z = int_text(s[2:], 2, 0, 255, False) if prefixed(s, "0b") else int_text(s, 10, 0, 255, False)
        return val(V("nil")) if z is None else val(V("byte", z))
    if method == "parse_float":
        b = float_text(a[0])
        return val(V("nil")) if b is None else val(V("float", canon_bits(b)))
    if method == "repeat":
        s, n = (a[0], a[1]) if k0 == "str" else (a[1], a[0])
        if n < 0:
            return FAIL
        if s == "":
            return val(V("str", "")) if n <= USIZE_MAX else FAIL
        if blen(s) * n > ISIZE_MAX:
            return FAIL
        return val(V("str", s * n))
    if method == "concat":
        return val(V("str", plain(args[0], 0) + plain(args[1], 0)))
    if method in ("to_int", "to_bigint", "to_byte"):
        lo, hi, kind = {"to_int": (I32_MIN, I32_MAX, "int"), "to_bigint": (I128_MIN, I128_MAX, "big"), "to_byte": (0, 255, "byte")}[method]
        z = trunc_of_float(a[0]) if k0 == "float" else a[0]
        return val(V(kind, z)) if z is not None and lo <= z <= hi else FAIL
    if method == "to_float":
        return val(V("float", a[0] if k0 == "float" else f2b(float(a[0]))))      # int -> float: nearest even
    if method == "abs":
        if k0 == "float":
            return val(V("float", a[0] & 0x7fffffffffffffff if canon_bits(a[0]) != NAN_BITS else NAN_BITS))
        z = abs(a[0])
        hi = {"int": I32_MAX, "big": I128_MAX, "byte": 255}[k0]
        return val(V(k0, z)) if z <= hi else FAIL
    if method == "pow":
        n = a[1]
        if k0 != "float":
            if n < 0:
                return FAIL
            z = a[0]
            if abs(z) >= 2 and n >= 128:
                return FAIL
            r = z ** n
            return val(V("big", r)) if I128_MIN <= r <= I128_MAX else FAIL
        return exact_power(args[0], Fraction(n))
    if method == "powf":
        y = num_as_fraction(V("float", a[1]))
        if y is None or (k0 != "float" and abs(a[0]) > 2**53):
            return UNSPEC
        return exact_power(args[0], y)
    if method == "sqrt":
        x = b2f(a[0]) if k0 == "float" else float(a[0])
        if x != x or x < 0:
            return val(V("float", NAN_BITS))
        return val(V("float", f2b(math.sqrt(x))))          # IEEE-754 sqrt of the platform: correctly rounded
    if method in ("floor", "ceil", "round", "ipart", "fpart"):
        f = b2f(a[0])
        if f != f:
            return val(V("float", NAN_BITS))
        if f in (float("inf"), float("-inf")):
            return val(V("float", NAN_BITS if method == "fpart" else a[0]))
        fr = Fraction(f)
        if method == "floor":
            z = math.floor(fr)
        elif method == "ceil":
            z = math.ceil(fr)
        elif method == "round":
            z = math.floor(abs(fr) + Fraction(1, 2)) * (1 if fr >= 0 else -1)      # half away from zero
        else:
            z = int(fr)
        if method == "fpart":
            r = float(fr - z)                       # exact: the fractional part of a double is a double
            return val(V("float", f2b(r if r != 0 else 0.0)))
        r = float(z)                                # an integer between two neighbours of f is a double
        if r == 0:
            r = math.copysign(0.0, f)
        return val(V("float", f2b(r)))
    if method == "to_str":
        return val(V("str", plain(args[0], 0)))
    if method == "to_ascii":
        return val(V("str", chr(a[0]))) if a[0] < 128 else FAIL
    return UNSPEC


def exact_power(x, y):
    """x ** y demanded only where the mathematical result is a double"""
    xf = num_as_fraction(x)
    if xf is None or y.denominator not in (1, 2) or abs(y) > 2**31:
        return UNSPEC
    if y.denominator == 1:
        n = int(y)
        if xf == 0:
            if n == 0:
                return val(V("float", f2b(1.0)))
            if n > 0:
                neg = x[0] == "float" and (x[1] >> 63) and n % 2 == 1
                return val(V("float", f2b(-0.0 if neg else 0.0)))
            return UNSPEC
        if n == 0:
            return val(V("float", f2b(1.0)))
        if abs(n) > 1100 and abs(xf) != 1 and (xf.numerator & (xf.numerator - 1) or xf.denominator & (xf.denominator - 1)):
            return UNSPEC
        if abs(n) > 3000:
            if abs(xf) == 1:
                return val(V("float", f2b(float(xf ** (n % 2)))))
            return UNSPEC
        b = exact_float(xf ** n)
        if n < 0 and exact_float(xf ** (-n)) is None:
            return UNSPEC          # the reciprocal is not a double: nothing demanded (powi computes 1 / x^|n|)
        return UNSPEC if b is None else val(V("float", b))
    if y == Fraction(1, 2) and xf > 0:
        r = Fraction(math.sqrt(xf.numerator / xf.denominator))
        return val(V("float", f2b(float(r)))) if r * r == xf else UNSPEC
    return UNSPEC


# ----------------------------------------------------------------------------- generators

STRS = ["", "a", "é", "€", "😀", "ab", "abc", "héllo", "a€b", "日本語", "hello world", "aXbXc", "aaaa", "x😀y",
        "a\"b\\c", "abcdefghijklmnopqrstuvwxyz0123456789", "tab\there", "l1\nl2", " é ", "ÿĀ", "߿ࠀ", "￿\U00010000"]
PATS = ["", "a", "l", "é", "€", "😀", "X", "aa", "lo", "lo w", "b", "ab", "bc", "z", "ll", "\\", "\"", "日本", "本"]
NEWS = ["", "x", "é", "<>"]
INTS = [I32_MIN, I32_MIN + 1, -65536, -257, -256, -255, -129, -128, -3, -2, -1, 0, 1, 2, 3, 7, 10, 15, 16, 36, 37, 100, 127, 128,
        255, 256, 1290, 1291, 46340, 46341, 65535, 65536, 2642245, 2642246, I32_MAX - 1, I32_MAX]
BIGS = [I128_MIN, I128_MIN + 1, -2**100, -2**64 - 1, -2**64, -2**63 - 1, -2**63, -2**53 - 1, -2**53, -2**32 - 1, -2**32, -2**31 - 1,
        -2**31, -256, -2, -1, 0, 1, 2, 3, 10, 255, 256, 2**31 - 1, 2**31, 2**32, 2**32 + 1, 2**32 + 2, 2**32 + 9, 2**53, 2**53 + 1,
        2**62, 2**63 - 1, 2**63, 2**64 - 1, 2**64, 2**64 + 1, 2**64 + 2, 13043817825332782212, 13043817825332782213, 2**100, 2**126,
        I128_MAX - 1, I128_MAX]
BYTES = [0, 1, 2, 3, 7, 15, 16, 17, 65, 90, 126, 127, 128, 129, 200, 254, 255]
FLOATS = [f2b(x) for x in [0.0, -0.0, 5e-324, -5e-324, 2.225073858507201e-308, 2.2250738585072014e-308, -2.2250738585072014e-308,
                           0.1, -0.1, 0.3, 0.49999999999999994, -0.49999999999999994, 0.5, -0.5, 0.5000000000000001, 0.75, 0.9999999999999999,
                           -0.9999999999999999, 1.0, -1.0, 1.0000000000000002, 1.5, -1.5, 2.0, -2.0, 2.5, -2.5, 3.0, 3.5, -3.5, 4.0, 9.0, 10.0, 16.0, 25.0, 27.0,
                           0.25, 0.125, 1e-7, 1.1, 3.14159265359, 100.0, 127.5, 255.0, 255.5, 255.99999999999997, 256.0, -255.5, -256.0,
                           2147483646.5, 2147483647.0, 2147483647.5, 2147483647.9999998, 2147483648.0, -2147483648.0, -2147483648.5, -2147483648.9999995,
                           -2147483649.0, 4294967296.0, 4503599627370495.5, 4503599627370496.0, 4503599627370497.0, -4503599627370495.5,
                           9007199254740992.0, 9007199254740994.0, 9223372036854774784.0, 9223372036854775808.0, -9223372036854775808.0,
                           -9223372036854777856.0, 18446744073709551616.0, 1.7014118346046921e+38, 1.7014118346046923e+38, -1.7014118346046923e+38,
                           -1.7014118346046927e+38, 1e100, 1e300, -1e300, 1.7976931348623157e+308, -1.7976931348623157e+308,
                           float("inf"), float("-inf"), float("nan")]]
POWS = [I32_MIN, -1075, -1074, -1023, -1022, -64, -3, -2, -1, 0, 1, 2, 3, 4, 5, 7, 8, 15, 16, 30, 31, 32, 33, 39, 40, 62, 63, 64, 65, 126, 127, 128,
        129, 1000, 1023, 1024, 1074, 65536, I32_MAX]
POWFS = [f2b(x) for x in [0.0, -0.0, 0.5, -0.5, 1.0, -1.0, 2.0, 3.0, -2.0, 0.25, 1.0 / 3, 10.0, 31.0, 64.0, 1e300, float("inf"), float("-inf"), float("nan")]]
RADICES = [I32_MIN, -1, 0, 1, 2, 3, 8, 10, 16, 35, 36, 37, 100, I32_MAX]
INT_TEXTS = ["", "+", "-", "0", "-0", "+0", "00", "+5", "25", "-25", "25.0", " 25", "25 ", "twenty five", "2147483647", "2147483648",
             "-2147483648", "-2147483649", "+2147483647", "99999999999", "170141183460469231731687303715884105727",
             "170141183460469231731687303715884105728", "-170141183460469231731687303715884105728",
             "-170141183460469231731687303715884105729", "0x10", "0x", "0x-5", "0x+5", "0xff", "0xFF", "0xg", "0X10", "0x0x1", "x10", "00x1", "ff", "FF", "-ff", "z", "Z",
             "zz", "-zz", "10", "101", "102", "7fffffff", "80000000", "-80000000", "1_000", "1e3", "٣", "１", "--5", "+-5", "5-", "1\n",
             "1111111111111111111111111111111", "11111111111111111111111111111111", "-10000000000000000000000000000000", "zik0zj", "zik0zk",
             "0b101", "0xz", "0xZ1", "0x0", "-0x10", "0x7fffffff", "0x80000000", "0x-80000000", "0x7fffffffffffffffffffffffffffffff", "0x80000000000000000000000000000000"]
FLOAT_TEXTS = ["", "+", "-", ".", "1", "1.", ".5", "-.5", "+.5", "1.5", "0.1", "-0", "+0.0", "1e5", "1e", "1e+", "1e-", "1E-5", "1e+5", "e5", ".e5", "1.e5",
               "1.5e3", "inf", "-inf", "+inf", "Infinity", "-INFINITY", "INF", "iNf", "nan", "-NaN", "NAN", "infinit", "in", "na", "nanx", "infinityy",
               "1e309", "1e308", "1.7976931348623157e308", "1.7976931348623158e308", "1.7976931348623159e308", "179769313486231580793728971405303415079934132710037826936173778980444968292764750946649017977587207096330286416692887910946555547851940402630657488671505820681908902000708383676273854845817711531764475730270069855571366959622842914819860834936475292719074168444365510704342711559699508093042880177904174497791.9999999999999999999999",
               "1e-400", "4.9e-324", "5e-324", "2.4703282292062327e-324", "2.4703282292062328e-324", "2.47032822920623272088284396434110686182529901307162382212792841250337753635104375932649918180817996189898282347722858865463328355177969898199387398005390939063150356595155702263922908583924491051844359318028499365361525003193704576782492193656236698636584807570015857692699037063119282795585513329278343384093519780155312465972635795746227664652728272200563740064854999770965994704540208281662262378573934507363390079677619305775067401763246736009689513405355374585166611342237666786041621596804619144672918403005300575308490487653917113865916462395249126236538818796362393732804238910186723484976682350898633885879256283027559956575244555072551893136908362547791869486679949683240497058210285131854513962138377228261454376934125320985913276672363281251e-324",
               "2.2250738585072011e-308", "2.2250738585072014e-308", "9007199254740993", "9007199254740992.5", "9007199254740993.0000000000000000000001",
               "0x10", "1_0", " 1", "1 ", "+1", "+-1", "1e1000000000000", "-1e1000000000000", "1e-1000000000000", "0e999999999", "0.0e-999999999999999999999", "１", "1,5", "1e5.5", "1.2.3",
               "3.14159", "xyz", "123456789012345678901234567890", "0.000000000000000000000000000001", "1e22", "1e23", "8.5", "true",
               "100000000000000000000000000000000000000000000000000e-50", "0." + "0" * 400 + "1", "1" + "0" * 400, "1" + "0" * 400 + "e-400"]
BOOL_TEXTS = ["true", "false", "True", "FALSE", "", "true ", " true", "1", "0", "yes", "truefalse", "tru", "falsee"]
BYTE_TEXTS = ["", "0", "3", "255", "256", "-0", "-1", "+5", "+", "0b0", "0b1", "0b101", "0b11111111", "0b100000000", "0b011111111", "0b", "0b2", "0B1",
              "0b+1", "0b-1", "0x1", "1_0", "99", "999", "00255", "٣"]


def offsets(s):
    n = blen(s)
    base = {-1, 0, 1, n - 1, n, n + 1, I32_MIN, I32_MAX}
    if n <= 12:
        base |= set(range(0, n + 2))
    return sorted(base)


def gen_boundary():
    S, I, B, Y, F = (lambda x: V("str", x)), (lambda x: V("int", x)), (lambda x: V("big", x)), (lambda x: V("byte", x)), (lambda x: V("float", x))
    out = []
    for s in STRS:
        out.append(("len", [S(s)]))
        out.append(("reverse", [S(s)]))
        out.append(("chars", [S(s)]))
        out.append(("to_str", [S(s)]))
        offs = offsets(s)
        nchar = len(s)
        for i in sorted({-1, 0, 1, nchar - 1, nchar, nchar + 1, I32_MIN, I32_MAX} | set(range(0, min(nchar, 12) + 1))):
            out.append(("index", [S(s), I(i)]))
        for i in range(0, blen(s)):
            # a literal index below the (static, byte) length compiles; at or above the character count it fails at run time
            out.append(("index_lit", [S(s), I(i)]))
        for i in sorted({-1, 0, nchar - 1, nchar, 2**31, 2**63, 2**64 - 1, 2**64, 2**64 + 1, 2**64 + nchar - 1 if nchar else 2**65, -2**64, -2**64 + 1, I128_MIN, I128_MAX}):
            out.append(("index", [S(s), B(i)]))
        small = [o for o in offs if -1 <= o <= blen(s) + 1]
        for b in offs:
            out.append(("split", [S(s), I(b)]))
            for new in NEWS:
                out.append(("insert", [S(s), S(new), I(b)]))
            for t in (offs if b in small else small):
                out.append(("substring", [S(s), I(b), I(t)]))
                out.append(("delete", [S(s), I(b), I(t)]))
        pats = sorted(set(PATS + [s, s + "x", s[1:], s[:-1], s[1:-1], s[-1:] + s[:1]]))
        for p in pats:
            out.append(("contains", [S(s), S(p)]))
            out.append(("index_of", [S(s), S(p)]))
            for rep in ["", "-", "é", p + p]:
                out.append(("replace", [S(s), S(p), S(rep)]))
        for n in [-1, 0, 1, 2, 3, 7, I32_MIN]:
            out.append(("repeat", [S(s), I(n)]))
            out.append(("repeat", [I(n), S(s)]))
        for n in [-1, 0, 2, 2**62, 2**63 - 1, 2**63, 2**64 - 1, 2**64, I128_MAX, I128_MIN]:
            if s == "" or n <= 7 or blen(s) * n > ISIZE_MAX:
                out.append(("repeat", [S(s), B(n)]))
                out.append(("repeat", [B(n), S(s)]))
        for o in [S("x"), S(""), S(s), I(0), I(-5), I(I32_MIN), I(I32_MAX), B(I128_MIN), B(I128_MAX), B(7), Y(0), Y(5), Y(255), V("bool", True), V("bool", False),
                  F(f2b(1.5)), F(f2b(-0.0)), F(f2b(1e300)), F(f2b(1e-7)), F(f2b(float("nan"))), F(f2b(float("-inf"))), F(f2b(0.1))]:
            out.append(("concat", [S(s), o]))
            if o[0] != "str":
                out.append(("concat", [o, S(s)]))
    for t in INT_TEXTS:
        out.append(("parse_int", [S(t)]))
        out.append(("parse_bigint", [S(t)]))
        for r in RADICES:
            out.append(("parse_int_radix", [S(t), I(r)]))
            out.append(("parse_bigint_radix", [S(t), I(r)]))
    for t in FLOAT_TEXTS:
        out.append(("parse_float", [S(t)]))
    for t in BOOL_TEXTS:
        out.append(("parse_bool", [S(t)]))
    for t in BYTE_TEXTS:
        out.append(("parse_byte", [S(t)]))
    nums = [I(x) for x in INTS] + [B(x) for x in BIGS] + [Y(x) for x in BYTES] + [F(x) for x in FLOATS]
    for x in nums:
        for m in ("to_int", "to_bigint", "to_byte", "to_float", "abs", "sqrt", "to_str"):
            out.append((m, [x]))
        for n in POWS:
            out.append(("pow", [x, I(n)]))
        for y in POWFS:
            out.append(("powf", [x, F(y)]))
    for y in BYTES + [64, 97, 122]:
        out.append(("to_ascii", [Y(y)]))
    for y in range(0, 256, 1):
        out.append(("to_ascii", [Y(y)]))
    for x in FLOATS:
        for m in ("floor", "ceil", "round", "ipart", "fpart"):
            out.append((m, [F(x)]))
    for b in (True, False):
        out.append(("to_str", [V("bool", b)]))
    # de-duplicate, keep order
    seen, res = set(), []
    for c in out:
        key = repr(c)
        if key not in seen:
            seen.add(key)
            res.append(c)
    return res


ALPHA = list("abXl") + ["é", "€", "😀", "ß", " ", "0", "1", "x", "\"", "\\", "\n", "\t", "日"]


def rand_str(rng, maxlen=8):
    return "".join(rng.choice(ALPHA) for _ in range(rng.randint(0, maxlen)))


def rand_int(rng, lo, hi):
    r = rng.random()
    if r < 0.3:
        return rng.choice([lo, lo + 1, -1, 0, 1, hi - 1, hi])
    if r < 0.6:
        return max(lo, min(hi, rng.randint(-300, 300)))
    if r < 0.8:
        b = rng.randint(1, hi.bit_length())
        z = rng.getrandbits(b)
        return max(lo, min(hi, -z if rng.random() < 0.5 else z))
    return rng.randint(lo, hi)


def rand_float(rng):
    r = rng.random()
    if r < 0.15:
        return rng.choice(FLOATS)
    if r < 0.4:
        return canon_bits(rng.getrandbits(64))
    if r < 0.7:
        return f2b(rng.choice([-1, 1]) * rng.randint(0, 2**rng.randint(1, 70)) / rng.choice([1, 2, 4, 8, 3, 10]))
    if r < 0.85:
        z = rng.choice([0, 255, 256, 2**31, 2**63, 2**127, 2**53])
        x = float(z)
        for _ in range(rng.randint(0, 3)):
            x = math.nextafter(x, rng.choice([-math.inf, math.inf]))
        return f2b(rng.choice([-1, 1]) * x)
    return f2b(rng.uniform(-1000, 1000))


def writable(case):
    """the lexer reads \\" as an escaped quote: a literal cannot end in a backslash / have one before a quote"""
    for k, x in case[1]:
        if k == "str" and (x.endswith("\\") or '\\"' in x or "@@" in x or "@=" in x):
            return False
    return True


def gen_sign_after_prefix():
    """a sign between the `0x` / `0b` prefix and the digits (Rust's from_str_radix reads a sign of its own): run in EVERY tier"""
    S, I = (lambda x: V("str", x)), (lambda x: V("int", x))
    out = []
    for t in ["0x-1F", "0x+1F", "0x-0", "0x+0", "0x-", "0x+", "0x-80000000", "0x+7fffffff", "0x--1", "0x+-1", "0x-z", "0x+10"]:
        out.append(("parse_int", [S(t)]))
        out.append(("parse_bigint", [S(t)]))
        for r in (16, 10, 36):
            out.append(("parse_int_radix", [S(t), I(r)]))
            out.append(("parse_bigint_radix", [S(t), I(r)]))
    for t in ["0b+1", "0b-0", "0b+0", "0b-1", "0b+11111111", "0b++1", "0b+", "0b-"]:
        out.append(("parse_byte", [S(t)]))
    return out


def gen_random(rng, n):
    S, I, B, Y, F = (lambda x: V("str", x)), (lambda x: V("int", x)), (lambda x: V("big", x)), (lambda x: V("byte", x)), (lambda x: V("float", x))
    out = []
    str_m = ["len", "index", "substring", "contains", "index_of", "reverse", "insert", "replace", "delete", "split", "chars",
             "parse_int", "parse_int_radix", "parse_bigint", "parse_bigint_radix", "parse_float", "parse_bool", "parse_byte", "repeat", "concat"]
    num_m = ["to_int", "to_bigint", "to_byte", "to_float", "abs", "pow", "powf", "sqrt", "floor", "ceil", "round", "ipart", "fpart", "to_str", "to_ascii"]
    for _ in range(n):
        if rng.random() < 0.55:
            m = rng.choice(str_m)
            s = rand_str(rng)
            n8 = blen(s)
            off = lambda: rng.choice([rng.randint(-1, n8 + 1), rng.randint(0, max(0, n8)), rand_int(rng, I32_MIN, I32_MAX)])
            sub = lambda: (s[rng.randint(0, len(s)):][:rng.randint(0, 3)] if s and rng.random() < 0.7 else rand_str(rng, 2))
            if m in ("len", "reverse", "chars"):
                c = (m, [S(s)])
            elif m == "index":
                c = (m, [S(s), I(rng.randint(-1, len(s) + 1)) if rng.random() < 0.7 else B(rand_int(rng, I128_MIN, I128_MAX))])
            elif m in ("substring", "delete"):
                c = (m, [S(s), I(off()), I(off())])
            elif m in ("contains", "index_of"):
                c = (m, [S(s), S(sub())])
            elif m == "insert":
                c = (m, [S(s), S(rand_str(rng, 3)), I(off())])
            elif m == "replace":
                c = (m, [S(s), S(sub()), S(rand_str(rng, 3))])
            elif m == "split":
                c = (m, [S(s), I(off())])
            elif m in ("parse_int", "parse_bigint", "parse_int_radix", "parse_bigint_radix"):
                r = rng.choice([2, 8, 10, 16, 36, rng.randint(-2, 40)])
                digs = "0123456789abcdefghijklmnopqrstuvwxyzABCDEFGHIJKLMNOPQRSTUVWXYZ"
                t = rng.choice(["", "+", "-", "0x", "0x-"]) + "".join(rng.choice(digs[:max(2, min(62, abs(r) + rng.randint(0, 1)))]) for _ in range(rng.choice([0, 1, 2, 5, 9, 10, 11, 32, 39, 40])))
                if rng.random() < 0.15:
                    t = rng.choice(INT_TEXTS)
                c = (m, [S(t)]) if not m.endswith("radix") else (m, [S(t), I(r)])
            elif m == "parse_float":
                if rng.random() < 0.6:
                    x = b2f(rand_float(rng))
                    t = rng.choice([repr(x), "%.*g" % (rng.randint(1, 25), x), "%.*f" % (rng.randint(0, 30), x) if abs(x) < 1e30 else repr(x), "%.*e" % (rng.randint(0, 25), x)])
                else:
                    t = "".join(rng.choice("0123456789.eE+-infa") for _ in range(rng.randint(0, 8)))
                c = (m, [S(t)])
            elif m == "parse_bool":
                c = (m, [S(rng.choice(BOOL_TEXTS + [rand_str(rng, 5)]))])
            elif m == "parse_byte":
                c = (m, [S(rng.choice(["", "0b", "+", "-"]) + "".join(rng.choice("0123456789") for _ in range(rng.randint(0, 4))) if rng.random() < 0.5 else
                           "0b" + "".join(rng.choice("01") for _ in range(rng.randint(0, 10))))])
            elif m == "repeat":
                k = rng.randint(-2, 12)
                cnt = I(k) if rng.random() < 0.6 else B(k)
                c = (m, [S(s), cnt] if rng.random() < 0.5 else [cnt, S(s)])
            else:
                o = rng.choice([S(rand_str(rng, 4)), I(rand_int(rng, I32_MIN, I32_MAX)), B(rand_int(rng, I128_MIN, I128_MAX)), Y(rng.randint(0, 255)),
                                V("bool", rng.random() < 0.5), F(rand_float(rng))])
                c = (m, [S(s), o] if rng.random() < 0.5 or o[0] == "str" else [o, S(s)])
        else:
            m = rng.choice(num_m)
            kind = rng.choice(["int", "big", "byte", "float"])
            if m in ("floor", "ceil", "round", "ipart", "fpart"):
                kind = "float"
            if m == "to_ascii":
                kind = "byte"
            x = {"int": lambda: I(rand_int(rng, I32_MIN, I32_MAX)), "big": lambda: B(rand_int(rng, I128_MIN, I128_MAX)),
                 "byte": lambda: Y(rng.randint(0, 255)), "float": lambda: F(rand_float(rng))}[kind]()
            if m == "pow":
                c = (m, [x, I(rng.choice([rng.randint(-5, 70), rng.randint(-1100, 1100), rand_int(rng, I32_MIN, I32_MAX)]))])
            elif m == "powf":
                c = (m, [x, F(rng.choice([rng.choice(POWFS), f2b(float(rng.randint(-8, 40))), rand_float(rng)]))])
            else:
                c = (m, [x])
        out.append(c)
    return out


# ----------------------------------------------------------------------------- comparison

def recv_kind(case):
    m, args = case
    if m in ("repeat", "concat"):
        return "+".join(a[0] for a in args)
    if m == "index":
        return "str[%s]" % args[1][0]
    if m == "index_lit":
        return "str[literal]"
    return args[0][0]


def demanded(obs, want):
    """does the observation satisfy a demand ('val', v) / ('fail',) / ('unspec',)?  -> None | deviation"""
    if want[0] == "unspec":
        return None
    stopped = obs[0] in ("err", "panic")
    if want[0] == "fail":
        return None if stopped else "continues-outside-domain"
    if stopped:
        return "fails-inside-domain"
    if obs[0] != "ok":
        return obs[0]
    exp = canon_typed(typed(want[1]))
    got = obs[1]
    if re.sub(r":[0-9a-f]{16}", "", exp[0]) != re.sub(r":[0-9a-f]{16}", "", got[0]):
        return "wrong-kind"
    if exp[0] != got[0]:
        return "wrong-value"
    if exp[1] is not None and exp[1] != got[1]:
        return "wrong-value"
    return None


def same_demand(a, b):
    if a[0] == "unspec" or b[0] == "unspec":
        return True
    if a[0] != b[0]:
        return False
    return a[0] == "fail" or canon_typed(typed(a[1])) == canon_typed(typed(b[1]))


def describe(case):
    m, args = case
    if m == "index_lit":
        return "%s[%d]" % (ms_expr(args[0]), args[1][1])
    names = [ms_expr(a) for a in args]
    return call_expr(m, names)


def signature_cases():
    S, I, B, Y, F = V("str", "abc"), V("int", 3), V("big", 3), V("byte", 3), V("float", f2b(2.5))
    recv = {"str": S, "int": I, "bigint": B, "byte": Y, "float": F}
    extra = {"substring": [I, I], "contains": [S], "index_of": [S], "insert": [S, I], "replace": [S, S], "delete": [I, I], "split": [I],
             "parse_int_radix": [I], "parse_bigint_radix": [I], "pow": [I], "powf": [F]}
    out = []
    for m in ARITY:
        for tname, r in recv.items():
            out.append((m, tname, [r] + extra.get(m, [])))
    out.append(("index", "str", [S, I]))
    out.append(("repeat", "str", [S, I]))
    out.append(("concat", "str", [S, I]))
    return out


def check_signatures(ctx, binary, exe):
    """`typeof receiver.method(args)` (the compiler's get_property_type) against the Coq table `declared`"""
    sigs = signature_cases()
    inp = "".join("SIG\t%s\t%s\n" % (m, t) for m, t, _ in sigs)
    rc, out, err = core.sh([exe], inp=inp.encode(), timeout=120)
    table = [l[4:] for l in out.decode().split("\n") if l.startswith("SIG ")]
    assert len(table) == len(sigs)
    base = ctx.mktemp()

    def one(item):
        (m, t, args), want = item
        names = ["abcd"[i] for i in range(len(args))]
        src = "".join("%s = %s\n" % (n, ms_expr(a)) for n, a in zip(names, args)) + "print typeof (%s)\n" % call_expr(m, names)
        d = programs.materialize({"files": {"t.ms": src}}, base)
        r = programs.run_bin(binary, ["run", "t.ms", "-q"], d, {"MSCRIPT_VERIF_TYPED_PRINT": "1"})
        return r
    results = programs.pmap(one, list(zip(sigs, table)))
    n = 0
    for (m, t, args), want, (rc, out, err) in zip(sigs, table, results):
        n += 1
        if want == "none":
            if not (rc != 0 and "Did not compile" in err):
                ctx.report("signature/%s/%s/accepted" % (m, t), "`%s` on a %s is accepted by the compiler but get_property_type's model declares no such property" % (m, t),
                           {"method": m, "receiver": t, "stdout": out[-300:], "stderr": err[-600:]})
            continue
        got = out.strip()
        if rc != 0 or got != "<Str>" + want:
            ctx.report("signature/%s/%s" % (m, t), "declared type of %s on %s is %r, the signature table says %r" % (m, t, got if rc == 0 else err[-300:], want),
                       {"method": m, "receiver": t, "typeof": got, "declared_model": want, "stderr": err[-600:]})
    return n


def run(ctx):
    ok = core.coq_props(ctx, "Props/C14.v")
    binary = core.build_repo()
    exe = extract.build("builtins", "BuiltinsExtract.v", "builtins_driver.ml")
    boundary = gen_boundary()
    n_boundary_all = len(boundary)
    if ctx.quick():
        # stratified: every (method, receiver kind) keeps its first cases and a seeded sample of the rest
        groups = {}
        for c in boundary:
            groups.setdefault((c[0], recv_kind(c)), []).append(c)
        boundary = []
        for key in sorted(groups):
            g = groups[key]
            keep = g[:12] + ctx.rng.sample(g[12:], min(len(g) - 12, 110)) if len(g) > 12 else g
            boundary += keep
    boundary += [c for c in gen_sign_after_prefix() if c not in boundary]
    rnd = gen_random(ctx.rng, 1500 if ctx.quick() else 20000)
    cases = [c for c in boundary + rnd if writable(c)]
    models = run_models(exe, cases)
    if os.environ.get("VERIF_C14_HEAD"):
        # development aid: compare against the model of the pinned HEAD (before the fix: commits a7759b5..1441424, fixes/c14-*.diff)
        models = [(h, h, s if h == i else ("unspec-head",)) for i, h, s in models]
    expect_fail = [m[0][0] in ("err", "panic") for m in models]
    obs, runs = run_all(ctx, binary, cases, expect_fail)
    n_sig = check_signatures(ctx, binary, exe)

    dis = spec_fail = 0
    stop_kind, panic_sites, dist, head_diff = {}, {}, {}, 0
    nontrivial = set()
    for i, case in enumerate(cases):
        impl, head, spec = models[i]
        o = obs.get(i, ("setup", "not executed"))
        key = "%s/%s" % (case[0], recv_kind(case))
        dist[key] = dist.get(key, 0) + 1
        if o[0] == "panic":
            panic_sites.setdefault("%s: %s" % (case[0], o[1]), describe(case))
        if o[0] in ("setup", "rejected", "timeout"):
            ctx.report("%s/%s" % (o[0], key), "call %s could not be run: %s" % (describe(case), str(o[1:])[:400]),
                       {"case": case, "call": describe(case), "observation": o}, found_input=(o[0] != "timeout"))
            continue
        # B + C: the property (Coq specification and the independent oracle)
        orc = oracle(case[0], case[1]) if spec != ("unspec-head",) else ("unspec",)
        if spec == ("unspec-head",):
            spec = ("unspec",)
        devB, devC = demanded(o, spec), demanded(o, orc)
        if not same_demand(spec, orc):
            ctx.report("oracles-disagree/%s" % key, "Coq specification and Python oracle disagree on %s: %r vs %r" % (describe(case), spec, orc),
                       {"case": case, "call": describe(case), "coq_spec": spec, "python_oracle": orc}, found_input=False)
        dev = devB or devC
        if dev:
            spec_fail += 1
            want = spec if devB else orc
            cls = "%s/%s" % (key, dev)
            if case[0] in ("parse_int_radix", "parse_bigint_radix") and case[1][0][1].startswith("0x") and case[1][1][1] != 16 and o[0] == "ok":
                cls = "parse-radix-drops-0x-prefix"     # the text was read without its first two characters
            if case[0].startswith("parse_") and re.match(r"0[xb][+-]", case[1][0][1]) and o[0] == "ok":
                cls = "parse-sign-after-prefix"         # "0x-1F" / "0b+1" read as a number
            ctx.report(cls,
                       "%s: %s; observed %s, demanded %s" % (describe(case), dev, show_obs(o), show_want(want)),
                       {"case": case, "program": block(0, case), "observed": o, "demanded_by_coq_spec": spec, "demanded_by_oracle": orc,
                        "impl_model": impl, "how": "MSCRIPT_VERIF_TYPED_PRINT=1 mscript run t.ms -q"})
        # A: correspondence with the impl-model
        a_dev = None
        if impl[0] == "val":
            a_dev = demanded(o, impl)
        elif impl[0] in ("err", "panic"):
            if o[0] not in ("err", "panic"):
                a_dev = "model-stops-impl-continues"
            elif o[0] != impl[0]:
                stop_kind["%s: model %s, impl %s" % (key, impl[0], o[0])] = describe(case)
        elif impl[0] == "libm":
            if o[0] != "ok":
                a_dev = "libm-call-stopped"
            else:
                a_dev = None if o[1] == ("<Float:%016x>" % libm_pow(impl[1], impl[2]), None) else "libm-arguments"
        elif impl[0] == "outside":
            if o[0] != "ok" or o[1][0] != "<Str>":
                a_dev = "outside-not-a-string"
        if a_dev:
            dis += 1
            if not dev:
                ctx.report("correspondence/%s" % key, "impl-model and implementation disagree on %s (%s): impl %s, model %r" % (describe(case), a_dev, show_obs(o), impl),
                           {"case": case, "program": block(0, case), "observed": o, "impl_model": impl, "correspondence": "Builtins/*Impl.v vs BuiltInFunction::run"},
                           found_input=False)
        if impl != head:
            head_diff += 1
        if o[0] == "ok" and spec[0] == "val" or o[0] in ("err", "panic"):
            nontrivial.add(repr(case))
    nhist = string_histories(ctx, binary)
    npos = string_positions(ctx, binary)
    npos += constant_string_indexing(ctx, binary) + string_compound_targets(ctx, binary)
    spec_fail += sum(1 for v in ctx.viol if v[0].startswith(("string-history", "string-positions", "constant-string-index", "string-compound")) and not v[0].endswith("/rejected"))
    ctx.cov["evaluations"] = len(cases) + nhist + npos
    ctx.cov["distinct_nontrivial"] = len(nontrivial)
    ctx.cov["rule"] = ("one evaluation = one built-in call executed by the real interpreter and compared with the Coq impl-model, the Coq "
                       "specification and the Python oracle; non-trivial = distinct call whose outcome the specification fixes (a demanded value, or a demanded stop)")
    ctx.cov["exhaustive"] = not ctx.quick()
    ctx.cov["exhaustive_part"] = ("boundary product: %d calls (every method x boundary receivers/arguments); this run used %d of them%s"
                                  % (n_boundary_all, len(boundary), "" if not ctx.quick() else " (stratified sample: every method x receiver kind)"))
    ctx.cov["random_cases"] = len(rnd)
    ctx.cov["programs_run"] = runs
    ctx.cov["signatures_checked"] = n_sig
    ctx.cov["distribution"] = dist
    ctx.cov["model_impl_disagreements"] = dis
    ctx.cov["spec_failures"] = spec_fail
    ctx.cov["stops_by_panic_sites"] = panic_sites
    ctx.cov["stop_kind_differences"] = stop_kind
    ctx.cov["calls_where_head_model_differs_from_repaired_model"] = head_diff
    ctx.cov["traces_validated_against_impl"] = len(cases)
    for j in (5, len(boundary) // 2, len(boundary) + 7):
        if j < len(cases):
            ctx.sample({"call": describe(cases[j]), "observed": show_obs(obs.get(j, ("?",))), "coq_spec": show_want(models[j][2])})
    ctx.cov["trusted_base"] = ["Coq 8.16.1 kernel (coqc; vm_compute in Examples and finite lemmas)",
                               "Flocq 4.1.0 binary64 (BinarySingleNaN) and its axioms as printed by Print Assumptions",
                               "extraction: ExtrOcamlBasic only; extract/builtins_driver.ml glue",
                               "typed print hook (MSCRIPT_VERIF_TYPED_PRINT); Python oracle in vlib/c14.py",
                               "UTF-8: a character's encoded width is 1/2/3/4 bytes by code-point range; byte-level and character-level substring search agree on valid UTF-8",
                               "libm pow (powf) and Rust's float printing / dec2flt are outside the model: powf is compared with the same libm called with the model's arguments, "
                               "float text with Python's shortest round-trip digits"]
    ctx.assumptions = ["impl-model is hand-written; tied to the code by this run's differential comparison",
                       "the interpreter is a debug build (overflow checks on); allocation succeeds below isize::MAX",
                       "NaN payload/sign are not distinguished"]
    core.proof_or_search(ctx, ok, ["C14_methods_meet_spec_partial", "C14_result_kind", "C14_result_in_range", "C14_substring", "C14_replace", "C14_numeral", "C14_parse_int_to_str"], spec_fail > 0)


def show_obs(o):
    if o[0] == "ok":
        return "%s%s" % (o[1][0], "" if o[1][1] is None else o[1][1][:200])
    return " ".join(str(x) for x in o)[:200]


def show_want(w):
    if w[0] == "val":
        t = canon_typed(typed(w[1]))
        return "%s%s" % (t[0], "" if t[1] is None else t[1][:200])
    return w[0]
