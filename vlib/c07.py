"""C07: closures capture variables by reference; `modify` writes through."""
from . import core, coregen, coretie

I = lambda n: ('int', n)
V = lambda x: ('var', x)


def call(f, *args):
    return ('call', V(f), list(args))


def fn(params, ret, body):
    return ('fn', params, ret, body)


def gen_program(rng, idx):
    """a random closure program: owners (module level or a factory function), closures over their variables
    (readers, writers via modify, shadowing locals), then a random history of calls / owner assignments"""
    prog = []
    actions = []          # (render statements) choices for the history
    n_owner = rng.randint(1, 3)
    for o in range(n_owner):
        x = 'x%d' % o
        kind = rng.choice(['module', 'factory', 'factory', 'nested'])
        if kind == 'module':
            prog.append(('asg', x, 'int', I(rng.randint(0, 5))))
            get, inc, sh = 'get%d' % o, 'inc%d' % o, 'sh%d' % o
            prog.append(('asg', get, None, fn([], 'int', [('ret', V(x))])))
            prog.append(('asg', inc, None, fn([('d', 'int')], None, [('mod', x, ('bin', '+', V(x), V('d')))])))
            prog.append(('asg', sh, None, fn([], 'int', [('asg', x, None, I(99)), ('ret', V(x))])))
            actions += [lambda r, get=get: [('print', call(get))],
                        lambda r, inc=inc: [('expr', call(inc, I(r.randint(1, 3))))],
                        lambda r, sh=sh, x=x: [('print', call(sh)), ('print', V(x))],
                        lambda r, x=x: [('asg', x, None, ('bin', '*', V(x), I(2)))],
                        lambda r, x=x: [('print', V(x))]]
        elif kind == 'factory':
            mk = 'mk%d' % o
            # mk(start) returns a stepping closure over its own fresh variable c; a second closure shares c
            prog.append(('asg', mk, None, fn([('start', 'int')], ('fn', ('int',), 'int'), [
                ('asg', 'c', None, V('start')),
                ('asg', 'peek', None, fn([], 'int', [('ret', V('c'))])),
                ('asg', 'step', None, fn([('d', 'int')], 'int', [('mod', 'c', ('bin', '+', V('c'), V('d'))), ('ret', ('bin', '+', call('peek'), I(0)))])),
                ('ret', V('step'))])))
            a, b = 'a%d' % o, 'b%d' % o
            prog.append(('asg', a, None, call(mk, I(rng.randint(0, 3)))))
            prog.append(('asg', b, None, call(mk, I(rng.randint(10, 13)))))
            actions += [lambda r, a=a: [('print', call(a, I(r.randint(1, 2))))],
                        lambda r, b=b: [('print', call(b, I(r.randint(1, 2))))]]
        else:
            # depth-3 nesting: outer's variable captured by a closure created inside an inner function
            outer = 'outer%d' % o
            prog.append(('asg', outer, None, fn([('n', 'int')], 'int', [
                ('asg', 'acc', None, I(0)),
                ('asg', 'mid', None, fn([('k', 'int')], 'int', [
                    ('asg', 'add', None, fn([], None, [('mod', 'acc', ('bin', '+', V('acc'), ('bin', '+', V('k'), V('n'))))])),
                    ('expr', call('add')), ('expr', call('add')),
                    ('ret', V('acc'))])),
                ('asg', 'r1', None, call('mid', I(1))),
                ('asg', 'acc', None, ('bin', '+', V('acc'), I(100))),
                ('ret', ('bin', '+', V('r1'), call('mid', I(2))))])))
            actions += [lambda r, outer=outer: [('print', call(outer, I(r.randint(0, 3))))]]
    # a function that READS a captured variable, then shadows it with a plain assignment, then creates a nested
    # closure over the (now local) name: the nested closure must see the local, not the outer variable
    if rng.random() < 0.6:
        y = 'y%d' % idx
        prog.append(('asg', y, 'int', I(rng.randint(1, 5))))
        sh = 'shadow%d' % idx
        prog.append(('asg', sh, None, fn([], 'int', [
            ('asg', 'before', None, V(y)),
            ('asg', y, None, ('bin', '+', V('before'), I(100))),
            ('asg', 'inner', None, fn([], 'int', [('mod', y, ('bin', '+', V(y), I(1))), ('ret', V(y))])),
            ('ret', ('bin', '+', call('inner'), call('inner')))])))
        actions += [lambda r, sh=sh, y=y: [('print', call(sh)), ('print', V(y))],
                    lambda r, y=y: [('asg', y, None, ('bin', '+', V(y), I(1)))]]
    # an outer variable used ONLY as the fallback of `or` inside a function, called with nil and with a value
    if rng.random() < 0.6:
        dflt = 'dflt%d' % idx
        prog.append(('asg', dflt, 'int', I(rng.randint(40, 49))))
        orf = 'orf%d' % idx
        prog.append(('asg', orf, None, fn([('o', ('opt', 'int'))], 'int', [('ret', ('nilor', V('o'), V(dflt)))])))
        mk2 = 'mkor%d' % idx
        prog.append(('asg', mk2, None, fn([('fb', 'int')], ('fn', (('opt', 'int'),), 'int'), [
            ('asg', 'g', None, fn([('o', ('opt', 'int'))], 'int', [('ret', ('nilor', V('o'), V('fb')))])),
            ('ret', V('g'))])))
        h = 'h%d' % idx
        prog.append(('asg', h, None, call(mk2, I(rng.randint(70, 79)))))
        actions += [lambda r, orf=orf: [('print', call(orf, r.choice([('nil',), I(r.randint(1, 9))])))],
                    lambda r, h=h: [('print', call(h, r.choice([('nil',), I(r.randint(1, 9))])))],
                    lambda r, dflt=dflt: [('asg', dflt, None, ('bin', '+', V(dflt), I(1)))]]
    # a captured variable of FUNCTION type re-assigned by modify to another instance of the same literal
    if rng.random() < 0.5:
        mkc = 'mkc%d' % idx
        prog.append(('asg', mkc, None, fn([('start', 'int')], ('fn', (), 'int'), [
            ('asg', 'c', None, V('start')),
            ('asg', 'tick', None, fn([], 'int', [('mod', 'c', ('bin', '+', V('c'), I(1))), ('ret', V('c'))])),
            ('ret', V('tick'))])))
        cur = 'cur%d' % idx
        prog.append(('asg', cur, None, call(mkc, I(0))))
        prog.append(('asg', 'reset%d' % idx, None, fn([('s', 'int')], None, [('mod', cur, call(mkc, V('s')))])))
        prog.append(('asg', 'use%d' % idx, None, fn([], 'int', [('ret', call(cur))])))
        actions += [lambda r, idx=idx: [('print', call('use%d' % idx))],
                    lambda r, cur=cur: [('print', call(cur))],
                    lambda r, idx=idx: [('expr', call('reset%d' % idx, I(r.choice([100, 200]))))]]
    # a loop counter named like a captured variable: a loop-local for the duration of the loop only; after the loop the
    # name means the captured variable again (read, and modify writing through to the owner)
    if rng.random() < 0.5:
        off = 'off%d' % idx
        prog.append(('asg', off, 'int', I(rng.choice([100, 200]))))
        sm = 'sumto%d' % idx
        prog.append(('asg', sm, None, fn([('n', 'int')], 'int', [
            ('asg', 'acc', None, I(0)),
            ('from', I(1), ('bin', '+', V('n'), I(1)), False, None, off, False, [('asg', 'acc', None, ('bin', '+', V('acc'), V(off)))]),
            ('ret', ('bin', '+', V('acc'), V(off)))])))
        bump = 'bump%d' % idx
        prog.append(('asg', bump, None, fn([], 'int', [
            ('from', I(0), I(rng.randint(1, 3)), False, None, off, False, [('print', V(off))]),
            ('mod', off, ('bin', '+', V(off), I(1))),
            ('ret', V(off))])))
        actions += [lambda r, sm=sm: [('print', call(sm, I(r.randint(0, 3))))],
                    lambda r, bump=bump, off=off: [('print', call(bump)), ('print', V(off))],
                    lambda r, off=off: [('asg', off, None, ('bin', '+', V(off), I(5)))]]
        # the counter's name in the STEP is the counter (the step runs inside the loop): the function reads nothing of the
        # outer variable, so it does not capture it (T1 compares the capture list with Compile.free_vars)
        if rng.random() < 0.6:
            dbl = 'dbl%d' % idx
            stp = rng.choice([V(off), ('bin', '+', V(off), I(1))])
            prog.append(('asg', dbl, None, fn([], 'int', [
                ('asg', 'acc', None, I(0)),
                ('from', I(1), I(rng.choice([9, 20])), rng.random() < 0.5, stp, off, False, [('asg', 'acc', None, ('bin', '+', ('bin', '*', V('acc'), I(3)), V(off)))]),
                ('ret', V('acc'))])))
            actions += [lambda r, dbl=dbl: [('print', call(dbl))]]
        # the same with a `modify` of the captured variable BEFORE the loop: that statement writes the captured variable, it
        # does not declare a variable of this function, so the counter is still a loop-local and the reads / modify after
        # the loop mean the captured variable
        if rng.random() < 0.6:
            bumpm = 'bumpm%d' % idx
            prog.append(('asg', bumpm, None, fn([], 'int', [
                ('mod', off, ('bin', '+', V(off), I(rng.randint(1, 3)))),
                ('from', I(0), I(rng.randint(1, 3)), rng.random() < 0.5, None, off, False, [('print', V(off))]),
                ('asg', 'seen', None, V(off)),
                ('mod', off, ('bin', '+', V(off), I(1))),
                ('ret', ('bin', '+', ('bin', '*', V('seen'), I(1000)), V(off)))])))
            actions += [lambda r, bumpm=bumpm, off=off: [('print', call(bumpm)), ('print', V(off))]]
    # closures created INSIDE a block (if body, from / while iteration) over a variable declared in that block: the
    # variable outlives the block for as long as the closure does
    if rng.random() < 0.5:
        mkb = 'mkb%d' % idx
        a, b = rng.randint(2, 9), rng.randint(2, 9)
        prog.append(('asg', mkb, None, fn([('n', 'int')], ('fn', (), 'int'), [
            ('if', ('bin', '>', V('n'), I(0)), [
                ('asg', 'v', None, ('bin', '*', V('n'), I(a))),
                ('asg', 'g', None, fn([], 'int', [('ret', V('v'))])),
                ('ret', V('g'))]),
            ('asg', 'w', None, I(b)),
            ('asg', 'h', None, fn([], 'int', [('ret', V('w'))])),
            ('ret', V('h'))])))
        keep = 'keep%d' % idx
        prog.append(('asg', 'cb1_%d' % idx, None, call(mkb, I(rng.randint(1, 4)))))
        prog.append(('asg', 'cb0_%d' % idx, None, call(mkb, I(0))))
        prog.append(('asg', keep, None, fn([], 'int', [('ret', I(-1))])))
        pick = rng.randint(0, 2)
        prog.append(('from', I(0), I(3), False, None, 'bi%d' % idx, False, [
            ('asg', 'bk', None, ('bin', '*', V('bi%d' % idx), I(a))),
            ('asg', 'bg', None, fn([], 'int', [('ret', ('bin', '+', V('bk'), I(1)))])),
            ('if', ('bin', '==', V('bi%d' % idx), I(pick)), [('asg', keep, None, V('bg'))])]))
        actions += [lambda r, idx=idx: [('print', call('cb1_%d' % idx))],
                    lambda r, idx=idx: [('print', call('cb0_%d' % idx))],
                    lambda r, keep=keep: [('print', call(keep))]]
        if rng.random() < 0.5:
            zz = 'bz%d' % idx
            prog.append(('asg', zz, None, I(0)))
            prog.append(('while', ('bin', '<', V(zz), I(2)), [
                ('asg', zz, None, ('bin', '+', V(zz), I(1))),
                ('asg', 'wk', None, ('bin', '*', V(zz), I(100))),
                ('asg', 'wg', None, fn([], 'int', [('ret', ('bin', '+', V('wk'), V(zz)))])),
                ('if', ('bin', '==', V(zz), I(1)), [('asg', keep, None, V('wg'))])]))
    for _ in range(rng.randint(4, 12)):
        prog += rng.choice(actions)(rng)
    # passing a closure as an argument
    if rng.random() < 0.5:
        prog.append(('asg', 'apply2', None, fn([('f', ('fn', ('int',), 'int'))], 'int', [('ret', ('bin', '+', call('f', I(1)), call('f', I(1))))])))
        for o in range(n_owner):
            if any(s[0] == 'asg' and s[1] == 'a%d' % o for s in prog):
                prog.append(('print', call('apply2', V('a%d' % o))))
    return [coregen.Gen.norm_s(s) for s in prog]


def view_cases(rng, n):
    """(outside the Coq AST: lists and objects) `modify x = <element or field>` stores the VALUE read at that moment: a later
    write to the element / field must not show through x, for the owner or for any other closure (Python oracle)"""
    out = []
    for _ in range(n):
        vals = [rng.randint(1, 9) for _ in range(3)]
        i = rng.randint(0, 2)
        new = rng.randint(50, 99)
        fv = rng.randint(10, 40)
        form = rng.choice(["elem", "field", "elem-in-fn", "plain-assign"])
        pre = ("xs: [int...] = [%d, %d, %d]\nclass Box {\n  v: int\n  constructor(self, v: int) {\n    self.v = v\n  }\n}\nb = Box(%d)\nx = 0\n"
               "getx = fn() -> int {\n  return x\n}\n" % (vals[0], vals[1], vals[2], fv))
        if form == "elem":
            src = pre + "setx = fn(i: int) {\n  modify x = xs[i]\n}\nsetx(%d)\nprint x\nxs[%d] = %d\nprint x\nprint getx()\nprint xs[%d]\n" % (i, i, new, i)
            exp = [vals[i], vals[i], vals[i], new]
        elif form == "field":
            src = pre + "setx = fn() {\n  modify x = b.v\n}\nsetx()\nprint x\nb.v = %d\nprint x\nprint getx()\nprint b.v\n" % new
            exp = [fv, fv, fv, new]
        elif form == "elem-in-fn":
            src = pre + ("mk = fn() -> fn() -> int {\n  c = 0\n  take = fn(i: int) {\n    modify c = xs[i]\n  }\n  take(%d)\n  rd = fn() -> int {\n    return c\n  }\n  return rd\n}\n"
                         "r = mk()\nprint r()\nxs[%d] = %d\nprint r()\nxs.reverse()\nprint r()\n" % (i, i, new))
            exp = [vals[i], vals[i], vals[i]]
        else:
            src = pre + "x = xs[%d]\ny = b.v\nxs[%d] = %d\nb.v = %d\nprint x\nprint y\nprint getx()\n" % (i, i, new, new)
            exp = [vals[i], fv, vals[i]]
        out.append((src, [str(e) for e in exp]))
    return out


# ---- a captured variable is an ordinary variable in EVERY position of the function body (outside the Coq AST: lists,
# maps, strings, methods; Python oracle).  a = 1, bi = B2, k = "k", lst = [10, 20, 30], s = "hello", m = {"k": 1}
CAPTURE_POSITIONS = [
    ("list-index-read", "int", "return lst[a]", "20"),
    ("list-index-read-parenthesised", "int", "return (lst)[a]", "20"),
    ("list-index-bigint", "int", "return lst[bi]", "30"),
    ("list-index-write", "int", "lst[a] = 99\nreturn lst[a] + lst[0]", "109"),
    ("list-index-op-assign", "int", "lst[a] += 5\nreturn lst[a]", "25"),
    ("list-index-nested", "int", "return lst[lst[0] - 10 + a]", "20"),
    ("str-index", "str", "return s[a]", "e"),
    ("map-key-read", "int", "return m[k]", "1"),
    ("map-key-write", "int", "m[k] = 7\nreturn m[k]", "7"),
    ("map-key-op-assign", "int", "m[k] += 2\nreturn m[k]", "3"),
    ("arithmetic", "int", "return a + lst[0] * a", "11"),
    ("index-computed", "int", "return lst[a + 0]", "20"),
    ("index-local-copy", "int", "i = a\nreturn lst[i]", "20"),
    ("loop-bound", "int", "t = 0\nfrom 0 to a + 2, j {\nt = t + lst[j]\n}\nreturn t", "60"),
    ("loop-bound-start-step", "int", "t = 0\nfrom a through a step a {\nt = t + 1\n}\nreturn t", "1"),
    ("condition", "int", "if a == 1 && k == \"k\" {\nreturn 1\n}\nreturn 0", "1"),
    ("while-condition", "int", "t = a\nwhile t < lst[a] {\nt = t + 7\n}\nreturn t", "22"),
    ("negation", "int", "return -a", "-1"),
    ("call-argument", "int", "inner = fn(i: int) -> int {\nreturn i * 2\n}\nreturn inner(a) + inner(lst[a])", "42"),
    ("list-literal", "int", "t: [int...] = [a, lst[a]]\nreturn t[a]", "20"),
    ("concatenation", "str", "return s + k + a", "hellok1"),
]


def capture_position_cases():
    out = []
    decl_mod = "a = 1\nbi = B2\nk = \"k\"\nlst: [int...] = [10, 20, 30]\ns = \"hello\"\nm = map[str, int] { \"k\": 1 }\n"
    decl_fn = "bi = B2\nlst: [int...] = [10, 20, 30]\ns = \"hello\"\nm = map[str, int] { \"k\": 1 }\n"
    for pos, ret, body, exp in CAPTURE_POSITIONS:
        ind = lambda n: "".join("  " * n + l + "\n" for l in body.split("\n"))
        # the variables belong to the module, the function reads them
        out.append((pos, "module", decl_mod + "f = fn() -> %s {\n%s}\nprint f()\n" % (ret, ind(1)), [exp]))
        # they are parameters / locals of an enclosing function that has returned
        out.append((pos, "factory", "mk = fn(a: int, k: str) -> fn() -> %s {\n%s  g = fn() -> %s {\n%s  }\n  return g\n}\nh = mk(1, \"k\")\nprint h()\n"
                    % (ret, "".join("  " + l + "\n" for l in decl_fn.split("\n")[:-1]), ret, ind(2)), [exp]))
        # three function levels between the variable and its use
        out.append((pos, "depth-3", decl_mod + "o = fn() -> %s {\n  i1 = fn() -> %s {\n    i2 = fn() -> %s {\n%s    }\n    return i2()\n  }\n  return i1()\n}\nprint o()\n"
                    % (ret, ret, ret, ind(3)), [exp]))
        # the function is a method
        out.append((pos, "method", decl_mod + "class C {\n  v: int\n  constructor(self) {\n    self.v = 0\n  }\n  fn run(self) -> %s {\n%s  }\n}\nc = C()\nprint c.run()\n"
                    % (ret, ind(2)), [exp]))
    return out


# ---- `modify x = ..` writes the captured variable: it is not a declaration of the function.  What follows it in the same
# function is judged as if it were not there: a loop counter named x is a loop-local, a plain `x = ..` creates a local (of
# whatever type), and after either the reads / modifies of x that the language lets through mean what they meant before.
MODIFY_ALIAS_CASES = [
    ("counter-after-modify", "x = 1\nf = fn() -> int {\n  modify x = 10\n  from 0 to 3, x { }\n  r = x\n  modify x = x + 1\n  return r * 1000 + x\n}\nprint f()\nprint x\n", ["10011", "11"]),
    ("counter-before-modify", "x = 1\nf = fn() -> int {\n  from 0 to 3, x { }\n  modify x = 10\n  r = x\n  modify x = x + 1\n  return r * 1000 + x\n}\nprint f()\nprint x\n", ["10011", "11"]),
    ("stepped-counter-after-modify", "x = 1\nf = fn() -> int {\n  modify x = 10\n  t = 0\n  from 0 through 4 step 2, x {\n    t = t + x\n  }\n  modify x = x + 1\n  return t * 100 + x\n}\nprint f()\nprint x\n", ["611", "11"]),
    ("counter-after-modify-enclosing-function",
     "mk = fn() -> fn() -> int {\n  c = 1\n  g = fn() -> int {\n    modify c = c + 9\n    from 0 to 3, c { }\n    r = c\n    modify c = c + 1\n    return r * 1000 + c\n  }\n  return g\n}\nh = mk()\nprint h()\nprint h()\n",
     ["10011", "20021"]),
    ("counter-in-block-after-modify", "x = 1\ng = fn() -> int {\n  modify x = 20\n  if true {\n    from 0 through 2, x {\n      print x\n    }\n  }\n  modify x = x + 1\n  return x\n}\nprint g()\nprint x\n", ["0", "1", "2", "21", "21"]),
    ("local-of-other-type-after-modify", "x = 5\nf = fn() -> str {\n  modify x = 6\n  x = \"text\"\n  return x\n}\nprint f()\nprint x\n", ["text", "6"]),
    ("typed-local-of-other-type-after-modify", "x = 5\nf = fn() -> str {\n  modify x = 6\n  x: str = \"text\"\n  return x + \"!\"\n}\nprint f()\nprint x\n", ["text!", "6"]),
    ("local-of-other-type-without-modify", "x = 5\nf = fn() -> str {\n  x = \"text\"\n  return x\n}\nprint f()\nprint x\n", ["text", "5"]),
    ("local-of-same-type-after-modify", "x = 1\nf = fn() -> int {\n  modify x = 10\n  x = 5\n  x = x + 1\n  return x\n}\nprint f()\nprint x\n", ["6", "10"]),
]


# ---- "a function that captures nothing is not a closure": what a function captures is decided by what its body MEANS.  The
# step of a from loop is evaluated inside the loop, where the counter's name is the counter: a step that mentions it reads
# the counter, not a same-named variable of an enclosing scope (the bounds are evaluated outside and do read that variable)
CLOSURE_FLAG_CASES = [
    ("step-names-counter", "i = 3\nf = fn() {\n  from 1 to 9 step i, i {\n    print i\n  }\n}\nprint f.is_closure()\nf()\nprint i\n", ["false", "1", "2", "4", "8", "3"]),
    ("step-expression-names-counter", "i = 3\nf = fn() -> int {\n  t = 0\n  from 0 through 6 step i + 1, i {\n    t = t * 10 + i\n  }\n  return t\n}\nprint f.is_closure()\nprint f()\n", ["false", "13"]),
    ("step-names-counter-in-factory", "mk = fn(i: int) -> fn() -> int {\n  g = fn() -> int {\n    t = 0\n    from 1 to 20 step i, i {\n      t = t + i\n    }\n    return t\n  }\n  return g\n}\nh = mk(5)\nprint h.is_closure()\nprint h()\n", ["false", "31"]),
    ("step-names-other-variable", "i = 3\nf = fn() {\n  from 1 to 9 step i, j {\n    print j\n  }\n}\nprint f.is_closure()\nf()\n", ["true", "1", "4", "7"]),
    ("lower-bound-names-outer", "i = 3\nf = fn() {\n  from i to 6, i {\n    print i\n  }\n  print i\n}\nprint f.is_closure()\nf()\n", ["true", "3", "4", "5", "3"]),
    ("body-names-counter-only", "i = 3\nf = fn() {\n  from 0 to 2, i {\n    print i\n  }\n}\nprint f.is_closure()\nf()\nprint i\n", ["false", "0", "1", "3"]),
    ("captures-nothing", "f = fn(a: int) -> int {\n  b = a + 1\n  return b\n}\nprint f.is_closure()\nprint f(1)\n", ["false", "2"]),
    ("captures-by-read", "x = 1\nf = fn() -> int {\n  return x\n}\nprint f.is_closure()\nx = 5\nprint f()\n", ["true", "5"]),
]

# ---- a closure stored where it can reach itself: in the list it captured, in the captured variable another function
# installs it into with `modify`; the owner of that variable goes on with ordinary statements afterwards
SELF_CAPTURE_CASES = [
    ("stored-in-captured-list", "variable-index", "handlers: [fn() -> int...] = []\nhandlers.push(fn() -> int {\n  return handlers.len()\n})\nprint (handlers[0])()\nk = 0\nprint (handlers[k])()\nprint \"done\"\n", ["1", "1", "done"]),
    ("stored-in-captured-list", "from-loop", "handlers: [fn() -> int...] = []\nhandlers.push(fn() -> int {\n  return handlers.len() * 10\n})\nfrom 0 to 2, i {\n  handlers.push(handlers[0])\n  print (handlers[0])() + i\n}\nprint \"done\"\n", ["20", "31", "done"]),
    ("installed-by-modify", "variable-index", "count = 0\ntick = fn() -> int {\n  return 0\n}\nmk = fn() {\n  next = fn() -> int {\n    modify count = count + 1\n    if count < 3 {\n      return tick()\n    }\n    return count\n  }\n  modify tick = next\n}\nmk()\nprint tick()\nxs: [int...] = [10, 20, 30]\nk = 1\nprint xs[k]\nprint count\nprint \"done\"\n", ["3", "20", "3", "done"]),
    ("installed-by-modify", "from-loop", "count = 0\ntick = fn() -> int {\n  return 0\n}\nmk = fn() {\n  next = fn() -> int {\n    modify count = count + 1\n    if count % 2 == 1 {\n      return tick()\n    }\n    return count\n  }\n  modify tick = next\n}\nmk()\nfrom 0 to 2 {\n  print tick()\n}\nprint count\n", ["2", "4", "4"]),
    ("installed-by-modify", "list-literal", "count = 0\ntick = fn() -> int {\n  return 0\n}\nmk = fn() {\n  next = fn() -> int {\n    modify count = count + 1\n    if count % 2 == 1 {\n      return tick()\n    }\n    return count\n  }\n  modify tick = next\n}\nmk()\nl: [int...] = [tick(), tick()]\nprint l\nprint count\n", ["[2, 4]", "4"]),
    ("owner-function-local", "from-loop", "mk = fn() -> int {\n  step = fn(n: int) -> int {\n    return n\n  }\n  step = fn(n: int) -> int {\n    if n == 0 {\n      return 0\n    }\n    return step(n - 1) + 1\n  }\n  t = 0\n  from 0 to 3, i {\n    t = t + step(i)\n  }\n  return t\n}\nprint mk()\nprint mk()\n", ["3", "3"]),
]


# ---- one variable, one cell: every form by which the OWNER writes a variable after a closure captured it must be seen by
# that closure, and a later `modify` from the closure must still reach the owner (`=` at the owner's level and from inside
# each kind of block, compound assignment, `?=`); and a closure that shadows the captured name with a local of its own
# updates the local -- never the captured variable -- with compound assignments and loop counters.
RD = "rd = fn() -> int {\n  return x\n}\nbump = fn() {\n  modify x = x + 100\n}\n"
OWNER_WRITE_CASES = [
    ("owner-assign-same-level", "x = 1\n" + RD + "x = 5\nprint rd()\nbump()\nprint x\nprint rd()\n", ["5", "105", "105"]),
    ("owner-assign-in-if", "x = 1\n" + RD + "if x == 1 {\n  x = 5\n}\nprint rd()\nbump()\nprint x\nprint rd()\n", ["5", "105", "105"]),
    ("owner-assign-in-else", "x = 1\n" + RD + "if x == 2 {\n  x = 9\n} else {\n  x = 5\n}\nprint rd()\nbump()\nprint x\n", ["5", "105"]),
    ("owner-assign-in-while", "x = 1\n" + RD + "k = 0\nwhile k < 3 {\n  x = x + rd()\n  k = k + 1\n  print rd()\n}\nbump()\nprint x\nprint rd()\n", ["2", "4", "8", "108", "108"]),
    ("owner-assign-in-from", "x = 0\n" + RD + "from 1 through 3, i {\n  x = rd() + i\n  print rd()\n}\nif x > 5 {\n  x = 0\n}\nprint rd()\nx = 7\nprint rd()\n", ["1", "3", "6", "0", "7"]),
    ("owner-assign-in-nested-blocks", "x = 1\n" + RD + "from 0 to 2, i {\n  if i == 1 {\n    while x < 4 {\n      x = x + 1\n    }\n  }\n  print rd()\n}\nbump()\nprint x\n", ["1", "4", "104"]),
    ("owner-assign-in-function-block", "mk = fn() -> fn() -> int {\n  c = 1\n  g = fn() -> int {\n    return c\n  }\n  if c == 1 {\n    c = 50\n  }\n  from 0 to 2 {\n    c = c + 1\n  }\n  return g\n}\nh = mk()\nprint h()\n", ["52"]),
    ("owner-op-assign", "x = 1\n" + RD + "x += 4\nprint rd()\nif true {\n  x *= 2\n}\nprint rd()\nbump()\nprint x\n", ["5", "10", "110"]),
    ("owner-unwrap-into", "x: int? = 1\nrd = fn() -> int? {\n  return x\n}\nbump = fn() {\n  modify x = 100\n}\nprint rd()\nnext: int? = 7\nok = x ?= next\nprint ok\nprint x\nprint rd()\nbump()\nprint x\nprint rd()\n",
     ["1", "true", "7", "7", "100", "100"]),
    ("owner-unwrap-into-nil", "x: int? = 1\nrd = fn() -> int? {\n  return x\n}\nnone: int? = nil\nok = x ?= none\nprint ok\nprint rd()\nnext: int? = 3\nif x ?= next {\n  print rd()\n}\nprint rd()\n", ["false", "nil", "3", "3"]),       # a failed ?= stores the nil (Vm/Model.v DUnwrapInto)
    ("owner-unwrap-into-in-factory", "mk = fn() -> fn() -> int? {\n  v: int? = 10\n  peek = fn() -> int? {\n    return v\n  }\n  fresh: int? = 42\n  if v ?= fresh {\n    print v\n  }\n  return peek\n}\np = mk()\nprint p()\n", ["42", "42"]),
    # `x ?= n` in a function is an assignment form: like a plain `=` it declares a local there
    ("closure-unwrap-into-declares-local", "x: int? = 1\nset = fn(n: int?) -> bool {\n  r = x ?= n\n  return r\n}\nrd = fn() -> int? {\n  return x\n}\nprint set(9)\nprint x\nprint rd()\n", ["true", "1", "1"]),
    ("shadow-then-op-assign", "x = 1\nrd = fn() -> int {\n  return x\n}\nsc = fn() -> int {\n  x = x * 10\n  x += 5\n  return x\n}\nprint sc()\nprint x\nprint rd()\nprint sc()\nprint x\n", ["15", "1", "1", "15", "1"]),
    ("shadow-then-op-assign-in-factory", "mk = fn(start: int) -> fn(int) -> int {\n  acc = start\n  return fn(step: int) -> int {\n    acc = acc + step\n    acc += 1\n    return acc\n  }\n}\na = mk(100)\nb = mk(200)\nprint a(5)\nprint a(5)\nprint b(1)\n", ["106", "106", "202"]),
    ("shadow-then-each-op-assign", "x = 7\nsc = fn() -> int {\n  x = x + 1\n  x -= 2\n  x *= 3\n  x /= 2\n  x %= 5\n  return x\n}\nprint sc()\nprint x\n", ["4", "7"]),
    ("shadow-then-counter", "x = 1\nrd = fn() -> int {\n  return x\n}\nsc = fn() -> int {\n  x = x * 10\n  t = 0\n  from 0 to 3, x {\n    t = t + x\n  }\n  return t\n}\nprint sc()\nprint x\nprint rd()\n", ["3", "1", "1"]),
    # the variable is LOCAL TO A BLOCK (body of if / else / while / from); a closure made there captures it; the owner writes it again in that block
    ("block-local-in-while", "rs: [fn() -> int...] = []\ni = 0\nwhile i < 3 {\n  v = i * 10\n  rs.push(fn() -> int {\n    return v\n  })\n  v = v + 1\n  i = i + 1\n}\na = rs[0]\nb = rs[1]\nc = rs[2]\nprint a()\nprint b()\nprint c()\n", ["1", "11", "21"]),
    ("block-local-in-from", "rs: [fn() -> int...] = []\nfrom 0 to 3, i {\n  v = i * 10\n  rs.push(fn() -> int {\n    return v\n  })\n  v = v + 1\n  v = v + 1\n}\na = rs[0]\nc = rs[2]\nprint a()\nprint c()\n", ["2", "22"]),
    ("block-local-in-if", "i = 3\nif i == 3 {\n  t = 0\n  add = fn(n: int) {\n    modify t = t + n\n  }\n  peek = fn() -> int {\n    return t\n  }\n  add(1)\n  t = 10\n  add(5)\n  print t\n  print peek()\n}\n", ["15", "15"]),
    ("block-local-in-else", "i = 3\nif i == 4 {\n  print 0\n} else {\n  t = 0\n  peek = fn() -> int {\n    return t\n  }\n  t = 10\n  print peek()\n  t = t + 1\n  print peek()\n}\n", ["10", "11"]),
    ("block-local-in-function-block", "mk = fn(k: int) -> fn() -> int {\n  if k > 0 {\n    t = k\n    peek = fn() -> int {\n      return t\n    }\n    t = t * 2\n    t = t + 1\n    return peek\n  }\n  return fn() -> int {\n    return 0\n  }\n}\nh = mk(5)\nprint h()\ng = mk(7)\nprint g()\nprint h()\n", ["11", "15", "11"]),
    ("block-local-nested-blocks", "from 0 to 2, i {\n  if i == 1 {\n    t = 5\n    bump = fn() {\n      modify t = t + 1\n    }\n    t = 7\n    bump()\n    print t\n    k = 0\n    while k < 2 {\n      k = k + 1\n      t = t + 10\n    }\n    bump()\n    print t\n  }\n}\n", ["8", "29"]),
    # a field is a variable of the class body: methods, the constructor and closures made in methods reach it by its bare name, and that is the SAME variable as obj.field / self.field
    ("field-bare-name-and-object-access", "class Meter {\n  total: int\n  constructor(self, start: int) {\n    modify total = start\n  }\n  fn add(self, n: int) {\n    modify total = total + n\n  }\n"
     "  fn reader(self) -> fn() -> int {\n    return fn() -> int {\n      return total\n    }\n  }\n}\nm = Meter(10)\nr = m.reader()\nm.add(5)\nprint r()\nprint m.total\nm.total = 100\nprint r()\nm.add(1)\nprint m.total\n"
     "o = Meter(7)\no.add(1)\nprint o.total\nprint m.total\n", ["15", "15", "100", "101", "8", "101"]),
    ("field-self-write-seen-by-bare-name", "class Tank {\n  level: int\n  constructor(self) {\n    self.level = 10\n  }\n  fn reading(self) -> int {\n    return level\n  }\n  fn fill(self, n: int) {\n    self.level = self.level + n\n  }\n  fn reset(self) {\n    modify level = 0\n  }\n}\n"
     "t = Tank()\nprint t.reading()\nt.fill(60)\nprint t.reading()\nu = Tank()\nu.fill(1)\nprint u.reading()\nprint t.reading()\nt.reset()\nprint t.level\nprint u.level\n", ["10", "70", "11", "70", "0", "11"]),
    ("captured-op-assign-writes-through", "x = 1\nrd = fn() -> int {\n  return x\n}\nadd = fn() -> int {\n  x += 5\n  return x\n}\nprint add()\nprint x\nprint rd()\n", ["6", "6", "6"]),
]


# ---- closures produced through a built-in higher-order method: `list.map(callback)` collects one closure per element; each
# owns the variables of ITS execution of the callback and shares those of the enclosing scopes.  The closures are taken out
# of the collected list (constant / variable / loop index, `remove`, `filter` first) and called, at module level and inside a
# function; the annotated spelling (`fs: [fn() -> int...] = ..`) is the control.
MK3 = "l: [int...] = [1, 2, 3]\ntotal = 0\nfs%s = l.map(fn(x: int) -> fn() -> int {\n  y = x * 2\n  return fn() -> int {\n    modify y = y + 1\n    modify total = total + 1\n    return y\n  }\n})\n"
TEN = "l: [int...] = [1, 2, 3]\nfs = l.map(fn(x: int) -> fn() -> int {\n  return fn() -> int {\n    return x * 10\n  }\n})\n"
COLLECTED_CASES = [
    ("annotated-control", "index", MK3 % ": [fn() -> int...]" + "g = fs[0]\nprint g()\nprint g()\nh = fs[2]\nprint h()\nprint total\n", ["3", "4", "7", "3"]),
    ("fresh-variables-per-callback-run", "index", MK3 % "" + "g = fs[0]\nprint g()\nprint g()\nh = fs[2]\nprint h()\nprint total\n", ["3", "4", "7", "3"]),
    ("called-in-place", "index", TEN + "print (fs[1])()\nk = 2\nprint (fs[k])()\nfrom 0 to 3, i {\n  f = fs[i]\n  print f()\n}\n", ["20", "30", "10", "20", "30"]),
    ("owner-assignment-seen", "index", "base = 1\nl: [int...] = [1, 2]\nfs = l.map(fn(x: int) -> fn() -> int {\n  return fn() -> int {\n    return base + x\n  }\n})\nf = fs[1]\nprint f()\nbase = 10\nprint f()\ng = fs[0]\nprint g()\n",
     ["3", "12", "11"]),
    ("inside-a-function", "index", "mk = fn(l: [int...]) -> int {\n  c = 0\n  fs = l.map(fn(x: int) -> fn() -> int {\n    return fn() -> int {\n      modify c = c + x\n      return c\n    }\n  })\n  a = fs[0]\n  b = fs[1]\n  a()\n  b()\n  r = a()\n  return r * 100 + c\n}\nprint mk([1, 2, 3])\nprint mk([5, 5])\n",
     ["404", "1515"]),
    ("passed-as-argument", "index", TEN + "apply = fn(f: fn() -> int) -> int {\n  return f() + 1\n}\nprint apply(fs[2])\nprint fs.map(fn(f: fn() -> int) -> int {\n  return f()\n})\n", ["31", "[10, 20, 30]"]),
    ("filtered-then-called", "index", TEN + "ev = fs.filter(fn(f: fn() -> int) -> bool {\n  return f() > 10\n})\nh = ev[0]\nprint h()\nprint ev.len()\n", ["20", "2"]),
    ("closure-over-a-collected-list", "index", "l: [int...] = [1, 2]\nll = l.map(fn(x: int) -> [int...] {\n  return [x, x + 1]\n})\nfs = ll.map(fn(q: [int...]) -> fn() -> int {\n  return fn() -> int {\n    return q[0] + q[1]\n  }\n})\ng = fs[1]\nprint g()\n", ["5"]),
    ("removed-then-called", "remove", TEN + "g = fs.remove(0)\nprint g()\nprint fs.len()\nh = fs[0]\nprint h()\n", ["10", "2", "20"]),
]


# ---- an UNPACKING assignment inside a function declares locals like a plain `x = ..` does; its right side is evaluated first,
# in the scope as it was: a name on the right that is also declared on the left reads the variable of the ENCLOSING scope
# (`[a, b] = [b, a]`, the swap into locals), which therefore is captured, and is left untouched by the assignment
UNPACK_CASES = [
    ("swap-in-factory", "mk = fn() -> fn() -> int {\n  a = 1\n  b = 2\n  return fn() -> int {\n    [a, b] = [b, a]\n    return a * 10 + b\n  }\n}\ng = mk()\nprint g()\nprint g()\n", ["21", "21"]),
    ("single-name-module", "x = 5\nf = fn() -> int {\n  [x] = [x]\n  return x + 1\n}\nprint f()\nprint x\nx = 7\nprint f()\n", ["6", "5", "8"]),
    ("swap-in-method", "a = 1\nb = 2\nclass S {\n  fn swap(self) -> int {\n    [a, b] = [b, a]\n    return a * 10 + b\n  }\n}\nprint (S()).swap()\nprint a\nprint b\n", ["21", "1", "2"]),
    ("last-name-only", "b = 2\nf = fn() -> int {\n  [q, b] = [1, b]\n  return q * 10 + b\n}\nprint f()\nb = 3\nprint f()\nprint b\n", ["12", "13", "3"]),
    ("first-name-only", "b = 2\nf = fn() -> int {\n  [b, q] = [b, 1]\n  return b * 10 + q\n}\nprint f()\nprint b\n", ["21", "2"]),
    ("const-swap", "a = 1\nb = 2\nf = fn() -> int {\n  const [a, b] = [b, a]\n  return a * 10 + b\n}\nprint f()\nprint a\n", ["21", "1"]),
    ("swap-depth-3", "a = 1\nb = 2\no = fn() -> int {\n  i1 = fn() -> int {\n    i2 = fn() -> int {\n      [a, b] = [b, a]\n      return a * 10 + b\n    }\n    return i2()\n  }\n  return i1()\n}\nprint o()\nprint a\n", ["21", "1"]),
    ("unpacked-names-are-locals", "a = 1\nb = 2\nrd = fn() -> int {\n  return a * 10 + b\n}\nf = fn() -> int {\n  [a, b] = [b, a]\n  a = a + 5\n  b += 1\n  return a * 10 + b\n}\nprint f()\nprint rd()\nprint f()\n", ["72", "12", "72"]),
    ("expression-elements", "a = 1\nb = 2\nf = fn() -> int {\n  [a, b] = [a + b, a * 10]\n  return a * 100 + b\n}\nprint f()\nprint a + b\n", ["310", "3"]),
    ("from-a-captured-list", "p: [int...] = [4, 6]\nf = fn() -> int {\n  [p, q] = [p[1], p[0]]\n  return p * 10 + q\n}\nprint f()\nprint p\n", ["64", "[4, 6]"]),
    ("str-and-int", "n = 3\ns = \"ab\"\nf = fn() -> str {\n  [s, n] = [s + \"!\", n + 1]\n  return s + n\n}\nprint f()\nprint s + n\n", ["ab!4", "ab3"]),
    ("in-a-block", "a = 1\nb = 2\nf = fn(k: int) -> int {\n  if k > 0 {\n    [a, b] = [b, a]\n    return a * 10 + b\n  }\n  return a * 10 + b\n}\nprint f(1)\nprint f(0)\n", ["21", "12"]),
    ("after-modify", "a = 1\nb = 2\nf = fn() -> int {\n  modify a = a + 10\n  [a, b] = [b, a]\n  return a * 100 + b\n}\nprint f()\nprint a\nprint f()\n", ["211", "11", "221"]),
    ("other-names-control", "mk = fn() -> fn() -> int {\n  a = 1\n  b = 2\n  return fn() -> int {\n    [x, y] = [b, a]\n    return x * 10 + y\n  }\n}\ng = mk()\nprint g()\nprint g()\n", ["21", "21"]),
]


def run(ctx):
    ok = core.coq_props(ctx, "Props/C07.v")
    binary = core.build_repo()
    projs = []
    for i in range(200 if ctx.quick() else 3000):
        tree = coregen.assign_spans(gen_program(ctx.rng, i), "main.ms")
        projs.append({"name": "closure%d" % i, "files": {"main.ms": coregen.render_ms(tree)}, "entry": "main.ms", "tree": tree})
    results = coretie.tie_all(ctx, binary, projs, "c07")
    st = coretie.report_results(ctx, binary, results, "c07")
    rej = [r for r in results if r["status"] == "rejected"]
    if len(rej) > len(results) // 4:
        ctx.report("generator-degraded", "%d of %d closure programs are rejected by the compiler: %s" % (len(rej), len(results), rej[0].get("stderr", "")[-300:]),
                   {"project": coretie.slim(rej[0]["proj"])}, found_input=False)
    from . import programs
    base = ctx.mktemp()
    vcs = view_cases(ctx.rng, 40 if ctx.quick() else 400)

    def one_view(c):
        d = programs.materialize({"files": {"main.ms": c[0]}}, base)
        return programs.run_bin(binary, ["run", "main.ms", "-q"], d)
    for (src, exp), (rc, out, err) in zip(vcs, programs.pmap(one_view, vcs)):
        got = out.split("\n")[:-1]
        if rc != 0 or got != exp:
            ctx.report("semantics:captured-value-is-a-view", "a captured / assigned variable must hold the value read, not a view of the element or field: printed %r (exit %d), expected %r" % (got, rc, exp),
                       {"program": src, "expected": exp, "observed": got, "rc": rc, "stderr": err[-300:], "how": "mscript run main.ms -q"})
    cps = capture_position_cases()
    for (pos, where, src, exp), (rc, out, err) in zip(cps, programs.pmap(one_view, [(c[2], c[3]) for c in cps])):
        got = out.split("\n")[:-1]
        if rc != 0 or got != exp:
            refused = "Did not compile" in (out + err)
            # one class per kind of use: the positions that index with the captured variable / use it as a map key share one
            kind = "as-index" if any(t in src for t in ("lst[a]", "lst[bi]", "(lst)[a]", "s[a]")) else "as-map-key" if "m[k]" in src else pos
            ctx.report("captured-variable:" + kind, "a captured variable used as %s (%s): %s, expected %r: %s"
                       % (pos, where, "the program is refused" if refused else "printed %r (exit %d)" % (got, rc), exp, (out + err)[-300:].replace("\n", " ")),
                       {"program": src, "expected": exp, "observed": got, "rc": rc, "stderr": err[-600:], "how": "mscript run main.ms -q"})
    for (form, src, exp), (rc, out, err) in zip(MODIFY_ALIAS_CASES, programs.pmap(one_view, [(c[1], c[2]) for c in MODIFY_ALIAS_CASES])):
        got = out.split("\n")[:-1]
        if rc != 0 or got != exp:
            refused = "Did not compile" in (out + err)
            kind = "loop-counter" if "counter" in form else "local-assignment"
            ctx.report("modify-is-not-a-declaration:" + kind, "what follows a `modify` of a captured variable in the same function (%s): %s, expected %r: %s"
                       % (form, "the program is refused" if refused else "printed %r (exit %d)" % (got, rc), exp, (out + err)[-300:].replace("\n", " ")),
                       {"program": src, "expected": exp, "observed": got, "rc": rc, "stderr": err[-600:], "how": "mscript run main.ms -q"})
    for (form, src, exp), (rc, out, err) in zip(CLOSURE_FLAG_CASES, programs.pmap(one_view, [(c[1], c[2]) for c in CLOSURE_FLAG_CASES])):
        got = out.split("\n")[:-1]
        if rc != 0 or got != exp:
            refused = "Did not compile" in (out + err)
            kind = "loop-step-resolved-outside-the-loop" if form.startswith("step-") else "is-closure"
            ctx.report("captures-nothing-is-not-a-closure:" + kind, "what a function captures follows what its body means (%s): %s, expected %r: %s"
                       % (form, "the program is refused" if refused else "printed %r (exit %d)" % (got, rc), exp, (out + err)[-300:].replace("\n", " ") if rc != 0 else ""),
                       {"program": src, "expected": exp, "observed": got, "rc": rc, "stderr": err[-600:], "how": "mscript run main.ms -q"})
    for (form, then, src, exp), (rc, out, err) in zip(SELF_CAPTURE_CASES, programs.pmap(one_view, [(c[2], c[3]) for c in SELF_CAPTURE_CASES])):
        got = out.split("\n")[:-1]
        if rc != 0 or got != exp:
            refused = "Did not compile" in (out + err)
            ctx.report("closure-reachable-from-its-own-capture:" + then, "a closure reachable from a variable it captured (%s), whose owner then runs %s: %s, expected %r: %s"
                       % (form, then, "the program is refused" if refused else "printed %r (exit %d)" % (got, rc), exp, (out + err)[-300:].replace("\n", " ")),
                       {"program": src, "expected": exp, "observed": got, "rc": rc, "stderr": err[-600:], "how": "mscript run main.ms -q"})
    for (form, src, exp), (rc, out, err) in zip(OWNER_WRITE_CASES, programs.pmap(one_view, [(c[1], c[2]) for c in OWNER_WRITE_CASES])):
        got = out.split("\n")[:-1]
        if rc != 0 or got != exp:
            refused = "Did not compile" in (out + err)
            kind = "shadowing-local" if form.startswith("shadow") else "unwrap-into" if "unwrap-into" in form else "block-local" if form.startswith("block-local") else "field" if form.startswith("field") else "owner-write"
            ctx.report("one-variable-one-cell:" + kind, "owner and closures share ONE variable, a shadowing local is a different one (%s): %s, expected %r: %s"
                       % (form, "the program is refused" if refused else "printed %r (exit %d)" % (got, rc), exp, (out + err)[-300:].replace("\n", " ") if rc != 0 else ""),
                       {"program": src, "expected": exp, "observed": got, "rc": rc, "stderr": err[-600:], "how": "mscript run main.ms -q"})
    for (form, how, src, exp), (rc, out, err) in zip(COLLECTED_CASES, programs.pmap(one_view, [(c[2], c[3]) for c in COLLECTED_CASES])):
        got = out.split("\n")[:-1]
        if rc != 0 or got != exp:
            refused = "Did not compile" in (out + err)
            ctx.report("closures-collected-by-map:" + ("not-callable-after-" + how if refused else "history"),
                       "closures collected by `list.map` and taken out of the result by %s (%s): %s, expected %r: %s"
                       % (how, form, "the program is refused" if refused else "printed %r (exit %d)" % (got, rc), exp, (out + err)[-300:].replace("\n", " ") if rc != 0 else ""),
                       {"program": src, "expected": exp, "observed": got, "rc": rc, "stderr": err[-600:], "how": "mscript run main.ms -q"})
    for (form, src, exp), (rc, out, err) in zip(UNPACK_CASES, programs.pmap(one_view, [(c[1], c[2]) for c in UNPACK_CASES])):
        got = out.split("\n")[:-1]
        if rc != 0 or got != exp:
            refused = "Did not compile" in (out + err)
            ctx.report("unpacking-reads-captured-variable-of-a-declared-name", "an unpacking assignment in a function whose right side reads outer variables (%s): %s, expected %r: %s"
                       % (form, "the program is refused" if refused else "printed %r (exit %d)" % (got, rc), exp, (out + err)[-300:].replace("\n", " ") if rc != 0 else ""),
                       {"program": src, "expected": exp, "observed": got, "rc": rc, "stderr": err[-600:], "how": "mscript run main.ms -q"})
    ctx.cov["unpack_cases"] = len(UNPACK_CASES)
    ctx.cov["collected_by_map_cases"] = len(COLLECTED_CASES)
    ctx.cov["owner_write_cases"] = len(OWNER_WRITE_CASES)
    ctx.cov["closure_flag_cases"] = len(CLOSURE_FLAG_CASES)
    ctx.cov["self_capture_cases"] = len(SELF_CAPTURE_CASES)
    ctx.cov["view_cases"] = len(vcs)
    ctx.cov["capture_position_cases"] = len(cps)
    ctx.cov["modify_alias_cases"] = len(MODIFY_ALIAS_CASES)
    ctx.cov["evaluations"] = st["programs"] + len(vcs) + len(cps) + len(MODIFY_ALIAS_CASES) + len(CLOSURE_FLAG_CASES) + len(SELF_CAPTURE_CASES) + len(OWNER_WRITE_CASES) + len(COLLECTED_CASES) + len(UNPACK_CASES)
    ctx.cov["distinct_nontrivial"] = len(set(r["proj"]["files"]["main.ms"] for r in results if r["status"] == "ran" and "modify" in r["proj"]["files"]["main.ms"]))
    ctx.cov["rule"] = ("closure programs: 1-3 owners (module-level variable with reader/writer/shadowing closures; factory returning a stepping closure that "
                       "shares a cell with a second closure, instantiated twice; depth-3 nesting with a modify from the innermost function), random histories of "
                       "4-12 calls / owner assignments, closures passed as arguments; non-trivial = distinct program containing a modify; plus (Python oracle) "
                       "a captured variable in 21 positions of a function body x {module, factory, depth 3, method} and the statements that may follow a modify")
    ctx.cov["statistics"] = st
    ctx.cov["traces_validated_against_impl"] = st["t2_agree"]
    ctx.sample({"program": projs[0]["files"]["main.ms"][:900]})
    ctx.cov["trusted_base"] = ["Coq 8.16.1 kernel; no axioms", "extraction + drivers", "hooks H1/H3"]
    ctx.assumptions = ["Lang/Eval.v (lexical scoping, capture by reference, modify writes the captured cell, plain assignment declares a local) is the specification",
                       "capture lists: T1 compares the make_function arguments of the real compiler with Compile.free_vars as sets"]
    spec_failed = any(v[0].startswith(("semantics:", "captured-variable:", "modify-is-not-a-declaration:", "captures-nothing-is-not-a-closure:", "closure-reachable-from-its-own-capture:", "one-variable-one-cell:", "closures-collected-by-map:", "unpacking-reads-captured-variable")) for v in ctx.viol)
    core.proof_or_search(ctx, ok, ["C07 obligations"], spec_failed)
