"""C20: `mscript clean DIR` deletes exactly the files directly inside DIR whose extension is `mmm`,
reports how many it removed, and never deletes or alters anything else.

Tie T7: generated directory trees are created in scratch directories, snapshotted recursively
(names, kinds, content hashes, link texts, inode, mtime), `mscript clean` is run on them, they are
snapshotted again; the difference is compared (a) with the prediction of the Coq model
Clean.Model.clean evaluated by coqc on the same entry list in the same read_dir order and (b) with
the property's own specification written independently here."""
import ast
import hashlib
import itertools
import os
import re
import shutil
import tempfile

from . import core, programs

# names of the property's list ...
PROP_NAMES = ["x.mmm", "x.ms", "x.mmm.bak", "x.transpiled.mmm", ".mmm", "mmm", "x.MMM", "x.mmm~"]
# ... "names with spaces / dots / non-ASCII" (used in the exhaustive part)
SPECIAL = ["a b.mmm", "a.b.mmm", "é.mmm", ".cache.mmm", ".a.ms.mmm"]     # hidden names with a real extension
# more near misses for the random stream
EXTRA = ["x.", "x.mmm.", "..mmm", "...", "x..mmm", " .mmm", "x. mmm", "x.mmm ", "x.Mmm", "x.mm", "x.mmmm", "mmm.x",
         "日本 語.transpiled.mmm", "ü.MMM", "y.mmm", "z.mmm", "main.ms", "main.mmm", "x.mmm.mmm", "-r.mmm", "*.mmm"]
KINDS = ["file", "dir", "link-file", "link-dir", "dangling"]
KIND_COQ = {"file": "KFile", "dir": "KDir", "link-file": "KLinkFile", "link-dir": "KLinkDir", "dangling": "KDangling"}
DIRNAMES = ["proj", "my dir", "build.mmm", "été", "a.b", "tools.ms", "x.MS", "src.mmm.ms"]     # the DIRECTORY may be named like a source or bytecode file
INVOKE = ["abs", "rel", "rel-slash", "dot", "default", "dotslash"]
ANSI = re.compile(r"\x1b\[[0-9;]*m")


# ---------------------------------------------------------------- the property's specification (independent of the model)

def spec_extension(nm):
    """extension of a file name in the everyday sense the property uses: text after the last dot,
    provided something other than dots precedes it.  None = no extension; 'unspecified' for names whose
    stem consists of dots only (`..mmm`): the property's name list does not contain them."""
    if "." not in nm:
        return None
    stem, ext = nm.rsplit(".", 1)
    if stem == "":
        return None
    if set(stem) == {"."}:
        return "unspecified"
    return ext


# ---------------------------------------------------------------- trees

def make_tree(root, tree):
    """tree = {"dir": name, "entries": [ {name, kind, children:[(name, kind)], target} ]}"""
    out = os.path.join(root, "outside")
    os.makedirs(os.path.join(out, "sub"))
    for rel in ("t.mmm", "t.txt", "sub/in.mmm"):
        with open(os.path.join(out, rel), "w") as f:
            f.write("outside:" + rel + "\n")
    with open(os.path.join(root, "z.mmm"), "w") as f:
        f.write("sibling\n")
    d = os.path.join(root, tree["dir"])
    os.mkdir(d)
    k = 0
    for e in tree["entries"]:
        p = os.path.join(d, e["name"])
        kind = e["kind"]
        if kind == "file":
            with open(p, "w") as f:
                f.write("id:%d\n" % k)
        elif kind == "dir":
            os.mkdir(p)
            for j, (cn, ck) in enumerate(e.get("children", [])):
                cp = os.path.join(p, cn)
                if ck == "file":
                    with open(cp, "w") as f:
                        f.write("child:%d:%d\n" % (k, j))
                elif ck == "dir":
                    os.mkdir(cp)
                else:
                    os.symlink("../../outside/t.mmm", cp)
        else:
            os.symlink(e["target"], p)
        k += 1
    return d


def snapshot(root):
    snap = {}
    for dp, dns, fns in os.walk(root):
        for n in dns + fns:
            p = os.path.join(dp, n)
            rel = os.path.relpath(p, root)
            st = os.lstat(p)
            if os.path.islink(p):
                snap[rel] = ("link", os.readlink(p), st.st_ino, st.st_mtime_ns)
            elif os.path.isdir(p):
                snap[rel] = ("dir", st.st_mode)
            else:
                with open(p, "rb") as f:
                    h = hashlib.sha1(f.read()).hexdigest()
                snap[rel] = ("file", h, st.st_mode, st.st_ino, st.st_mtime_ns)
    return snap


def entry(name, kind, rng, names_here):
    e = {"name": name, "kind": kind}
    if kind == "dir":
        n = rng.choice([0, 1, 2, 3])
        pool = ["in.mmm", "x.mmm", "in.ms", "deep.mmm", "keep.txt", ".mmm"]
        rng.shuffle(pool)
        e["children"] = [(c, rng.choice(["file", "file", "dir", "link"])) for c in pool[:n]]
    elif kind == "link-file":
        sib = [n for n in names_here if n != name]
        # target: an outside file, or a sibling of the same directory (possibly one that gets cleaned)
        e["target"] = rng.choice(["../outside/t.mmm", "../outside/t.txt", "../z.mmm"] + sib[:2])
    elif kind == "link-dir":
        e["target"] = rng.choice(["../outside/sub", "../outside", "."])
    elif kind == "dangling":
        e["target"] = rng.choice(["nowhere.mmm", "../gone"])
    return e


def gen_trees(ctx):
    rng = ctx.rng
    trees = []
    ex_names = PROP_NAMES + SPECIAL
    kmax = 2 if ctx.quick() else 3
    for k in range(kmax + 1):
        for names in itertools.combinations(ex_names, k):
            for kinds in itertools.product(KINDS, repeat=k):
                ents = []
                for n, kd in zip(names, kinds):
                    e = entry(n, kd, rng, names)
                    if kd == "link-file":      # exhaustive part: fixed outside target
                        e["target"] = "../outside/t.mmm"
                    ents.append(e)
                rng.shuffle(ents)
                trees.append({"dir": "proj", "entries": ents, "invoke": INVOKE[len(trees) % len(INVOKE)], "stream": "exhaustive"})
    n_exh = len(trees)
    pool = PROP_NAMES + SPECIAL + EXTRA
    for i in range(400 if ctx.quick() else 3000):
        n = rng.choice([1, 2, 3, 4, 5, 6, 7, 8, 8])
        names = rng.sample(pool, n)
        ents = [entry(nm, rng.choice(["file", "file", "file", "dir", "dir", "link-file", "link-dir", "dangling"]), rng, names) for nm in names]
        # link-file targets naming a sibling must not be directories for kind fidelity: resolve below
        trees.append({"dir": rng.choice(DIRNAMES), "entries": ents, "invoke": rng.choice(INVOKE), "stream": "random"})
    return trees, n_exh


def real_kind(tree, e):
    """kind of an entry as lstat + stat report it once the tree exists (a link to a sibling inherits the sibling's kind)"""
    if e["kind"] != "link-file":
        return e["kind"]
    t = e["target"]
    if "/" in t:
        return "link-file"
    for s in tree["entries"]:
        if s["name"] == t:
            if s["kind"] in ("file", "link-file"):
                return "link-file"
            if s["kind"] in ("dir", "link-dir"):
                return "link-dir"
            return "dangling"
    return "dangling"


# ---------------------------------------------------------------- running

def run_case(binary, base, tree):
    root = tempfile.mkdtemp(prefix="t-", dir=base)
    d = make_tree(root, tree)
    order = os.listdir(d)                      # readdir order, as read_dir will yield it
    before = snapshot(root)
    inv = tree["invoke"]
    dn = tree["dir"]
    if inv == "abs":
        args, cwd = ["clean", d], root
    elif inv == "rel":
        args, cwd = ["clean", dn], root
    elif inv == "rel-slash":
        args, cwd = ["clean", dn + "/"], root
    elif inv == "dotslash":
        args, cwd = ["clean", "./" + dn], root
    elif inv == "dot":
        args, cwd = ["clean", "."], d
    else:
        args, cwd = ["clean"], d
    rc, out, err = programs.run_bin(binary, args, cwd)
    after = snapshot(root)
    shutil.rmtree(root, ignore_errors=True)
    out = ANSI.sub("", out)
    lines = out.splitlines()
    msgs = [l[len("clean "):].rsplit("/", 1)[-1] for l in lines if l.startswith("clean ")]
    m = [re.fullmatch(r"Removed (\d+) files", l) for l in lines]
    m = [x for x in m if x]
    count = int(m[-1].group(1)) if m else None
    return {"order": order, "before": before, "after": after, "rc": rc, "stdout": out, "stderr": err,
            "msgs": msgs, "count": count, "last_is_removed": bool(lines) and bool(re.fullmatch(r"Removed (\d+) files", lines[-1]))}


def coq_entry(name, kind, cid):
    return "{| name := [%s]; ekind := %s; content := %d |}" % ("; ".join(str(ord(c)) for c in name), KIND_COQ[kind], cid)


def model_eval(shard_id, cases):
    """cases: list of [(name, kind)] in read_dir order -> list of (status, n, ids_left, msgs)"""
    body = "Open Scope N_scope.\nEval vm_compute in (map (fun es => summary (clean es)) [\n"
    body += ";\n".join("[" + "; ".join(coq_entry(n, k, i) for i, (n, k) in enumerate(c)) + "]" for c in cases)
    body += "]).\n"
    rc, out, err = core.coq_eval("c20_%d" % shard_id, body, ["MS.Base.Str", "MS.Clean.Model"], timeout=900)
    if rc != 0:
        raise RuntimeError("coqc failed on C20 model cases: " + (out + err)[-1500:])
    txt = out[out.index("=") + 1:]
    txt = txt[:txt.rindex(": list")]
    txt = txt.replace("%N", "").replace(";", ",")
    res = ast.literal_eval(txt.strip())
    return [(int(a[0]), int(a[1]), list(a[2]), ["".join(chr(c) for c in s) for s in a[3]]) for a in res]


RAW_NAMES = [b"caf\xe9.mmm", b"\xff.mmm", b"a\xc3.mmm", b"\xe9\xe8 x.mmm", b"ok.mmm", b"x.mm\xed", b"\xe9.ms", b"caf\xe9.mmm.bak", b"\xff"]
RAW_DIRS = [b"proj", b"d\xe9p\xf4t", b"\xff\xfe"]


def run_raw_names(ctx, binary, base):
    """file and directory names that are NOT valid UTF-8 (legal on Linux; Latin-1 names from an old archive): the extension
    of `caf\\xe9.mmm` is mmm.  Outside the Coq model (whose names are code-point lists); byte-level Python oracle."""
    n = 0
    for dn in RAW_DIRS:
        for inv in ("abs", "rel", "dot"):
            root = tempfile.mkdtemp(prefix="raw-", dir=base).encode()
            d = os.path.join(root, dn)
            os.mkdir(d)
            for i, nm in enumerate(RAW_NAMES):
                with open(os.path.join(d, nm), "w") as f:
                    f.write("id:%d\n" % i)
            os.mkdir(os.path.join(d, b"sub\xe9.mmm.d"))
            with open(os.path.join(d, b"sub\xe9.mmm.d", b"in\xe9.mmm"), "w") as f:
                f.write("deep\n")
            args, cwd = {"abs": ([b"clean", d], root), "rel": ([b"clean", dn], root), "dot": ([b"clean", b"."], d)}[inv]
            import subprocess
            try:
                pr = subprocess.run([binary.encode()] + args, cwd=cwd, capture_output=True, timeout=30)
                rc, out, err = pr.returncode, pr.stdout, pr.stderr
            except subprocess.TimeoutExpired:
                rc, out, err = 124, b"", b""
            left = sorted(os.listdir(d))
            deep_left = os.path.exists(os.path.join(d, b"sub\xe9.mmm.d", b"in\xe9.mmm"))
            shutil.rmtree(root, ignore_errors=True)
            want_gone = [x for x in RAW_NAMES if x.endswith(b".mmm") and len(x) > 4]
            want_left = sorted([x for x in RAW_NAMES if x not in want_gone] + [b"sub\xe9.mmm.d"])
            m = re.findall(rb"Removed (\d+) files", ANSI.sub("", out.decode("utf8", "replace")).encode())
            n += 1
            bad = None
            arg_is_text = inv == "dot" or dn == b"proj"
            if rc != 0 and not arg_is_text and left == sorted(RAW_NAMES + [b"sub\xe9.mmm.d"]) and deep_left:
                continue            # a DIR argument that is not text is refused, nothing touched: allowed
            if rc != 0:
                bad = "exit %d: %s" % (rc, err.decode("utf8", "replace")[-300:])
            elif left != want_left or not deep_left:
                bad = "left %r, expected %r (file in the sub-directory kept: %s)" % (left, want_left, deep_left)
            elif not m or int(m[-1]) != len(want_gone):
                bad = "reports %r removed files, %d were" % (m, len(want_gone))
            if bad:
                ctx.report("non-utf8-name", "clean of a directory %r (%s) with file names that are not valid UTF-8: %s" % (dn, inv, bad),
                           {"directory": repr(dn), "names": [repr(x) for x in RAW_NAMES], "invoke": inv, "left": [repr(x) for x in left],
                            "stdout": out.decode("utf8", "replace")[-500:], "stderr": err.decode("utf8", "replace")[-500:],
                            "how": "create the files (byte names as given), run mscript clean; exactly the *.mmm files directly inside must go"})
    ctx.cov["non_utf8_name_cases"] = n
    return n


def run_link_and_backslash(ctx, binary, base):
    """(a) DIR/x.mmm is one of several hard links of a read-only file: the other names keep content AND mode;
    (b) a directory whose NAME contains a backslash (legal on Linux) next to a real path spelled with `/`: exactly the
    directory named on the command line is cleaned.  Byte-level Python oracle, outside the model."""
    import stat
    import subprocess
    n = 0
    for mode in (0o444, 0o400, 0o644, 0o600):
        for where in ("sub-directory", "outside", "same-directory"):
            root = tempfile.mkdtemp(prefix="hl-", dir=base)
            proj = os.path.join(root, "proj")
            os.makedirs(os.path.join(proj, "sub"))
            os.makedirs(os.path.join(root, "outside"))
            other = {"sub-directory": os.path.join(proj, "sub", "data.txt"), "outside": os.path.join(root, "outside", "data.bin"), "same-directory": os.path.join(proj, "data.keep")}[where]
            with open(other, "w") as f:
                f.write("payload\n")
            os.chmod(other, mode)
            os.link(other, os.path.join(proj, "x.mmm"))
            with open(os.path.join(proj, "y.mmm"), "w") as f:
                f.write("plain\n")
            rc, out, err = programs.run_bin(binary, ["clean", "proj"], root)
            st = os.lstat(other) if os.path.exists(other) else None
            left = sorted(os.listdir(proj))
            n += 1
            want_left = sorted(["sub"] + (["data.keep"] if where == "same-directory" else []))
            bad = None
            if rc != 0:
                bad = "exit %d: %s" % (rc, err[-200:])
            elif left != want_left:
                bad = "DIR holds %r afterwards, expected %r" % (left, want_left)
            elif st is None or open(other).read() != "payload\n":
                bad = "the other name of the file (%s) lost its content" % where
            elif stat.S_IMODE(st.st_mode) != mode:
                bad = "the other name of the hard-linked file (%s) had mode %o and has mode %o now" % (where, mode, stat.S_IMODE(st.st_mode))
            if bad:
                ctx.report("hard-linked-mmm", "clean of a directory whose x.mmm is a hard link of a file with mode %o (other name: %s): %s" % (mode, where, bad),
                           {"mode": "%o" % mode, "other_name": where, "left": left, "stdout": out[-300:], "stderr": err[-300:],
                            "how": "mkdir -p proj/sub outside; echo payload > <other>; chmod <mode> <other>; ln <other> proj/x.mmm; mscript clean proj; stat <other>"})
            for dp, dns, fns in os.walk(root):
                for x in fns:
                    try:
                        os.chmod(os.path.join(dp, x), 0o644)
                    except OSError:
                        pass
            shutil.rmtree(root, ignore_errors=True)
    for dn, twin in (("out\\debug", "out/debug"), ("a\\b\\c", "a/b/c"), ("tail\\", "tail"), ("\\lead", "lead")):
        for inv in ("rel", "abs", "dot"):
            root = tempfile.mkdtemp(prefix="bs-", dir=base)
            d = os.path.join(root, dn)
            os.mkdir(d)
            os.makedirs(os.path.join(root, twin))
            for dd in (d, os.path.join(root, twin)):
                for nm in ("x.mmm", "keep.ms"):
                    with open(os.path.join(dd, nm), "w") as f:
                        f.write(dd + "\n")
            args, cwd = {"rel": (["clean", dn], root), "abs": (["clean", d], root), "dot": (["clean", "."], d)}[inv]
            rc, out, err = programs.run_bin(binary, args, cwd)
            n += 1
            here, there = sorted(os.listdir(d)), sorted(os.listdir(os.path.join(root, twin)))
            if rc != 0 or here != ["keep.ms"] or there != ["keep.ms", "x.mmm"]:
                ctx.report("backslash-in-directory-name", "clean %r (%s; a directory %r exists next to it): exit %d, the named directory holds %r (expected ['keep.ms']), the other one %r (expected untouched)"
                           % (dn, inv, twin, rc, here, there), {"directory": dn, "other_directory": twin, "invoke": inv, "stdout": out[-300:], "stderr": err[-300:],
                                                               "how": "mkdir 'out\\debug' out/debug (each with x.mmm, keep.ms); mscript clean 'out\\debug'"})
            shutil.rmtree(root, ignore_errors=True)
    ctx.cov["hard_link_and_backslash_cases"] = n
    return n


def run_unremovable(ctx, binary):
    """Some of the `.mmm` files of DIR cannot be unlinked by the caller while others can (a sticky directory -- like /tmp --
    holding files of two owners; `clean` runs as uid 65534).  The property's reading: every bytecode file that CAN be removed is
    removed whatever read_dir yields first, the number removed is reported, everything else (the unremovable ones, sources,
    sub-directories) is untouched, and the exit status says whether the directory is clean.  Needs root + util-linux setpriv
    to become another uid; skipped (and said so in the evidence) otherwise.  Byte-level Python oracle, outside the model."""
    drop = ["--reuid=65534", "--regid=65534", "--clear-groups"]
    if os.geteuid() != 0 or not shutil.which("setpriv") or programs.run_bin("setpriv", drop + ["true"], "/")[0] != 0:
        ctx.cov["unremovable_file_cases"] = "skipped: needs root and setpriv to run clean as another uid"
        return 0
    top = tempfile.mkdtemp(prefix="msv-C20-sticky-", dir="/tmp")
    ctx.tmpdirs.append(top)
    os.chmod(top, 0o755)
    exe = os.path.join(top, "mscript")
    shutil.copy(binary, exe)
    os.chmod(exe, 0o755)
    names = ["a.mmm", "b.mmm", "c.mmm", "d.mmm", "e.transpiled.mmm", "f g.mmm"]
    masks = [{n} for n in names] + [set(), set(names)]
    for _ in range(4 if ctx.quick() else 40):
        masks.append({n for n in names if ctx.rng.random() < 0.4})
    n_run = 0
    for i, locked in enumerate(masks):
        root = os.path.join(top, "c%d" % i)
        d = os.path.join(root, "st")
        os.makedirs(os.path.join(d, "sub"))
        os.makedirs(os.path.join(d, "dir.mmm"))
        os.chmod(root, 0o755)
        for rel in names + ["keep.txt", "x.ms", "x.mmm.bak", "sub/in.mmm"]:
            with open(os.path.join(d, rel), "w") as f:
                f.write("content of %s\n" % rel)
        for rel in names + ["keep.txt", "x.ms", "x.mmm.bak", "sub/in.mmm", "sub", "dir.mmm"]:
            if rel not in locked:
                os.chown(os.path.join(d, rel), 65534, 65534)       # the caller's own entries
        os.chmod(d, 0o1777)                                          # sticky: only the owner of an entry may unlink it
        order = os.listdir(d)
        before = snapshot(root)
        rc, out, err = programs.run_bin("setpriv", drop + [exe, "clean", d], root)
        after = snapshot(root)
        n_run += 1
        out = ANSI.sub("", out)
        lines = out.splitlines()
        m = [re.fullmatch(r"Removed (\d+) files", l) for l in lines]
        m = [x for x in m if x]
        count = int(m[-1].group(1)) if m else None
        removable = sorted("st/" + n for n in names if n not in locked)
        gone = sorted(set(before) - set(after))
        left = [r for r in removable if r in after]
        bad = []
        cls = "unremovable-file-stops-the-sweep"
        if left:
            bad.append("%d removable bytecode file(s) are still there: %r" % (len(left), left))
        if count is None:
            bad.append("no `Removed N files` line (%d file(s) were removed)" % len(gone))
        elif count != len(gone):
            bad.append("reported %d removed, %d entries are gone" % (count, len(gone)))
        other = [k for k in gone if k not in removable] + [k for k in after if k not in before or after[k] != before[k]]
        if other:
            cls = "unremovable-file:something-else-touched"
            bad.append("entries other than the removable bytecode files were deleted / altered / created: %r" % sorted(other)[:6])
        if programs.exit_class(rc) not in ("ok", "fail") or (rc == 0) != (not locked):
            if not bad:
                cls = "unremovable-file:exit-status"
            bad.append("exit status %d with %d unremovable file(s)" % (rc, len(locked)))
        if bad:
            ctx.report(cls, "mscript clean on a sticky directory where %d of %d bytecode files belong to another user (read_dir order %r): %s"
                       % (len(locked), len(names), order, "; ".join(bad)),
                       {"unremovable(owner root)": sorted(locked), "removable(owner 65534)": removable, "read_dir_order": order, "rc": rc, "stdout": out[-600:], "stderr": err[-600:],
                        "left_afterwards": sorted(k for k in after if k.startswith("st/")),
                        "how": "as root: mkdir -m 1777 st; create the files, chown 65534 the removable ones; setpriv --reuid=65534 --regid=65534 --clear-groups mscript clean st"})
        shutil.rmtree(root, ignore_errors=True)
    ctx.cov["unremovable_file_cases"] = n_run
    return n_run


def run(ctx):
    ok = core.coq_props(ctx, "Props/C20.v")
    binary = core.build_repo()
    base = ctx.mktemp()
    trees, n_exh = gen_trees(ctx)
    results = programs.pmap(lambda t: run_case(binary, base, t), trees)
    # model predictions, sharded
    cases = []
    for t, r in zip(trees, results):
        byname = {e["name"]: e for e in t["entries"]}
        cases.append([(n, real_kind(t, byname[n])) for n in r["order"]])
    shards = [cases[i:i + 800] for i in range(0, len(cases), 800)]
    preds = [p for sh in programs.pmap(lambda a: model_eval(a[0], a[1]), list(enumerate(shards))) for p in sh]

    spec_fail = dis = nontrivial = order_diff = 0
    seen = set()
    dist = {"entries": {}, "kinds": {}, "invoke": {}, "with_doomed": 0, "with_mmm_named_dir": 0}
    for t, r, c, p in zip(trees, results, cases, preds):
        dn = t["dir"]
        names = [n for n, _ in c]
        kinds = dict(c)
        dist["entries"][len(c)] = dist["entries"].get(len(c), 0) + 1
        dist["invoke"][t["invoke"]] = dist["invoke"].get(t["invoke"], 0) + 1
        for _, k in c:
            dist["kinds"][k] = dist["kinds"].get(k, 0) + 1
        before, after = r["before"], r["after"]
        removed = sorted(k for k in before if k not in after)
        added = sorted(k for k in after if k not in before)
        changed = sorted(k for k in before if k in after and before[k] != after[k])
        top = lambda rel: os.path.dirname(rel) == dn
        removed_top = [os.path.basename(k) for k in removed if top(k)]
        replay = {"tree": t, "read_dir_order": r["order"], "rc": r["rc"], "stdout": r["stdout"][-1500:], "stderr": r["stderr"][-600:],
                  "removed": removed, "added": added, "changed": changed,
                  "how": "create the tree (vlib/c20.py make_tree), run `mscript clean` as tree.invoke says, diff the snapshots"}
        # ---------------- specification
        bad = []
        mmm_dir = [n for n in names if kinds[n] == "dir" and spec_extension(n) in ("mmm", "unspecified")]
        for n in names:
            x, k = spec_extension(n), kinds[n]
            rel = os.path.join(dn, n)
            if k == "file" and x == "mmm" and rel in after:
                bad.append(("mmm-file-not-removed", "file %r (extension mmm) is still there" % n))
            if k == "dir" and (rel not in after):
                bad.append(("directory-removed", "directory %r was removed" % n))
            if x not in ("mmm", "unspecified") and rel not in after:
                bad.append(("non-mmm-entry-removed", "%s %r (extension %r) was removed" % (k, n, x)))
        for k in removed:
            if not top(k):
                bad.append(("removed-outside-directory-level", "%r (not directly inside DIR) was removed" % k))
        for k in changed:
            bad.append(("entry-altered", "%r was altered: %r -> %r" % (k, before[k], after[k])))
        for k in added:
            bad.append(("entry-created", "%r was created" % k))
        if r["rc"] != 0:
            bad.append(("nonzero-exit", "exit status %s: %s" % (r["rc"], r["stderr"].strip()[-200:])))
        elif r["count"] != len(removed_top) or not r["last_is_removed"]:
            bad.append(("count-misreported", "reported %r removed, actually removed %d" % (r["count"], len(removed_top))))
        if bad:
            spec_fail += 1
            if mmm_dir and r["rc"] != 0 and "os error 21" in r["stderr"] and all(b[0] in ("nonzero-exit", "mmm-file-not-removed") for b in bad):
                cls = "directory-named-mmm-aborts-clean"
            else:
                cls = bad[0][0]
            ctx.report(cls, "mscript clean: " + "; ".join(b[1] for b in bad[:4]), dict(replay, failures=bad[:10]))
        # ---------------- model
        st, n, ids_left, msgs = p
        exp_left = sorted(names[i] for i in ids_left)
        got_left = sorted(os.path.basename(k) for k in after if top(k))
        got_st = 0 if r["rc"] == 0 else (1 if "os error 21" in r["stderr"] else (2 if "os error 2)" in r["stderr"] else 9))
        diffs = []
        if got_st != st:
            diffs.append("status impl=%s model=%s" % (got_st, st))
        if exp_left != got_left:
            diffs.append("left impl=%r model=%r" % (got_left, exp_left))
        if st == 0 and r["count"] != n:
            diffs.append("count impl=%r model=%r" % (r["count"], n))
        if sorted(msgs) != sorted(r["msgs"]):
            diffs.append("clean-lines impl=%r model=%r" % (r["msgs"], msgs))
        elif msgs != r["msgs"]:
            order_diff += 1     # read_dir order is outside the model (clean_order_independent)
        if removed and any(not top(k) for k in removed) or changed or added:
            diffs.append("model leaves everything outside the directory level untouched; impl removed/changed/added %r" % (removed + changed + added)[:5])
        if diffs:
            dis += 1
            if not bad:
                ctx.report("correspondence:clean-model", "Clean.Model.clean and the implementation disagree: " + "; ".join(diffs),
                           dict(replay, model={"status": st, "removed": n, "left": exp_left, "msgs": msgs},
                                correspondence="T7 clean (Clean/Model.v vs src/main.rs clean_command)"), found_input=False)
        doomed_n = len(names) - len(ids_left)
        if doomed_n:
            dist["with_doomed"] += 1
        if mmm_dir:
            dist["with_mmm_named_dir"] += 1
        key = (dn, tuple(sorted((e["name"], e["kind"], tuple(e.get("children", [])), e.get("target")) for e in t["entries"])))
        near = any("mmm" in nm.lower() for i, nm in enumerate(names) if i in ids_left)
        if key not in seen and doomed_n and near:
            nontrivial += 1
        seen.add(key)

    # ---------------- malformed stream: DIR missing / a file / a link to a directory (specification only)
    extra = 0
    for what in ("missing", "is-file", "link-to-dir"):
        root = tempfile.mkdtemp(prefix="m-", dir=base)
        t = {"dir": "proj", "entries": [{"name": "x.mmm", "kind": "file"}, {"name": "x.ms", "kind": "file"}]}
        make_tree(root, t)
        if what == "link-to-dir":
            os.symlink("proj", os.path.join(root, "lnk.mmm"))
        arg = {"missing": "nope", "is-file": "z.mmm", "link-to-dir": "lnk.mmm"}[what]
        b = snapshot(root)
        rc, out, err = programs.run_bin(binary, ["clean", arg], root)
        a = snapshot(root)
        extra += 1
        if what == "link-to-dir":
            good = rc == 0 and sorted(set(b) - set(a)) == ["proj/x.mmm"] and all(a[k] == b[k] for k in a) and set(a) <= set(b)
        else:
            good = rc != 0 and a == b
        if not good:
            spec_fail += 1
            ctx.report("clean-on-" + what, "mscript clean %s (%s): rc=%s removed=%r" % (arg, what, rc, sorted(set(b) - set(a))),
                       {"what": what, "arg": arg, "rc": rc, "stdout": out[-500:], "stderr": err[-500:]})
        shutil.rmtree(root, ignore_errors=True)

    nv = len(ctx.viol)
    extra += run_raw_names(ctx, binary, base)
    extra += run_link_and_backslash(ctx, binary, base)
    extra += run_unremovable(ctx, binary)
    spec_fail += len(ctx.viol) - nv
    ctx.cov["evaluations"] = len(trees) + extra
    ctx.cov["distinct_nontrivial"] = nontrivial
    ctx.cov["exhaustive"] = True
    ctx.cov["exhaustive_part"] = ("%d trees = every set of <=%d entries with names from %r x every kind assignment from %r"
                                  % (n_exh, 2 if ctx.quick() else 3, PROP_NAMES + SPECIAL, KINDS))
    ctx.cov["rule"] = ("a tree = one directory (<=8 entries; sub-directories with <=3 children, depth 2) plus an outside directory and a sibling "
                       "file; streams: exhaustive small sets, random trees over %d names, 3 malformed DIR arguments; non-trivial = distinct "
                       "tree in which at least one entry is removed and at least one surviving entry has `mmm` in its name" % len(PROP_NAMES + SPECIAL + EXTRA))
    ctx.cov["distribution"] = dist
    ctx.cov["model_impl_disagreements"] = dis
    ctx.cov["spec_failures"] = spec_fail
    ctx.cov["clean_line_order_differs_from_listdir"] = order_diff
    ctx.cov["traces_validated_against_impl"] = len(trees)
    for i in (n_exh - 1, n_exh + 1, n_exh + 2):
        if i < len(trees):
            ctx.sample({"tree": trees[i], "read_dir_order": results[i]["order"], "rc": results[i]["rc"],
                        "clean_lines": results[i]["msgs"], "count": results[i]["count"], "model": preds[i]})
    ctx.cov["trusted_base"] = ["Coq 8.16.1 kernel (coqc; vm_compute for model evaluation and Examples)",
                               "no axioms (Print Assumptions: closed under the global context)",
                               "the filesystem: read_dir yields each entry once while entries are unlinked; unlink(2) semantics per kind (modelled in remove_file, observed here)",
                               "Python snapshot/differ (os.walk, lstat, sha1) and the independent extension rule spec_extension",
                               "unremovable files (EPERM): sticky directory + setpriv to uid 65534, only when the check runs as root; outside the model"]
    ctx.assumptions = ["Clean/Model.v is hand-written (clean_command with fixes/clean-skip-dirs.diff and fixes/clean-continues-after-failure.diff); tied to the binary by this run's differential comparison",
                       "entry names are valid UTF-8 without '/' and newline; names whose stem is only dots (`..mmm`) are checked against the model only",
                       "whether a symbolic link named *.mmm counts as a `file` is left open by the property: the model (and the code) unlink the link; the target must be untouched"]
    core.proof_or_search(ctx, ok, ["C20_clean_exact", "C20_clean_order_independent", "C20_clean_spares", "C20_clean_removes", "C20_keep_going_sweeps_everything"], spec_fail > 0)
