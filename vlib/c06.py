"""C06: compile-time constant folding agrees with run-time evaluation.

 1. Coq: Props/C06.v (model of the folder agrees with the run-time operators of NumImpl for ALL literal trees)
 2. the property itself on the real binary: every generated literal expression tree is rendered twice --
    folded (literals inline: the compiler evaluates it) and unfolded (every literal bound to a variable
    first: evaluated at run time) -- compiled and run with typed print; verdicts, values and kinds must agree;
    a third rendering (the first literal through a variable, the others inline) checks the literal
    SUB-expressions; comparisons / equality over literals (never folded: compiled as written) are part of it
 3. correspondence: both observations against the extracted models (Fold/FoldModel.v fold, eval_rt)
"""
import itertools
import os

from . import core, extract, programs, num_common as nc

FOLDED_OPS = nc.ARITH + nc.BITS + nc.SHIFTS
UNFOLDED_OPS = nc.CMPS + nc.EQS        # the folder answers "impossible": the literals are compiled as written

# source literals (no sign): full set for depth 1, core set for the exhaustive depth-2 enumeration
LEAVES = {
    "I": [0, 1, 2, 3, 5, 31, 32, 255, 256, 46341, 65536, 2147483647, 2147483648, 4294967296, 9223372036854775808],
    "B": [0, 1, 2, 127, 128, 2147483647, 2147483648, 13043817825332782212, nc.I128_MAX, nc.I128_MAX + 1],
    "Y": [0, 1, 2, 7, 8, 128, 255],
    "F": [0.0, 0.5, 1.0, 1.5, 2.0, 3.0, 0.1, 9007199254740993.0, 2147483648.0, 1e308, 5e-324, 1.7976931348623157e308],
}
CORE = ["I0", "I1", "I2147483647", "B1", "B%d" % nc.I128_MAX, "Y1", "Y255", nc.f2bits(1.5), nc.f2bits(0.0)]
CORE2 = ["I0", "I1", "I2147483647", "B%d" % nc.I128_MAX, "Y255", nc.f2bits(1.5)]       # depth-2 shapes (exhaustive)


def all_leaves():
    out = []
    for k in "IBY":
        out += [nc.mkval(k, z) for z in LEAVES[k]]
    out += [nc.f2bits(x) for x in LEAVES["F"]]
    return out


# ----------------------------------------------------------------------------- trees
# ("lit", tok) | ("neg", e) | ("not", e) | ("bin", op, l, r) | ("get", e) | ("or", e, fallback) | ("list", [e..])
# the fallback of `or` is a tree of its own (evaluated only when the primary is nil, which a number never is);
# ("first", e) = `([e][0])`, a constant nested in a list, occurs inside fallbacks only
def lit(tok):
    return ("lit", tok)


def core_tree(e):
    """the tree the Coq models see: get e == e, (e or v) == e for a non-nil e"""
    t = e[0]
    if t in ("get", "or"):
        return core_tree(e[1])
    if t in ("neg", "not"):
        return (t, core_tree(e[1]))
    if t == "bin":
        return ("bin", e[1], core_tree(e[2]), core_tree(e[3]))
    return e


def sexp(e):
    t = e[0]
    if t == "lit":
        return e[1]
    if t in ("neg", "not"):
        return "(%s %s)" % (t, sexp(e[1]))
    return "(%s %s %s)" % (e[1], sexp(e[2]), sexp(e[3]))


def leaves_of(e, acc):
    t = e[0]
    if t == "lit":
        acc.append(e[1])
    elif t in ("neg", "not", "get", "first"):
        leaves_of(e[1], acc)
    elif t == "or":
        leaves_of(e[1], acc)
        leaves_of(e[2], acc)
    elif t == "bin":
        leaves_of(e[2], acc)
        leaves_of(e[3], acc)
    elif t == "list":
        for x in e[1]:
            leaves_of(x, acc)
    return acc


def src_literal(tok):
    k = tok[0]
    if k == "T":
        return tok[1:]
    if k == "F":
        return nc.float_literal(tok)[0]
    z = nc.ival(tok)
    return {"I": "%d", "B": "B%d", "Y": "0b{0:b}"}[k].format(z) if k == "Y" else {"I": "%d", "B": "B%d"}[k] % z


def render(e, names):
    """names: None -> literals inline (folded rendering); iterator of variable names -> unfolded"""
    t = e[0]
    if t == "lit":
        return src_literal(e[1]) if names is None else next(names)
    if t == "neg":
        return "(-%s)" % render(e[1], names)
    if t == "not":
        return "(!%s)" % render(e[1], names)
    if t == "get":
        return "(get %s)" % render(e[1], names)
    if t == "first":
        return "([%s][0])" % render(e[1], names)
    if t == "or":
        return "(%s or %s)" % (render(e[1], names), render(e[2], names))
    if t == "list":
        return "[%s]" % ", ".join(render(x, names) for x in e[1])
    return "(%s %s %s)" % (render(e[2], names), nc.SYMBOL[e[1]], render(e[3], names))


def programs_for(e):
    folded = "print %s\n" % render(e, None)
    lv = leaves_of(e, [])
    decl = "".join("v%d = %s\n" % (i, src_literal(tok)) for i, tok in enumerate(lv))
    unfolded = decl + "print %s\n" % render(e, iter("v%d" % i for i in range(len(lv))))
    return folded, unfolded


class _FirstOnly:
    """name source for the mixed rendering: the first leaf is a variable, every other one stays a literal"""
    def __init__(self, lv):
        self.lv, self.i = lv, 0

    def __next__(self):
        i = self.i
        self.i += 1
        return "v0" if i == 0 else src_literal(self.lv[i])


def mixed_program(e):
    """first literal bound to a variable, the rest inline: nothing is folded at the root, the remaining literals
    (and literal sub-expressions) are compiled where they stand.  None when the tree has a single leaf."""
    lv = leaves_of(e, [])
    if len(lv) < 2:
        return None
    return "v0 = %s\nprint %s\n" % (src_literal(lv[0]), render(e, _FirstOnly(lv)))


# ----------------------------------------------------------------------------- generation
def failing_constants():
    """per kind: literal expressions of that kind whose evaluation fails (zero divisor, overflow, shift out of range)"""
    L = lit
    imin = ("bin", "sub", ("neg", L("I2147483647")), L("I1"))
    return {
        "I": [("bin", "div", L("I1"), L("I0")), ("bin", "rem", L("I1"), L("I0")), ("bin", "add", L("I2147483647"), L("I1")), ("bin", "shl", L("I1"), L("I32")),
              ("neg", imin), ("bin", "mul", L("I65536"), L("I65536")), ("bin", "div", imin, ("neg", L("I1")))],
        "B": [("bin", "div", L("B1"), L("B0")), ("bin", "add", L("B%d" % nc.I128_MAX), L("B1")), ("bin", "rem", L("B7"), L("I0"))],
        "Y": [("bin", "div", L("Y1"), L("Y0")), ("bin", "add", L("Y255"), L("Y1")), ("bin", "shl", L("Y1"), L("Y8"))],
        "F": [("bin", "div", L(nc.f2bits(1.5)), L("Y0")), ("bin", "rem", L(nc.f2bits(1.5)), L("I0"))],
    }


def or_fallback_trees():
    """`a or b` evaluates b only when a is nil: a fallback that is a failing constant does not make the expression fail.
    Primary: a literal / a folded expression of the kind; fallback: every failing constant of the kind, bare, nested one
    `or` deeper, inside a list, and under an operator of the fallback.  Run in every tier."""
    L = lit
    prim = {"I": [L("I2"), ("bin", "mul", L("I3"), L("I4"))], "B": [L("B2")], "Y": [L("Y2")], "F": [L(nc.f2bits(0.5))]}
    out = []
    for k, fails_k in failing_constants().items():
        for j, fb in enumerate(fails_k):
            p = prim[k][j % len(prim[k])]
            out.append(("or", p, fb))
            if j < 2:
                out.append(("or", p, ("first", fb)))
                out.append(("or", p, ("or", prim[k][0], fb)))
                out.append(("or", p, ("bin", "add", fb, prim[k][0])))
                out.append(("bin", "add", ("or", p, fb), prim[k][0]))
                out.append(("list", [("or", p, fb), prim[k][0]]))
                out.append(("or", ("or", p, fb), fb))
                # an `or` that is COMPLETE inside the fallback, then the failing constant: still inside the outer fallback
                out.append(("or", p, ("bin", "add", ("or", prim[k][0], prim[k][0]), fb)))
                out.append(("or", p, ("bin", "add", ("first", ("or", prim[k][0], prim[k][0])), fb)))
                out.append(("or", p, ("bin", "add", ("or", prim[k][0], ("or", prim[k][0], prim[k][0])), fb)))
                out.append(("or", p, ("or", ("or", prim[k][0], prim[k][0]), fb)))
        # control: a failing PRIMARY fails in both renderings
        out.append(("or", fails_k[0], prim[k][0]))
    return out


def has_failing_fallback(e):
    t = e[0]
    if t == "lit":
        return False
    if t == "list":
        return any(has_failing_fallback(x) for x in e[1])
    if t == "or":
        return e[2][0] != "lit" or has_failing_fallback(e[1])
    return any(has_failing_fallback(x) for x in e[1:] if isinstance(x, tuple))


def gen_trees(ctx):
    rng = ctx.rng
    quick = ctx.quick()
    full = all_leaves()
    trees = []
    # known suspects (DESIGN F5) and friends, always first
    L = lit
    trees += [("neg", L("B5")), ("neg", ("neg", L("I5"))), ("bin", "div", L(nc.f2bits(1.5)), L("Y0")),
              ("bin", "rem", ("bin", "sub", ("neg", L("I2147483647")), L("I1")), ("neg", L("I1"))),
              ("neg", L("I2147483648")), ("neg", ("bin", "sub", ("neg", L("I2147483647")), L("I1"))),
              # MIN op -1 of both integer kinds: the quotient / product / difference is not representable
              ("bin", "div", ("bin", "sub", ("neg", L("I2147483647")), L("I1")), ("neg", L("I1"))),
              ("bin", "mul", ("bin", "sub", ("neg", L("I2147483647")), L("I1")), ("neg", L("I1"))),
              ("bin", "div", ("bin", "sub", ("neg", L("B%d" % nc.I128_MAX)), L("B1")), ("neg", L("B1"))),
              ("bin", "rem", ("bin", "sub", ("neg", L("B%d" % nc.I128_MAX)), L("B1")), ("neg", L("B1"))),
              ("bin", "mul", ("bin", "sub", ("neg", L("B%d" % nc.I128_MAX)), L("B1")), ("neg", L("B1"))),
              ("neg", ("bin", "sub", ("neg", L("B%d" % nc.I128_MAX)), L("B1"))),
              ("bin", "div", ("bin", "sub", ("neg", L("I2147483647")), L("I1")), ("neg", L("B1"))),
              ("list", [("neg", ("bin", "sub", ("neg", L("I2147483647")), L("I1")))]),
              ("bin", "add", ("neg", ("neg", L("I5"))), L("I1")), ("neg", ("neg", L(nc.f2bits(1.5)))),
              ("bin", "add", L("I2147483647"), L("I1")), ("bin", "add", L("I2147483648"), L("I1")),
              ("bin", "shl", L("I1"), ("neg", L("I0"))), ("bin", "div", L("I1"), ("neg", L(nc.f2bits(0.0)))),
              ("bin", "rem", L(nc.f2bits(1.5)), L("Y0")), ("bin", "div", L("I7"), L("Y0")),
              ("not", L("Ttrue")), ("not", ("not", L("Tfalse"))), ("neg", L("Y1")),
              ("bin", "mul", L("B%d" % nc.I128_MAX), L("Y2")), ("neg", ("neg", ("neg", L("B7")))),
              ("get", ("bin", "add", L("I1"), L("I2"))), ("or", ("bin", "mul", L("I3"), L("I4")), L("I9")),
              ("bin", "add", ("get", L("I5")), L("I1")), ("list", [("bin", "add", L("I1"), L("I2")), ("bin", "mul", L("I3"), L("I4"))]),
              ("list", [("neg", L("I5")), ("bin", "sub", L("I0"), L("I5"))]),
              ("list", [("bin", "div", L(nc.f2bits(1.0)), L(nc.f2bits(4.0))), ("neg", L(nc.f2bits(0.5)))])]
    # an integer literal beyond 32 bits where the folder does not evaluate: operand of a comparison / equality,
    # next to a variable (mixed rendering), under unary minus (the natural spelling of INT_MIN), in a list
    for big in ("I2147483648", "I3000000000", "I4294967296", "I9223372036854775808"):
        for op in UNFOLDED_OPS:
            trees.append(("bin", op, L(big), L("I5")))
            trees.append(("bin", op, L("I5"), L(big)))
        trees += [("bin", "lt", ("neg", L(big)), L("I0")), ("bin", "eq", ("neg", L(big)), ("neg", L(big))),
                  ("bin", "add", L("I1"), L(big)), ("bin", "mul", L("Y2"), L(big)), ("bin", "sub", L("I1"), ("neg", L(big))),
                  ("bin", "lt", ("bin", "add", L(big), L("I1")), L("B7")), ("list", [("bin", "lt", L(big), L("I5"))]),
                  ("not", ("bin", "lt", L(big), L("I5"))), ("bin", "lt", L(big), L(nc.f2bits(1.5))), ("bin", "eq", L(big), L("B%d" % nc.ival(big)))]
    # `<<` that would lose a bit (C05): folder and run time must both refuse
    trees += [("bin", "shl", L("I1"), L("I31")), ("bin", "shl", L("I3"), L("I31")), ("bin", "shl", L("Y255"), L("Y1")),
              ("bin", "shl", L("B3"), L("I127")), ("bin", "shl", ("neg", L("I1")), L("I31")), ("bin", "shl", L("Y255"), L("I1")),
              ("bin", "shl", L("I1"), L("I30")), ("bin", "shl", ("neg", L("I2")), L("I31"))]
    # Round 7 (seed C06-r7-1): an "algebraically equal" shortcut in the folder (-(a - b) folded as b - a, a - (-b) as
    # a + b, ...) differs from the run time's operator-then-negate only at the EDGES: a float difference of zero (-0 vs
    # 0), a result one past the range whose mirror image fits.  Fixed, never sampled: unary minus outside, inside either
    # operand and inside both, over every arithmetic operator and the edge values of each kind (equal operands included).
    MINI = ("bin", "sub", ("neg", L("I2147483647")), L("I1"))
    MINB = ("bin", "sub", ("neg", L("B%d" % nc.I128_MAX)), L("B1"))
    edge = {"I": [L("I0"), L("I1"), L("I2147483647"), ("neg", L("I1")), ("neg", L("I2147483647")), MINI],
            "B": [L("B0"), L("B1"), L("B%d" % nc.I128_MAX), ("neg", L("B1")), MINB],
            "F": [L(nc.f2bits(0.0)), L(nc.f2bits(1.5)), ("neg", L(nc.f2bits(0.0))), ("neg", L(nc.f2bits(1.5))), L(nc.f2bits(1.7976931348623157e308))]}
    for k in "IBF":
        for op in nc.ARITH:
            for a in edge[k]:
                for b in edge[k]:
                    trees.append(("neg", ("bin", op, a, b)))
                    if a[0] == "lit" and b[0] == "lit":
                        trees += [("bin", op, a, ("neg", b)), ("bin", op, ("neg", a), b), ("bin", op, ("neg", a), ("neg", b)),
                                  ("neg", ("neg", ("bin", op, a, b)))]
    trees += or_fallback_trees()
    n_special = len(trees)
    # depth 1: every folded operator x every pair of leaves; unary minus on every leaf
    d1 = [("bin", op, L(a), L(b)) for op in FOLDED_OPS for a in full for b in full]
    d1 += [("neg", L(a)) for a in full]
    # comparisons / equality at the root of literal operands (not folded), operands also negated / one level deep
    d1c = [("bin", op, L(a), L(b)) for op in UNFOLDED_OPS for a in full for b in full]
    d1c += [("bin", op, ("neg", L(a)), L(b)) for op in UNFOLDED_OPS for a in full for b in CORE]
    d1c += [("bin", "lt", ("bin", op1, L(a), L(b)), L(c)) for op1 in FOLDED_OPS for a in CORE2 for b in CORE2 for c in CORE2]
    # depth 2 over the core leaves: both shapes, unary minus inside and outside
    core = CORE
    d2 = []
    for op1 in FOLDED_OPS:
        for op2 in FOLDED_OPS:
            for a, b, c in itertools.product(CORE2, repeat=3):
                d2.append(("bin", op2, ("bin", op1, L(a), L(b)), L(c)))
                d2.append(("bin", op2, L(a), ("bin", op1, L(b), L(c))))
    for op in FOLDED_OPS:
        for a, b in itertools.product(full, core):
            d2.append(("bin", op, ("neg", L(a)), L(b)))
            d2.append(("bin", op, L(b), ("neg", L(a))))
            d2.append(("neg", ("bin", op, L(a), L(b))))
    d2 += [("neg", ("neg", L(a))) for a in full]
    exhaustive = not quick
    if quick:
        d1 = rng.sample(d1, 500)
        d2 = rng.sample(d2, 500)
        d1c = rng.sample(d1c, 200)
    trees += d1 + d2 + d1c
    n_d12 = len(d1) + len(d2) + len(d1c)

    # depth 3 random, incl. get / or / lists / comparisons (not folded) wrappers
    def rnd(depth, plain):
        if depth == 0 or rng.random() < 0.15:
            pool = full if not plain else [t for t in full if t[0] != "I" or nc.ival(t) <= nc.I32_MAX]
            return L(rng.choice(pool if rng.random() < 0.6 else core))
        r = rng.random()
        if r < 0.15:
            return ("neg", rnd(depth - 1, plain))
        return ("bin", rng.choice(FOLDED_OPS), rnd(depth - 1, plain), rnd(depth - 1, plain))
    n_d3 = 400 if quick else 5000
    d3 = []
    for i in range(n_d3):
        r = rng.random()
        if r < 0.75:
            d3.append(rnd(3, False))
        elif r < 0.82:
            d3.append(("get", rnd(2, True)))
        elif r < 0.88:
            d3.append(("bin", rng.choice(FOLDED_OPS), ("get", rnd(1, True)), rnd(1, True)))
        elif r < 0.91:
            d3.append(("list", [rnd(2, False) for _ in range(rng.randint(1, 3))]))
        elif r < 0.94:
            d3.append(("bin", rng.choice(UNFOLDED_OPS), rnd(2, False), rnd(2, False)))
        elif r < 0.97:
            # `a or b` over one kind: the fallback is a random tree or a failing constant, bare or nested in a list / a further `or`
            k = rng.choice("IIBYF")
            pool = [t for t in full if t[0] == k and (k == "F" or nc.ival(t) <= {"I": nc.I32_MAX, "B": nc.I128_MAX, "Y": 255}[k])]
            ops = nc.ARITH if k == "F" else FOLDED_OPS

            def same_kind(depth):
                if depth == 0 or rng.random() < 0.3:
                    return L(rng.choice(pool))
                if rng.random() < 0.15 and k != "Y":         # a byte has no negation: a type error, not a failing constant
                    return ("neg", same_kind(depth - 1))
                return ("bin", rng.choice(ops), same_kind(depth - 1), same_kind(depth - 1))
            fb = rng.choice(failing_constants()[k]) if rng.random() < 0.5 else same_kind(2)
            w = rng.random()
            fb = ("first", fb) if w < 0.2 else ("or", same_kind(1), fb) if w < 0.4 else ("bin", rng.choice(nc.ARITH), fb, same_kind(1)) if w < 0.6 else fb
            d3.append(("or", same_kind(1), fb))
        else:
            d3.append(("not", ("not", L(rng.choice(["Ttrue", "Tfalse"])))) if rng.random() < 0.5 else ("not", L(rng.choice(["Ttrue", "Tfalse"]))))
    trees += d3
    dist = {"special": n_special, "depth1": len(d1), "depth2": len(d2), "comparisons_of_literals": len(d1c), "depth3_random": len(d3),
            "leaf_set": len(full), "core_leaf_set": len(core)}
    return trees, dist, exhaustive


# ----------------------------------------------------------------------------- running
def observe(ctx, binary, trees):
    base = ctx.mktemp()

    def run_one(src):
        d = programs.materialize({"files": {"m.ms": src}}, base)
        rc, out, err = programs.run_bin(binary, ["run", "m.ms", "-q"], d, {"MSCRIPT_VERIF_TYPED_PRINT": "1"})
        import shutil
        shutil.rmtree(d, ignore_errors=True)
        if "Did not compile successfully" in err:
            return "REJECT"
        if rc == 101 or "panicked at" in err:
            return "PANIC" if "Interpreter crashed" not in err and "mscript-runtime" in err else ("PANIC" if "mscript-runtime" in err else "CPANIC")
        if rc != 0:
            return "ERR"
        lines = [l for l in out.split("\n") if l.strip()]
        if len(lines) != 1:
            return "?" + out[:200]
        tok = nc.parse_typed(lines[0])
        return tok if tok else "V" + lines[0].strip()

    quick = ctx.quick()

    def wants_mixed(i, e):
        # thorough tier: every tree with a comparison or an int literal beyond 32 bits, every fourth of the others
        if quick or i % 4 == 0:
            return True
        s = sexp(core_tree(e)) if e[0] != "list" else " ".join(sexp(core_tree(x)) for x in e[1])
        return any(("(%s " % o) in s for o in UNFOLDED_OPS) or any(t[0] == "I" and nc.ival(t) > nc.I32_MAX for t in leaves_of(e, []))

    def one(ie):
        i, e = ie
        f, u = programs_for(e)
        mx = mixed_program(e) if wants_mixed(i, e) else None
        return run_one(f), run_one(u), (run_one(mx) if mx is not None else None)

    return programs.pmap(one, list(enumerate(trees)))


def run_fold_model(ctx, trees):
    mdl = extract.build("fold", "FoldExtract.v", "fold_driver.ml")
    n = len(trees)
    shards = core.NCPU
    chunks = [trees[i * n // shards:(i + 1) * n // shards] for i in range(shards)]

    def one(chunk):
        if not chunk:
            return []
        inp = "".join(sexp(e) + "\n" for e in chunk).encode()
        rc, out, err = core.sh([mdl], inp=inp, timeout=1800)
        if rc != 0:
            raise core.BuildError("fold model driver crashed rc=%s %s" % (rc, err.decode("utf8", "replace")[-500:]))
        rows = []
        for l in out.decode().split("\n"):
            if l:
                f = [nc.canon(x) for x in l.split("\t")]
                if nc.MODEL_VERSION == "fixed":
                    rows.append({"fold": f[0], "rt": f[1], "fold_orig": f[2], "rt_orig_trap": f[3], "rt_orig_wrap": f[4]})
                else:       # compare with the models of the code before the fixes (debug build)
                    rows.append({"fold": f[2], "rt": f[3], "fold_fixed": f[0], "rt_fixed": f[1], "rt_orig_wrap": f[4]})
        assert len(rows) == len(chunk)
        return rows

    out = []
    for r in programs.pmap(one, chunks):
        out += r
    return out


def fails(o):
    return o in ("ERR", "PANIC", "REJECT", "CPANIC")


def shape(e):
    t = e[0]
    if t == "lit":
        return nc.KIND_NAME[e[1][0]]
    if t in ("neg", "not", "get", "first"):
        return "%s(%s)" % (t, shape(e[1]))
    if t == "or":
        return "or(%s)" % shape(e[1])
    if t == "list":
        return "list"
    return "%s(%s,%s)" % (e[1], shape(e[2]), shape(e[3]))


def classify(e, folded, unfolded):
    """canonical class of a disagreement between the two renderings (root cause, not the individual tree)"""
    c = core_tree(e) if e[0] != "list" else e
    s = sexp(c) if e[0] != "list" else " ".join(sexp(core_tree(x)) for x in e[1])
    if folded == "REJECT" and not fails(unfolded) and has_failing_fallback(e):
        return "folder-evaluates-unneeded-or-fallback"
    has_neg = "(neg" in s
    oversized = any(t[0] == "I" and nc.ival(t) > nc.I32_MAX for t in leaves_of(e, []))
    if oversized and folded in ("ERR", "PANIC") and not fails(unfolded):
        return "int-literal-beyond-32-bits-compiled-as-int"
    byte_zero_divisor = any(("(%s F" % o) in s or ("(%s (" % o) in s for o in ("div", "rem")) and "Y0" in s
    if not fails(folded) and not fails(unfolded):
        if folded[0] != unfolded[0] and folded[0] in "IBYFT":
            return "literal-negation-changes-kind" if has_neg else "kind-differs:" + shape(e)
        return "value-differs:" + shape(e)
    if folded in ("ERR", "PANIC"):
        return "literal-negation-yields-malformed-constant" if has_neg else "folded-constant-fails-at-run-time:" + shape(e)
    if folded == "CPANIC":
        return "compiler-panics:" + shape(e)
    if folded == "REJECT":
        if byte_zero_divisor and not has_neg:
            return "folder-rejects-float-by-byte-zero"
        if has_neg:
            return "literal-negation-makes-folder-reject"
        return "folder-rejects-what-run-time-accepts:" + shape(e)
    return "folder-accepts-what-run-time-rejects:" + shape(e)


# ---- a literal expression INSIDE an expression that is not all literals (next to a variable, a call, a string, an element
# of a list literal; in a branch, loop or function that never runs) is still a literal expression: the compiler evaluates
# it, and rejects it exactly when its evaluation fails -- on whichever side of the non-constant operand it stands.  Fixed.
EMB_FAILING = ["1 / 0", "5 % 0", "2147483647 + 1", "1 << 32", "B1 / B0", "0b1 / 0b0", "1.5 / 0b0", "-(-2147483647 - 1)", "65536 * 65536"]
EMB_FINE = [("6 / 2", "3"), ("7 % 4", "3"), ("2147483000 + 1", "2147483001"), ("1 << 30", "1073741824"), ("-(-2147483000)", "2147483000")]
EMB_PRE = "a = 7\nf = fn(n: int) -> int {\n  return n\n}\ng = fn(p: int, q: int) -> int {\n  return p + q\n}\nprint \"start\"\n"
EMB_CTX = {"right-of-variable": ("print a + (%s)\n", lambda v: str(7 + v)), "left-of-variable": ("print (%s) + a\n", lambda v: str(v + 7)),
           "right-of-call": ("print f(a) + (%s)\n", lambda v: str(7 + v)), "right-of-indexed-literal": ("print [2, 3][0] + (%s)\n", lambda v: str(2 + v)),
           "deeper": ("print a * ((%s) + 0)\n", lambda v: None), "argument": ("print g(a, %s)\n", lambda v: str(7 + v)),
           "list-next-to-variable": ("x: [int...] = [a, %s]\nprint x\n", lambda v: "[7, %d]" % v), "branch-not-taken": ("if a > 100 {\n  print a + (%s)\n}\n", lambda v: ""),
           "loop-not-run": ("while a > 100 {\n  print a - (%s)\n}\n", lambda v: ""), "function-never-called": ("h = fn() -> int {\n  return a + (%s)\n}\n", lambda v: ""),
           "assigned": ("x = a - (%s)\nprint x\n", lambda v: str(7 - v)), "condition": ("if a < (%s) {\n  print 1\n}\n", lambda v: "1" if 7 < v else ""),
           "right-of-string": ("print \"s\" + (%s)\n", lambda v: "s%d" % v)}


def run_embedded(ctx, binary):
    base = ctx.mktemp()
    cases = []
    for cn, (tmpl, expf) in sorted(EMB_CTX.items()):
        for fl in EMB_FAILING:
            cases.append((cn, fl, EMB_PRE + (tmpl % fl) + "print \"end\"\n", None))
        for ok_src, val in EMB_FINE:
            exp = expf(int(val))
            if exp is not None:
                cases.append((cn, ok_src, EMB_PRE + (tmpl % ok_src) + "print \"end\"\n", ["start"] + ([exp] if exp != "" else []) + ["end"]))

    def one(c):
        d = programs.materialize({"files": {"m.ms": c[2]}}, base)
        r = programs.run_bin(binary, ["run", "m.ms", "-q"], d)
        import shutil
        shutil.rmtree(d, ignore_errors=True)
        return r
    n = 0
    for (cn, lit_src, src, exp), (rc, out, err) in zip(cases, programs.pmap(one, cases)):
        n += 1
        rejected = "Did not compile successfully" in err and "start" not in out
        if exp is None and not rejected:
            ctx.report("embedded-literal:failing-not-rejected", "the failing literal expression `%s` %s is not rejected by the compiler (exit %d, printed %r): a literal expression is rejected exactly when its evaluation fails"
                       % (lit_src, cn, rc, out.split("\n")[:3]), {"context": cn, "literal_expression": lit_src, "program": src, "rc": rc, "stdout": out[-300:], "stderr": err[-400:], "how": "mscript run m.ms -q"})
        elif exp is not None and (rc != 0 or out.split("\n")[:-1] != exp):
            ctx.report("embedded-literal:fine-literal-wrong", "the literal expression `%s` %s: exit %d, printed %r, expected %r %s"
                       % (lit_src, cn, rc, out.split("\n")[:-1], exp, [l.strip() for l in (out + err).splitlines() if l.strip().startswith("=")][:1]),
                       {"context": cn, "literal_expression": lit_src, "program": src, "expected": exp, "rc": rc, "stdout": out[-300:], "stderr": err[-400:], "how": "mscript run m.ms -q"})
    ctx.cov["embedded_literal_cases"] = {"programs": n, "contexts": sorted(EMB_CTX), "failing_literals": EMB_FAILING}
    return n


def run(ctx):
    ok = core.coq_props(ctx, "Props/C06.v")
    binary = core.build_repo()
    trees, dist, exhaustive = gen_trees(ctx)
    obs = observe(ctx, binary, trees)
    model_idx = [i for i, e in enumerate(trees) if e[0] != "list"]
    model = dict(zip(model_idx, run_fold_model(ctx, [core_tree(trees[i]) for i in model_idx])))
    prop_fail = dis = n_mixed = 0
    nontrivial = set()
    verdicts = {}
    for i, e in enumerate(trees):
        folded, unfolded, mixed = obs[i]
        key = "%s/%s" % ("fail" if fails(folded) else "value", "fail" if fails(unfolded) else "value")
        verdicts[key] = verdicts.get(key, 0) + 1
        m = model.get(i)
        if not fails(folded):
            agree = folded == unfolded
        elif folded in ("REJECT", "CPANIC"):
            agree = fails(unfolded)             # the compiler rejects <=> run-time evaluation fails
        else:
            # accepted, but the program dies at run time: fine only when the folder leaves the tree to run time
            agree = fails(unfolded) and (m is None or m["fold"] == "NOT")
        if m and m["fold"] != "NOT" and (len(set(x[0] for x in leaves_of(e, []))) > 1 or m["fold"] == "REJECT"):
            nontrivial.add(sexp(core_tree(e)))
        if folded.startswith("?") or unfolded.startswith("?"):
            agree = False
        # the mixed rendering (first literal through a variable): its literal sub-expressions must mean what they
        # mean over variables -- same value and kind, or both renderings fail
        if agree and mixed is not None:
            n_mixed += 1
            if not (mixed == unfolded if not fails(unfolded) else fails(mixed)):
                prop_fail += 1
                f, u = programs_for(e)
                oversized = any(t[0] == "I" and nc.ival(t) > nc.I32_MAX for t in leaves_of(e, [])[1:])
                cls = "int-literal-beyond-32-bits-compiled-as-int" if oversized and mixed in ("ERR", "PANIC") else \
                    "literal-operand-next-to-a-variable-differs:" + shape(e)
                ctx.report(cls, "a literal operand next to a variable does not mean what it means through a variable: `%s` -> %s, with every operand in a variable -> %s"
                           % (mixed_program(e).strip().replace("\n", "; "), mixed, unfolded),
                           {"tree": sexp(core_tree(e)) if e[0] != "list" else str(e), "mixed_program": mixed_program(e), "unfolded_program": u,
                            "mixed_observed": mixed, "unfolded_observed": unfolded, "folded_observed": folded, "model": m,
                            "how": "MSCRIPT_VERIF_TYPED_PRINT=1 mscript run m.ms -q   (each program in an empty directory)"})
                continue
        if not agree:
            prop_fail += 1
            f, u = programs_for(e)
            ctx.report(classify(e, folded, unfolded),
                       "folded and unfolded renderings disagree: `%s` -> %s, with the operands in variables -> %s" % (f.strip(), folded, unfolded),
                       {"tree": sexp(core_tree(e)) if e[0] != "list" else str(e), "folded_program": f, "unfolded_program": u,
                        "folded_observed": folded, "unfolded_observed": unfolded, "model": m,
                        "how": "MSCRIPT_VERIF_TYPED_PRINT=1 mscript run m.ms -q   (each program in an empty directory)"})
            continue
        if m is None:
            continue
        if has_failing_fallback(e) and fails(folded) and fails(unfolded):
            # the models see the primary only ((e or v) = e): a fallback that is refused for what it IS (not for what it
            # evaluates to) makes both renderings fail alike, which is all the property asks
            continue
        # correspondence: the folder model and the run-time model against the two observations
        exp_f = {"REJECT": "REJECT", "RTFAIL": "ERR"}.get(m["fold"], m["fold"])
        if m["fold"] == "NOT":
            exp_f = m["rt"]
        good_f = folded == exp_f or (fails(folded) and fails(exp_f) and m["fold"] == "NOT")
        good_u = unfolded == m["rt"] or (fails(unfolded) and fails(m["rt"]))
        if not (good_f and good_u):
            dis += 1
            f, u = programs_for(e)
            which = "folder model (Fold/FoldModel.v fold FixedF)" if not good_f else "run-time model (eval_rt Fixed)"
            cls = "correspondence:%s:%s" % ("fold" if not good_f else "rt", shape(e))
            if "(shl " in sexp(core_tree(e)) and fails(m["rt"]) and not fails(unfolded) and m.get("rt_orig_trap") == unfolded:
                # C05 shl-overflow-yields-truncated-value: the tree under test still has checked_shl in the folder and at run
                # time (both truncate, so the two renderings agree); the models are those of fixes/num-shl-lost-bits.diff
                cls = "correspondence:shl-loses-bits-in-folder-and-at-run-time"
            ctx.report(cls,
                       "%s disagrees with the implementation on `%s`: folded observed=%s model=%s; unfolded observed=%s model=%s" % (which, f.strip(), folded, m["fold"], unfolded, m["rt"]),
                       {"tree": sexp(core_tree(e)), "folded_program": f, "unfolded_program": u, "folded_observed": folded,
                        "unfolded_observed": unfolded, "model": m}, found_input=False)
    nv = len(ctx.viol)
    n_emb = run_embedded(ctx, binary)
    prop_fail += len(ctx.viol) - nv
    ctx.cov["evaluations"] = 2 * len(trees) + n_mixed + n_emb
    ctx.cov["mixed_renderings_compared"] = n_mixed
    ctx.cov["distinct_nontrivial"] = len(nontrivial)
    ctx.cov["exhaustive"] = exhaustive
    ctx.cov["exhaustive_part"] = ("all depth-1 trees over %d source literals x 10 folded operators + unary minus; all depth-2 trees over the %d core literals (both shapes) and unary minus inside/outside (x %d literals): %d trees"
                                  % (dist["leaf_set"], len(CORE2), dist["core_leaf_set"], dist["depth1"] + dist["depth2"])) if exhaustive else \
        "quick tier: sample of %d depth-1 and %d depth-2 trees" % (dist["depth1"], dist["depth2"])
    ctx.cov["distribution"] = dist
    ctx.cov["verdict_pairs_folded/unfolded"] = verdicts
    ctx.cov["rule"] = ("evaluations = programs compiled and run (2 renderings per tree + the mixed rendering of trees with two or more leaves); non-trivial = distinct tree the folder model folds "
                       "with leaves of different kinds, or that the folder rejects")
    ctx.cov["renderings_disagree"] = prop_fail
    ctx.cov["model_impl_disagreements"] = dis
    ctx.cov["model_version"] = nc.MODEL_VERSION
    ctx.cov["traces_validated_against_impl"] = 2 * len(model)
    for j in (0, 30, len(trees) // 2, len(trees) - 3):
        f, u = programs_for(trees[j])
        ctx.sample({"folded": f, "unfolded": u, "mixed": mixed_program(trees[j]), "observed": obs[j], "model": model.get(j)})
    ctx.cov["trusted_base"] = ["Coq 8.16.1 kernel (coqc; vm_compute in Examples / witness lemmas)",
                               "Flocq 4.1.0 IEEE754.BinarySingleNaN (binary64) and its library axioms as printed by Print Assumptions",
                               "literal texts are modelled abstractly (Src / Dec / Minus): Rust's integer and f64 FromStr / Display round trip and correctly rounded decimal->binary64 parsing are assumptions, exercised by this run",
                               "extraction: ExtrOcamlBasic only; extract/fold_driver.ml glue",
                               "the mscript binary built from the working tree with the typed-print hook (MSCRIPT_VERIF_TYPED_PRINT)"]
    ctx.assumptions = ["models Fold/FoldModel.v and Num/NumImpl.v are hand-written; tied to the code by this run's differential comparison",
                       "get / or / lists / parentheses are covered by the differential comparison only (get e = e, (e or v) = e for non-nil e, lists elementwise); the Coq theorem covers the ten folded binary operators, unary minus and `!`",
                       "a compile-time rejection corresponds to any run-time failure (error or panic) of the unfolded rendering"]
    if ok and not ctx.quick():
        nc.coqchk(ctx, ["MS.Props.C06"])
    core.proof_or_search(ctx, ok, ["C06_fold_agrees", "C06_inline_agrees"], prop_fail > 0)
