"""MANIFEST.json is assembled from manifest.d/Cxx.json (one check entry per claimed property);
every property without a fragment is listed under not_applicable with the reason in
manifest.d/not_applicable.json (or a default)."""
import json, os, subprocess
from . import core


def build():
    props = [json.loads(l) for l in open(os.path.join(core.VERIF, "properties.jsonl"))]
    d = os.path.join(core.VERIF, "manifest.d")
    checks = []
    na_reasons = {}
    p = os.path.join(d, "not_applicable.json")
    if os.path.exists(p):
        na_reasons = json.load(open(p))
    for pr in props:
        f = os.path.join(d, pr["id"] + ".json")
        if os.path.exists(f):
            checks.append(json.load(open(f)))
    claimed = [c["property_id"] for c in checks]
    hooks = subprocess.run(["git", "-C", core.REPO, "log", "--format=%h %s"], capture_output=True, text=True).stdout.splitlines()
    hook_commits = [l.split()[0] for l in hooks if l.split(" ", 1)[1].startswith("verif hook")]
    m = {"version": 1, "setup_cmd": "./verify setup",
         "hooks": {"guard": "mscript_verif",
                   "enable": "RUSTFLAGS=\"--cfg mscript_verif\" CARGO_TARGET_DIR=/verif/.cache/target cargo build --offline (in /repo)",
                   "baseline_off_cmd": "cd /repo && cargo nextest run --workspace --no-fail-fast --offline  (fallback: cargo test --workspace --no-fail-fast --offline -- --test-threads=1; classes registered in a process-global table make the in-process parallel runner flaky on the pinned tree too)",
                   "source_commits": hook_commits[::-1], "add_only": True},
         "engines": [{"name": "coq-proof+correspondence", "path": "/verif/coq, /verif/vlib, /verif/harness, /verif/extract, /verif/gen",
                      "serves_properties": claimed,
                      "kind_free_text": "Coq 8.16 development (executable models + theorems) re-checked on every run; hand-written models tied to /repo by differential correspondence checks that run the model (vm_compute / OCaml extraction) and the implementation (built from the working tree, hooks on) on the same inputs; small finite artefacts (opcode table, grammar) are translated from source on every run"}],
         "checks": checks,
         "not_applicable": [{"property_id": pr["id"], "reason": na_reasons.get(pr["id"], "check not built yet; not claimed (plan in DESIGN.md section 5)")}
                            for pr in props if pr["id"] not in claimed],
         "notes": "See DESIGN.md. known_findings.json lists fixed/known findings. Driver: ./verify check Cxx --tier quick|thorough."}
    json.dump(m, open(os.path.join(core.VERIF, "MANIFEST.json"), "w"), indent=1)
    return m
