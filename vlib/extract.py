"""OCaml extraction of Coq models + trusted line-oriented drivers (ExtrOcamlBasic only)."""
import os, re, shutil
from . import core

EX = os.path.join(core.VERIF, "extract")
GEN = os.path.join(core.CACHE, "extract")


def build(name, vfile, driver):
    """coqc <vfile> (extraction into GEN/<name>/) then ocamlopt model + driver. Returns binary path."""
    d = os.path.join(GEN, name)
    os.makedirs(d, exist_ok=True)
    # the model files the extraction imports must be compiled against the current sources (another property's
    # Props target need not have built them)
    vos = []
    for line in open(os.path.join(EX, vfile)):
        m = re.match(r"\s*From MS Require Import (.*?)\.\s*$", line)
        if m:
            vos += [x.replace(".", "/") + ".vo" for x in m.group(1).split()]
    if vos:
        with core.Lock("coq"):
            core.coq_makefile()
            rc, out, err = core.sh("timeout 1500 make -j%d %s" % (core.NCPU, " ".join(vos)), cwd=core.COQ, timeout=1600)
        if rc != 0:
            raise core.BuildError("building the models for extraction %s failed: %s" % (vfile, (out + err).decode("utf8", "replace")[-2000:]))
    with core.Lock("extract-" + name):
        shutil.copy(os.path.join(EX, vfile), os.path.join(d, vfile))
        shutil.copy(os.path.join(EX, driver), os.path.join(d, driver))
        rc, out, err = core.sh(["coqc", "-noglob", "-Q", core.COQ, "MS", vfile], cwd=d, timeout=900)
        if rc != 0:
            raise core.BuildError("extraction %s failed: %s" % (vfile, (out + err).decode("utf8", "replace")[-2000:]))
        mls = sorted(f for f in os.listdir(d) if f.endswith("_model.ml"))
        srcs = []
        for m in mls:
            if os.path.exists(os.path.join(d, m + "i")):
                srcs.append(m + "i")
            srcs.append(m)
        exe = os.path.join(d, name + "_driver")
        rc, out, err = core.sh(["ocamlfind", "ocamlopt", "-w", "-a"] + srcs + [driver, "-o", exe], cwd=d, timeout=900)
        if rc != 0:
            raise core.BuildError("ocamlopt %s failed: %s" % (driver, (out + err).decode("utf8", "replace")[-2000:]))
    return exe
