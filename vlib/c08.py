"""C08: objects have per-instance state, reference identity and bound methods.

Coq: Objects/{Model,Spec,Proofs}.v (Props/C08.v).  Correspondence: a generated class table (<= 3 classes whose
fields are int / str / bool / optional / [int...] / another class / optional class / list of objects, constructor
with arguments, a fixed method family per field) and a history (<= 15 constructions, method calls, field
reads / writes / op-assign through paths x.f.g, aliasings through assignment, argument passing, return values,
lists, fields and a map round trip, `is` tests, nil field accesses) are rendered BOTH as an .ms program (run by the
real binary) and as input of the extracted model; stdout and the exit class are compared line by line.
Independently the binary is compared with an executable reading of the property (oracle below: Python objects,
identity = Python identity); a failing history is shrunk by dropping operations.  The extracted model is also run
with legacy = true (the tree before fixes/c08-*.diff) to name a failure that is one of the repaired defects."""
import json
import os
import shutil
import sys

from . import core, programs, c08_extra, extract

INT, STR, BOOL = ("int",), ("str",), ("bool",)
LINT = ("list", INT)


def opt(t):
    return ("opt", t)


def lst(t):
    return ("list", t)


def cls(k):
    return ("cls", k)


def is_obj(t):
    return t[0] == "cls" or (t[0] == "opt" and t[1][0] == "cls")


def obj_class(t):
    return t[1] if t[0] == "cls" else t[1][1]


def tt(t):
    """json round trip turns tuples into lists"""
    if isinstance(t, (list, tuple)):
        return tuple(tt(x) for x in t)
    return t


class Invalid(Exception):
    pass


class Failure(Exception):
    pass


# --------------------------------------------------------------------------- class tables
# prog = {"classes": [{"fields": [type...], "params": [field index...], "body": [(field index, init)...]}], "flavour": int}
#   init = ("p", k) | ("lit", v) | ("empty",);   parameter k of the constructor has the type of field params[k]
#   literal values: int | ("s", text) | True/False | None

def tstr(t, own=None, self_ok=False):
    if t[0] in ("int", "str", "bool"):
        return t[0]
    if t[0] == "opt":
        return tstr(t[1], own, self_ok) + "?"
    if t[0] == "list":
        return "[%s...]" % tstr(t[1], own, self_ok)
    if t[0] == "cls":
        return "Self" if (self_ok and own == t[1]) else "C%d" % t[1]
    raise Invalid()


def lit_src(v):
    if v is None:
        return "nil"
    if v is True:
        return "true"
    if v is False:
        return "false"
    if isinstance(v, int):
        return str(v)
    return '"%s"' % v[1]


def fits(src, dst):
    """may a value of static type src be stored where dst is declared"""
    src, dst = tt(src), tt(dst)
    return src == dst or dst == ("opt", src)


def lit_fits(v, t):
    t = tt(t)
    if t[0] == "opt":
        return v is None or lit_fits(v, t[1])
    if v is None or isinstance(v, bool):
        return t == BOOL and isinstance(v, bool)
    if isinstance(v, int):
        return t == INT
    return t == STR and isinstance(v, (tuple, list))


def methods_of(prog, k):
    """the method family of class k: name -> (m, parameter types, result type | None)"""
    c = prog["classes"][k]
    out = {}
    me = cls(k)
    out["me"] = (("me",), [], me)
    out["dup"] = (("dup",) + tuple(c["params"]), [], me)
    for f, t in enumerate(c["fields"]):
        t = tt(t)
        out["get_f%d" % f] = (("get", f), [], t)
        out["set_f%d" % f] = (("set", f), [t], None)
        out["with_f%d" % f] = (("with", f), [t], me)
        out["getb_f%d" % f] = (("getb", f), [], t)
        out["setb_f%d" % f] = (("setb", f), [t], None)
        if t in (INT, STR):
            out["inc_f%d" % f] = (("inc", f), [t], t)
            out["twice_f%d" % f] = (("twice", f), [t], t)
            out["bump_f%d" % f] = (("bump", f), [me, t], None)
        # READ-ONLY methods: an expression over the field (prefix operator applied directly to the field access, a
        # comparison, an arithmetic expression); calling them must leave every object unchanged (C08_readonly_method_changes_nothing)
        if t == INT:
            out["neg_f%d" % f] = (("neg", f), [], INT)
            out["sum_f%d" % f] = (("sum", f), [], INT)
            out["pos_f%d" % f] = (("pos", f), [], BOOL)
        if t == BOOL:
            out["not_f%d" % f] = (("not", f), [], BOOL)
        if t == STR:
            out["cat_f%d" % f] = (("cat", f), [], STR)
        if t[0] == "list":
            out["push_f%d" % f] = (("push", f), [t[1]], None)
        if is_obj(t):
            j = obj_class(t)
            for g, tg in enumerate(prog["classes"][j]["fields"]):
                tg = tt(tg)
                if tg in (INT, STR):
                    out["poke_f%d_f%d" % (f, g)] = (("poke", f, g), [tg], None)
    # methods that read / write a variable declared OUTSIDE the class (module level, or a local of the enclosing
    # function).  A bare name that is also a field of this class is the field (getb/setb), so no such method then.
    for gi, ov in enumerate(prog.get("outer", [])):
        if ov["name"] in ["f%d" % f for f in range(len(c["fields"]))]:
            continue
        gt = tt(ov["type"])
        out["rdo_%s" % ov["name"]] = (("rdo", gi), [], gt)
        out["wro_%s" % ov["name"]] = (("wro", gi), [gt], None)
        for f, t in enumerate(c["fields"]):
            if tt(t) == gt:
                out["addo_%s_f%d" % (ov["name"], f)] = (("addo", gi, f), [], gt)
    return out


OUTER_KINDS = ("rdo", "wro", "addo")
RO_KINDS = ("neg", "sum", "pos", "not", "cat")          # read-only expression methods (Objects/Model.v MRo)


def has_outer_ops(prog, hist):
    """does the history use a variable declared outside the classes (not covered by the Coq model)"""
    for op in hist:
        if op[0] in ("oprint", "owrite") or (op[0] == "call" and op[3].split("_")[0] in OUTER_KINDS):
            return True
    return False


def param_name(prog, k, j):
    """constructor parameters are named like the fields they initialise (flavour bit 2) or p<j>"""
    return ("f%d" % prog["classes"][k]["params"][j]) if (prog.get("flavour", 0) & 2) else "p%d" % j


METHOD_PARAM_NAMES = {"v": None, "d": None, "x": None, "other": None}


def outer_hidden_by_param(prog):
    """outer variables whose name is also the name of a parameter of a constructor or of a method of some class
    -> [(name, differs)]: differs = some such parameter has another type than the outer variable"""
    out = []
    for ov in prog.get("outer", []):
        types = []
        for k, c in enumerate(prog["classes"]):
            for j, pf in enumerate(c["params"]):
                if param_name(prog, k, j) == ov["name"]:
                    types.append(tt(c["fields"][pf]))
            if ov["name"] in METHOD_PARAM_NAMES:
                for name, (m, pts, rt) in methods_of(prog, k).items():
                    if m[0] in ("set", "setb", "with") and ov["name"] == "v":
                        types.append(tt(pts[0]))
                    if m[0] in ("inc", "twice", "poke") and ov["name"] == "d":
                        types.append(tt(pts[0]))
                    if m[0] == "bump" and ov["name"] in ("other", "d"):
                        types.append(tt(pts[0] if ov["name"] == "other" else pts[1]))
                    if m[0] == "push" and ov["name"] == "x":
                        types.append(tt(pts[0]))
        if types:
            out.append((ov["name"], any(t != tt(ov["type"]) for t in types)))
    return out


def render_method(prog, k, name, sig):
    m, ptypes, rt = sig
    T = lambda t: tstr(t, k, True)
    kind = m[0]
    f = "f%d" % m[1] if len(m) > 1 else None
    if kind == "me":
        return "\tfn me(self) -> Self {\n\t\treturn self\n\t}\n"
    if kind in OUTER_KINDS:
        g = prog["outer"][m[1]]["name"]
        if kind == "rdo":
            return "\tfn %s(self) -> %s {\n\t\treturn %s\n\t}\n" % (name, T(rt), g)
        if kind == "wro":
            return "\tfn %s(self, nv: %s) {\n\t\tmodify %s = nv\n\t}\n" % (name, T(ptypes[0]), g)
        return "\tfn %s(self) -> %s {\n\t\treturn self.f%d + %s\n\t}\n" % (name, T(rt), m[2], g)
    if kind in RO_KINDS:
        expr = {"neg": "-self.%s", "sum": "self.%s + self.%s", "pos": "self.%s > 0", "not": "!self.%s", "cat": 'self.%s + ""'}[kind]
        expr = expr % ((f, f) if kind == "sum" else (f,))
        return "\tfn %s(self) -> %s {\n\t\treturn %s\n\t}\n" % (name, T(rt), expr)
    if kind == "dup":
        return "\tfn dup(self) -> Self {\n\t\treturn Self(%s)\n\t}\n" % ", ".join("self.f%d" % x for x in m[1:])
    if kind == "get":
        return "\tfn %s(self) -> %s {\n\t\treturn self.%s\n\t}\n" % (name, T(rt), f)
    if kind == "getb":
        return "\tfn %s(self) -> %s {\n\t\treturn %s\n\t}\n" % (name, T(rt), f)
    if kind == "set":
        return "\tfn %s(self, v: %s) {\n\t\tself.%s = v\n\t}\n" % (name, T(ptypes[0]), f)
    if kind == "setb":
        return "\tfn %s(self, v: %s) {\n\t\tmodify %s = v\n\t}\n" % (name, T(ptypes[0]), f)
    if kind == "with":
        return "\tfn %s(self, v: %s) -> Self {\n\t\tself.%s = v\n\t\treturn self\n\t}\n" % (name, T(ptypes[0]), f)
    if kind == "inc":
        return "\tfn %s(self, d: %s) -> %s {\n\t\tself.%s = self.%s + d\n\t\treturn self.%s\n\t}\n" % (name, T(ptypes[0]), T(rt), f, f, f)
    if kind == "twice":
        return "\tfn %s(self, d: %s) -> %s {\n\t\tself.inc_%s(d)\n\t\treturn self.inc_%s(d)\n\t}\n" % (name, T(ptypes[0]), T(rt), f, f)
    if kind == "bump":
        return "\tfn %s(self, other: Self, d: %s) {\n\t\tother.%s = other.%s + d\n\t}\n" % (name, T(ptypes[1]), f, f)
    if kind == "push":
        return "\tfn %s(self, x: %s) {\n\t\tself.%s.push(x)\n\t}\n" % (name, T(ptypes[0]), f)
    if kind == "poke":
        g = "f%d" % m[2]
        return "\tfn %s(self, d: %s) {\n\t\tself.%s.%s = self.%s.%s + d\n\t}\n" % (name, T(ptypes[0]), f, g, f, g)
    raise Invalid()


def render_classes(prog, used=None):
    """class declarations; `used`: set of (class, method name) that must be present (None: the whole family)"""
    out = []
    fl = prog.get("flavour", 0)
    for k, c in enumerate(prog["classes"]):
        s = "class C%d {\n" % k
        for f, t in enumerate(c["fields"]):
            s += "\tf%d: %s\n" % (f, tstr(tt(t), k, True))      # the class under definition is only known as Self
        # constructor parameters are named like the fields they initialise (flavour bit 1) or p<k>
        pn = lambda j, k=k: param_name(prog, k, j)
        ps = "".join(", %s: %s" % (pn(j), tstr(tt(c["fields"][pf]), k, True)) for j, pf in enumerate(c["params"]))
        if c["body"] or c["params"] or not (fl & 4):
            s += "\tconstructor(self%s) {\n" % ps
            for f, ini in c["body"]:
                rhs = pn(ini[1]) if ini[0] == "p" else lit_src(ini[1]) if ini[0] == "lit" else "[]"
                if fl & 1 and used is None:
                    s += "\t\tself.set_f%d(%s)\n" % (f, rhs)     # the constructor calls a method of the object under construction
                else:
                    s += "\t\tself.f%d = %s\n" % (f, rhs)
            s += "\t}\n"
        ms = methods_of(prog, k)
        for name in ms:
            if used is None or (k, name) in used or (name.startswith("inc_") and (k, "twice_" + name[4:]) in used):
                s += render_method(prog, k, name, ms[name])
        s += "}\n"
        out.append(s)
    return "".join(out)


# --------------------------------------------------------------------------- static types of a history
# ops (tuples):
#  ("new", dst, k, [operand])          dst = Ck(args)
#  ("bind", dst, path, unwrap)         dst = p | dst = get p
#  ("write", path, f, operand)         p.f = v
#  ("opassign", path, f, op, lit)      p.f op= lit
#  ("print", path)   ("isnil", path)   print p | print p == nil
#  ("call", mode, path, mname, [operand])   mode: int (bind) | "p" (print) | "_" (statement)
#  ("lnew", dst, elemtype, [operand])  ("lpush", path, operand)  ("lget", dst, path, i)  ("llen", path)
#  ("pass", path, f, lit)              bump_Ck_f(p, lit)      ("retsame", dst, path)   dst = same_Ck(p)
#  ("is", path, path)
#  ("viamap", dst, path)               dst = thru_Ck(p): the object is stored in a map and taken out again (m.replace)
#  ("oprint", g)   ("owrite", g, lit)  print <outer g> | <outer g> = lit        (outer variables: correspondence only)
# path = (var, field, field, ...);  operand = ("L", literal) | ("P", path)

def printable(t):
    return not is_obj(t) and not (t[0] == "list" and t[1][0] == "cls")


class Typer:
    def __init__(self, prog):
        self.prog = prog
        self.env = {}

    def need(self, c):
        if not c:
            raise Invalid()

    def ftype(self, k, f):
        fs = self.prog["classes"][k]["fields"]
        self.need(0 <= f < len(fs))
        return tt(fs[f])

    def ptype(self, p):
        """-> (declared type of the last component, definite): definite = no optional reference is selected from
        on the way (the checker types a selection through an optional receiver as optional)"""
        p = tt(p)
        self.need(len(p) >= 1 and p[0] in self.env)
        t = self.env[p[0]]
        definite = True
        for f in p[1:]:
            self.need(is_obj(t))
            if t[0] == "opt":
                definite = False
            t = self.ftype(obj_class(t), f)
        return t, definite

    def recv(self, p):
        """static class of a receiver path"""
        t, _ = self.ptype(p)
        self.need(is_obj(t))
        return obj_class(t)

    def operand_ok(self, o, t):
        if o[0] == "L":
            return lit_fits(o[1], t)
        try:
            pt, definite = self.ptype(o[1])
        except Invalid:
            return False
        return definite and fits(pt, t)

    def bind(self, dst, t):
        t = tt(t)
        if dst in self.env:
            self.need(self.env[dst] == t)
        self.env[dst] = t

    def apply(self, op):
        op = tt(op)
        k = op[0]
        need = self.need
        if k == "new":
            _, dst, c, args = op
            need(0 <= c < len(self.prog["classes"]))
            cd = self.prog["classes"][c]
            need(len(args) == len(cd["params"]))
            for a, pf in zip(args, cd["params"]):
                need(self.operand_ok(a, self.ftype(c, pf)))
            self.bind(dst, cls(c))
        elif k == "bind":
            _, dst, p, unwrap = op
            t, definite = self.ptype(p)
            need(definite and dst != p[0])
            if unwrap:
                need(t[0] == "opt")
                t = t[1]
            self.bind(dst, t)
        elif k == "write":
            need(self.operand_ok(op[3], self.ftype(self.recv(op[1]), op[2])))
        elif k == "opassign":
            t = self.ftype(self.recv(op[1]), op[2])
            need((t == INT and isinstance(op[4], int) and not isinstance(op[4], bool)) or
                 (t == STR and op[3] == "add" and isinstance(op[4], tuple)))
        elif k == "print":
            need(len(op[1]) >= 1)
            need(printable(self.ptype(op[1])[0]))
        elif k == "isnil":
            need(len(op[1]) >= 2 and self.ptype(op[1])[0][0] == "opt")
        elif k == "call":
            _, mode, p, name, args = op
            c = self.recv(p)
            ms = methods_of(self.prog, c)
            need(name in ms)
            m, pts, rt = ms[name]
            need(len(args) == len(pts))
            for a, pt in zip(args, pts):
                need(self.operand_ok(a, pt))
            if mode == "p":
                need(rt is not None and printable(rt))
            elif mode != "_":
                # (a result obtained through an optional receiver is typed optional by the checker: definite receivers only)
                t, definite = self.ptype(p)
                need(rt is not None and mode != p[0] and definite and t[0] == "cls")
                # (a `Self?` result keeps the unresolved type `Self?` outside the class: nothing can be selected from it)
                need(rt != opt(cls(c)))
                self.bind(mode, rt)
        elif k == "lnew":
            _, dst, et, es = op
            need(dst not in self.env and (et == INT or et[0] == "cls"))
            for e in es:
                need(self.operand_ok(e, et))
            self.env[dst] = lst(et)
        elif k == "lpush":
            t, _ = self.ptype(op[1])
            need(t[0] == "list" and self.operand_ok(op[2], t[1]))
        elif k == "lget":
            t, definite = self.ptype(op[2])
            need(t[0] == "list" and definite and op[3] >= 0 and op[1] != op[2][0])
            self.bind(op[1], t[1])
        elif k == "llen":
            need(self.ptype(op[1])[0][0] == "list")
        elif k == "pass":
            t, definite = self.ptype(op[1])
            need(t[0] == "cls" and definite)
            ft = self.ftype(t[1], op[2])
            need(ft in (INT, STR) and lit_fits(op[3], ft) and op[3] is not None)
        elif k == "retsame":
            t, definite = self.ptype(op[2])
            need(t[0] == "cls" and definite and op[1] != op[2][0])
            self.bind(op[1], t)
        elif k == "is":
            need(is_obj(self.ptype(op[1])[0]) and is_obj(self.ptype(op[2])[0]))
        elif k == "viamap":
            t, definite = self.ptype(op[2])
            need(t[0] == "cls" and definite and op[1] != op[2][0])
            self.bind(op[1], opt(t))
        elif k == "oprint":
            need(0 <= op[1] < len(self.prog.get("outer", [])))
        elif k == "owrite":
            need(0 <= op[1] < len(self.prog.get("outer", [])))
            need(lit_fits(op[2], self.prog["outer"][op[1]]["type"]) and op[2] is not None)
        else:
            raise Invalid()


def typecheck(prog, hist):
    ty = Typer(prog)
    for op in hist:
        ty.apply(op)
    return ty.env


# --------------------------------------------------------------------------- the property, executable
# an object is a Python object (identity = Python identity) with a dict of fields; a list is a Python list

class Obj:
    def __init__(self, k):
        self.k = k
        self.f = {}


class PList(list):
    __hash__ = object.__hash__


def o_add(a, b):
    if isinstance(a, tuple) and isinstance(b, tuple):
        return ("s", a[1] + b[1])
    if isinstance(a, bool) or isinstance(b, bool) or not isinstance(a, int) or not isinstance(b, int):
        raise Invalid()
    return o_int(a + b)


def o_int(r):
    if not -2 ** 31 <= r < 2 ** 31:
        raise Invalid()
    return r


def o_show(v):
    """an observation: scalars and lists of scalars; an object is never printed"""
    if isinstance(v, Obj):
        raise Invalid()
    if isinstance(v, PList):
        for x in v:
            if isinstance(x, (Obj, PList)):
                raise Invalid()
        return list(v)
    return v


class Oracle:
    def __init__(self, prog):
        self.prog = prog
        self.env = {}
        self.outer = [tt(ov["init"]) if isinstance(ov["init"], list) else ov["init"] for ov in prog.get("outer", [])]

    def obj(self, v):
        """the object a reference denotes; nil denotes none: the program stops"""
        if v is None:
            raise Failure()
        if not isinstance(v, Obj):
            raise Invalid()
        return v

    def lst(self, v):
        if v is None:
            raise Failure()
        if not isinstance(v, PList):
            raise Invalid()
        return v

    def path(self, p):
        v = self.env[p[0]]
        for f in p[1:]:
            v = self.obj(v).f[f]
        return v

    def val(self, o):
        return o[1] if o[0] == "L" else self.path(o[1])

    def construct(self, k, args):
        c = self.prog["classes"][k]
        o = Obj(k)
        for f in range(len(c["fields"])):
            o.f[f] = None
        for f, ini in c["body"]:
            o.f[f] = args[ini[1]] if ini[0] == "p" else ini[1] if ini[0] == "lit" else PList()
        return o

    def method(self, o, m, args):
        kind = m[0]
        if kind == "me":
            return o
        if kind == "dup":
            return self.construct(o.k, [o.f[f] for f in m[1:]])
        # a method is lexically inside the class: a name that is neither a field nor its own parameter is the variable
        # of the enclosing scope (never a constructor parameter: those are local to the constructor)
        if kind == "rdo":
            return self.outer[m[1]]
        if kind == "wro":
            self.outer[m[1]] = args[0]
            return None
        if kind == "addo":
            return o_add(o.f[m[2]], self.outer[m[1]])
        f = m[1]
        if kind in RO_KINDS:
            v = o.f[f]
            return {"neg": lambda: o_int(-v), "sum": lambda: o_add(v, v), "pos": lambda: v > 0, "not": lambda: not v, "cat": lambda: v}[kind]()
        if kind in ("get", "getb"):
            return o.f[f]
        if kind in ("set", "setb"):
            o.f[f] = args[0]
            return None
        if kind == "with":
            o.f[f] = args[0]
            return o
        if kind == "inc":
            o.f[f] = o_add(o.f[f], args[0])
            return o.f[f]
        if kind == "twice":
            self.method(o, ("inc", f), args)
            return self.method(o, ("inc", f), args)
        if kind == "bump":
            other = self.obj(args[0])
            other.f[f] = o_add(other.f[f], args[1])
            return None
        if kind == "push":
            self.lst(o.f[f]).append(args[0])
            return None
        if kind == "poke":
            inner = self.obj(o.f[f])
            inner.f[m[2]] = o_add(inner.f[m[2]], args[0])
            return None
        raise Invalid()

    def apply(self, op):
        """-> list of observations; raises Failure when the program stops with an error"""
        op = tt(op)
        k = op[0]
        env = self.env
        if k == "new":
            env[op[1]] = self.construct(op[2], [self.val(a) for a in op[3]])
        elif k == "bind":
            v = self.path(op[2])
            if op[3] and v is None:
                raise Failure()
            env[op[1]] = v
        elif k == "write":
            v = self.val(op[3])
            self.obj(self.path(op[1])).f[op[2]] = v
        elif k == "opassign":
            o = self.obj(self.path(op[1]))
            cur, x = o.f[op[2]], op[4]
            if op[3] == "add":
                o.f[op[2]] = o_add(cur, x)
            elif op[3] == "sub":
                o.f[op[2]] = o_int(cur - x)
            else:
                o.f[op[2]] = o_int(cur * x)
        elif k == "print":
            return [o_show(self.path(op[1]))]
        elif k == "isnil":
            return [self.path(op[1]) is None]
        elif k == "call":
            _, mode, p, name, args = op
            o = self.obj(self.path(p))
            m = methods_of(self.prog, o.k)[name][0]
            r = self.method(o, m, [self.val(a) for a in args])
            if mode == "p":
                return [o_show(r)]
            if mode != "_":
                env[mode] = r
        elif k == "lnew":
            env[op[1]] = PList(self.val(e) for e in op[3])
        elif k == "lpush":
            l = self.lst(self.path(op[1]))
            l.append(self.val(op[2]))
        elif k == "lget":
            xs = self.lst(self.path(op[2]))
            if not 0 <= op[3] < len(xs):
                raise Failure()
            env[op[1]] = xs[op[3]]
        elif k == "llen":
            return [len(self.lst(self.path(op[1])))]
        elif k == "pass":
            o = self.obj(self.path(op[1]))
            o.f[op[2]] = o_add(o.f[op[2]], op[3])
        elif k == "retsame":
            env[op[1]] = self.obj(self.path(op[2]))
        elif k == "is":
            return [self.path(op[1]) is self.path(op[2])]
        elif k == "viamap":
            env[op[1]] = self.obj(self.path(op[2]))      # what comes out of the map is the object that went in
        elif k == "oprint":
            return [self.outer[op[1]]]
        elif k == "owrite":
            self.outer[op[1]] = op[2]
        else:
            raise Invalid()
        return []


def oracle(prog, hist):
    """-> (observations, failed)"""
    o = Oracle(prog)
    obs = []
    try:
        for op in hist:
            obs += o.apply(op)
    except Failure:
        return obs, True
    return obs, False


def show(o, depth=0):
    """Display of an observation as `print` shows it"""
    if o is None:
        return "nil"
    if isinstance(o, bool):
        return "true" if o else "false"
    if isinstance(o, int):
        return str(o)
    if isinstance(o, tuple):
        return o[1] if depth == 0 else '"%s"' % o[1]
    return "[" + ", ".join(show(x, depth + 1) for x in o) + "]"


def expected_lines(obs, failed):
    out = [show(o) for o in obs]
    if not failed:
        out.append("<end>")
    return out


# --------------------------------------------------------------------------- rendering: program text

def path_src(p):
    return "v%d" % p[0] + "".join(".f%d" % f for f in p[1:])


def operand_src(o):
    return lit_src(o[1]) if o[0] == "L" else path_src(o[1])


def render_program(prog, hist):
    ty = Typer(prog)
    lines = []
    helpers = {}
    used = set()
    fl = prog.get("flavour", 0)

    def assign(dst, rhs, t=None):
        if dst in ty.env or t is None:
            lines.append("v%d = %s" % (dst, rhs))
        else:
            lines.append("v%d: %s = %s" % (dst, tstr(t), rhs))

    for op in hist:
        op = tt(op)
        k = op[0]
        if k == "new":
            c = op[2]
            ctor = "C%d" % c
            if fl & 16:
                # constructions go through a factory function: the class body runs inside another function's frame
                cd = prog["classes"][c]
                ctor = "mk_C%d" % c
                ps = ", ".join("p%d: %s" % (j, tstr(tt(cd["fields"][pf]))) for j, pf in enumerate(cd["params"]))
                helpers[ctor] = "%s = fn(%s) -> C%d {\n\treturn C%d(%s)\n}\n" % (ctor, ps, c, c, ", ".join("p%d" % j for j in range(len(cd["params"]))))
            assign(op[1], "%s(%s)" % (ctor, ", ".join(operand_src(a) for a in op[3])))
        elif k == "bind":
            assign(op[1], ("get " if op[3] else "") + path_src(op[2]))
        elif k == "write":
            lines.append("%s.f%d = %s" % (path_src(op[1]), op[2], operand_src(op[3])))
        elif k == "opassign":
            lines.append("%s.f%d %s %s" % (path_src(op[1]), op[2], {"add": "+=", "sub": "-=", "mul": "*="}[op[3]], lit_src(op[4])))
        elif k == "print":
            lines.append("print " + path_src(op[1]))
        elif k == "isnil":
            lines.append("print %s == nil" % path_src(op[1]))
        elif k == "call":
            _, mode, p, name, args = op
            c = ty.recv(p)
            used.add((c, name))
            e = "%s.%s(%s)" % (path_src(p), name, ", ".join(operand_src(a) for a in args))
            if mode == "p":
                lines.append("print " + e)
            elif mode == "_":
                lines.append(e)
            else:
                # a variable bound to the result of a method returning Self is declared with its class: without the
                # annotation the checker resolves `Self?` fields of that variable to `C` (a typing quirk outside C08)
                rt = methods_of(prog, c)[name][2]
                assign(mode, e, rt if rt[0] == "cls" else None)
        elif k == "lnew":
            lines.append("v%d: %s = [%s]" % (op[1], tstr(lst(op[2])), ", ".join(operand_src(e) for e in op[3])))
        elif k == "lpush":
            lines.append("%s.push(%s)" % (path_src(op[1]), operand_src(op[2])))
        elif k == "lget":
            l = path_src(op[2])
            assign(op[1], ("%s[%d]" if len(op[2]) == 1 else "(%s)[%d]") % (l, op[3]))
        elif k == "llen":
            lines.append("print %s.len()" % path_src(op[1]))
        elif k == "pass":
            c = ty.ptype(op[1])[0][1]
            t = ty.ftype(c, op[2])
            hn = "bump_C%d_f%d" % (c, op[2])
            helpers[hn] = "%s = fn(o: C%d, d: %s) {\n\to.f%d = o.f%d + d\n}\n" % (hn, c, tstr(t), op[2], op[2])
            lines.append("%s(%s, %s)" % (hn, path_src(op[1]), lit_src(op[3])))
        elif k == "retsame":
            c = ty.ptype(op[2])[0][1]
            hn = "same_C%d" % c
            helpers[hn] = "%s = fn(o: C%d) -> C%d {\n\treturn o\n}\n" % (hn, c, c)
            assign(op[1], "%s(%s)" % (hn, path_src(op[2])))
        elif k == "is":
            lines.append("print %s is %s" % (path_src(op[1]), path_src(op[2])))
        elif k == "oprint":
            lines.append("print %s" % prog["outer"][op[1]]["name"])
        elif k == "owrite":
            lines.append("%s = %s" % (prog["outer"][op[1]]["name"], lit_src(op[2])))
        elif k == "viamap":
            c = ty.ptype(op[2])[0][1]
            hn = "thru_C%d" % c
            helpers[hn] = "%s = fn(o: C%d) -> C%d? {\n\tm = map[str, C%d] { \"k\": o }\n\treturn m.replace(\"k\", o)\n}\n" % (hn, c, c, c)
            assign(op[1], "%s(%s)" % (hn, path_src(op[2])))
        else:
            raise Invalid()
        ty.apply(op)
    allm = bool(fl & 8)
    # variables declared outside (before) the classes
    outer = "".join("%s = %s\n" % (ov["name"], lit_src(tt(ov["init"]) if isinstance(ov["init"], list) else ov["init"])) for ov in prog.get("outer", []))
    text = outer + render_classes(prog, None if allm else used) + "".join(helpers[h] for h in sorted(helpers)) + "\n".join(lines) + '\nprint "<end>"\n'
    if fl & 32 and prog.get("outer"):
        # everything inside an enclosing function: the outer variables are its locals, captured by the class body
        text = "run_all = fn() {\n" + "".join("\t" + l + "\n" for l in text.splitlines()) + "}\nrun_all()\n"
    return text


# --------------------------------------------------------------------------- rendering: model input

def cps(s):
    return ".".join(str(ord(c)) for c in s) if s else "-"


def m_lit(v):
    if v is None:
        return "n"
    if isinstance(v, bool):
        return "b:%d" % (1 if v else 0)
    if isinstance(v, int):
        return "i:%d" % v
    return "s:" + cps(v[1])


def m_path(p):
    return ".".join(str(x) for x in p)


def m_operand(o):
    return "L" + m_lit(o[1]) if o[0] == "L" else "P" + m_path(o[1])


def m_meth(m):
    return ":".join([m[0]] + [str(x) for x in m[1:]])


def model_classes(prog):
    out = []
    for c in prog["classes"]:
        fs = ",".join(str(f) for f in range(len(c["fields"]))) or "-"
        body = ",".join("%d=%s" % (f, ("p%d" % ini[1]) if ini[0] == "p" else m_lit(ini[1]) if ini[0] == "lit" else "e") for f, ini in c["body"]) or "-"
        out.append("%s:%d:%s" % (fs, len(c["params"]), body))
    return "|".join(out)


def model_line(prog, hist):
    if has_outer_ops(prog, hist):
        # the Coq model covers fields only; a history that uses an outer variable is compared with the oracle only.
        # The model still gets the history up to the first such operation (a prefix is a history).
        n = 0
        while not has_outer_ops(prog, hist[:n + 1]):
            n += 1
        hist = hist[:n]
    out = []
    ty = Typer(prog)
    for op in hist:
        op = tt(op)
        k = op[0]
        if k == "new":
            out.append(" ".join(["new", str(op[1]), str(op[2])] + [m_operand(a) for a in op[3]]))
        elif k == "bind":
            out.append("bind %d %s %d" % (op[1], m_path(op[2]), 1 if op[3] else 0))
        elif k == "write":
            out.append("write %s %d %s" % (m_path(op[1]), op[2], m_operand(op[3])))
        elif k == "opassign":
            out.append("opassign %s %d %s %s" % (m_path(op[1]), op[2], op[3], m_lit(op[4])))
        elif k in ("print", "isnil", "llen"):
            out.append("%s %s" % (k, m_path(op[1])))
        elif k == "call":
            _, mode, p, name, args = op
            m = methods_of(prog, ty.recv(p))[name][0]
            out.append(" ".join(["call", str(mode), m_path(p), m_meth(m)] + [m_operand(a) for a in args]))
        elif k == "lnew":
            out.append(" ".join(["lnew", str(op[1])] + [m_operand(e) for e in op[3]]))
        elif k == "lpush":
            out.append("lpush %s %s" % (m_path(op[1]), m_operand(op[2])))
        elif k == "lget":
            out.append("lget %d %s %d" % (op[1], m_path(op[2]), op[3]))
        elif k == "pass":
            out.append("pass %s %d %s" % (m_path(op[1]), op[2], m_lit(op[3])))
        elif k == "retsame":
            out.append("retsame %d %s" % (op[1], m_path(op[2])))
        elif k == "is":
            out.append("is %s %s" % (m_path(op[1]), m_path(op[2])))
        elif k == "viamap":
            out.append("viamap %d %s" % (op[1], m_path(op[2])))
        else:
            raise Invalid()
        ty.apply(op)
    return model_classes(prog) + "#" + ";".join(out)


def from_json(o):
    if isinstance(o, dict):
        return ("s", "".join(chr(c) for c in o["s"]))
    if isinstance(o, list):
        return [from_json(x) for x in o]
    return o


def run_model(exe, cases):
    inp = "\n".join(model_line(p, h) for p, h in cases) + "\n"
    rc, out, err = core.sh([exe], inp=inp.encode(), timeout=900)
    if rc != 0:
        raise core.BuildError("objects model driver failed: " + err.decode("utf8", "replace")[-500:])
    res = [json.loads(l) for l in out.decode().splitlines()]
    if len(res) != len(cases):
        raise core.BuildError("objects model driver: %d results for %d histories" % (len(res), len(cases)))
    return res


# --------------------------------------------------------------------------- generators

INTS = [0, 1, 2, 3, 5, 7, 10, -1, -4, 20]
STRS = ["", "a", "b", "ab", "x y", "é", "0", "nil"]


def rand_lit(rng, t):
    t = tt(t)
    if t[0] == "opt":
        return None if rng.random() < 0.35 else rand_lit(rng, t[1])
    if t == INT:
        return rng.choice(INTS)
    if t == STR:
        return ("s", rng.choice(STRS))
    if t == BOOL:
        return rng.random() < 0.5
    raise Invalid()


def gen_program(rng, thin=False):
    if thin:
        return {"classes": [{"fields": [INT], "params": [0], "body": [(0, ("p", 0))]}], "flavour": 0}
    ncls = rng.choice([1, 2, 2, 3, 3])
    classes = []
    for k in range(ncls):
        nf = rng.choice([1, 2, 3, 3, 4])
        fields = []
        for f in range(nf):
            cands = [INT, INT, INT, STR, STR, BOOL, opt(INT), opt(STR), LINT, LINT, opt(cls(k)), opt(cls(k))]
            # (no `[Self...]` field: the type checker does not identify `[Self...]` with `[Ck...]` outside the class,
            #  so such a list cannot flow between the class and the history; lists of EARLIER classes are used instead)
            for j in range(k):
                cands += [cls(j), cls(j), opt(cls(j)), lst(cls(j))]
            fields.append(rng.choice(cands))
        if not any(t in (INT, STR) for t in fields):
            fields[0] = INT
        params, body = [], []
        order = list(range(nf))
        if rng.random() < 0.3:
            rng.shuffle(order)
        for f in order:
            t = fields[f]
            r = rng.random()
            if t[0] == "cls":
                how = "p"
            elif t[0] == "list":
                how = "p" if r < 0.35 else "e"
            elif t[0] == "opt":
                how = "p" if r < 0.4 else "lit" if r < 0.75 else "none"
            else:
                how = "p" if r < 0.65 else "lit"
            if how == "p":
                body.append((f, ("p", len(params))))
                params.append(f)
            elif how == "e":
                body.append((f, ("empty",)))
            elif how == "lit":
                body.append((f, ("lit", None if is_obj(t) else rand_lit(rng, t))))
        # the order of the constructor's arguments is independent of the order of the fields
        if len(params) > 1 and rng.random() < 0.3:
            perm = list(range(len(params)))
            rng.shuffle(perm)
            params = [params[i] for i in perm]
            inv = {old: new for new, old in enumerate(perm)}
            body = [(f, ("p", inv[ini[1]]) if ini[0] == "p" else ini) for f, ini in body]
        classes.append({"fields": fields, "params": params, "body": body})
    prog = {"classes": classes, "flavour": rng.randrange(64)}
    # variables declared outside the classes that methods read / write: a name of their own (g<i>), the name of a
    # constructor parameter (p<j>, or f<i> when parameters are named like fields), of a method parameter (v, d, x,
    # other) or of a field (f<i>: inside the class the bare name is the field, outside it is the variable)
    if rng.random() < 0.4:
        outer, names = [], []
        for _ in range(rng.choice([1, 1, 2])):
            name = rng.choice(["g0", "g1", "p0", "p0", "p1", "f0", "f0", "f1", "v", "d", "d", "x", "other"])
            if name in names:
                continue
            names.append(name)
            t = rng.choice([INT, INT, STR])
            outer.append({"name": name, "type": t, "init": rand_lit(rng, t)})
        prog["outer"] = outer
    return prog


class Gen:
    """grows a history op by op, tracking static types (Typer) and the current values (Oracle)"""

    def __init__(self, rng, prog, thin=False):
        self.rng, self.prog, self.thin = rng, prog, thin
        self.hist = []
        self.ty = Typer(prog)
        self.orc = Oracle(prog)
        self.nvar = 0
        self.failed = False

    def fresh(self):
        self.nvar += 1
        return self.nvar - 1

    def add(self, op):
        ty2 = Typer(self.prog)
        ty2.env = dict(self.ty.env)
        ty2.apply(op)            # raises Invalid before anything is changed
        self.ty = ty2
        self.hist.append(op)
        if not self.failed:
            try:
                self.orc.apply(op)
            except Failure:
                self.failed = True

    def vars_of(self, pred):
        return [v for v, t in self.ty.env.items() if pred(t)]

    def value(self, p):
        """current value of a path (None also when it cannot be evaluated)"""
        if self.failed:
            return None
        try:
            return self.orc.path(p)
        except (Failure, Invalid, KeyError):
            return None

    def paths(self, pred, definite=False, maxdepth=3):
        """paths (variables and field selections, depth <= maxdepth) whose declared type satisfies pred"""
        out = []

        def walk(p, t, d, depth):
            if pred(t) and (d or not definite):
                out.append(p)
            if is_obj(t) and depth < maxdepth:
                d2 = d and t[0] == "cls"
                for f, ft in enumerate(self.prog["classes"][obj_class(t)]["fields"]):
                    walk(p + (f,), tt(ft), d2, depth + 1)

        for v, t in self.ty.env.items():
            walk((v,), t, True, 1)
        return out

    def choose_path(self, pred, definite=False, allow_nil=0.08, deref=False):
        """a path of a fitting type: variables are preferred to selections; paths through nil are rare"""
        rng = self.rng
        ps = self.paths(pred, definite, 3 if rng.random() < 0.15 else 2)
        if not ps:
            return None
        short = [p for p in ps if len(p) == 1]
        for _ in range(6):
            p = rng.choice(short if short and rng.random() < 0.65 else ps)
            # a selection from nil stops the program: keep that rare
            broken = any(self.value(p[:i]) is None for i in range(1, len(p) + (1 if deref else 0)))
            if broken and rng.random() > allow_nil:
                continue
            return p
        return rng.choice(short) if short else None

    def dst(self, t, avoid=()):
        same = [v for v in self.vars_of(lambda x: x == tt(t)) if v not in avoid]
        if same and self.rng.random() < 0.3:
            return self.rng.choice(same)
        return self.fresh()

    def operand(self, t):
        """a random operand usable where static type t is expected (None: there is none)"""
        rng = self.rng
        t = tt(t)
        base = t[1] if t[0] == "opt" else t
        if base[0] in ("cls", "list"):
            p = self.choose_path(lambda x: fits(x, t), definite=True, allow_nil=0.05)
            if t[0] == "opt" and (p is None or rng.random() < 0.25):
                return ("L", None)
            return ("P", p) if p is not None else None
        if rng.random() < 0.25:
            p = self.choose_path(lambda x: fits(x, t), definite=True, allow_nil=0.05)
            if p is not None:
                return ("P", p)
        return ("L", rand_lit(rng, t))

    def receiver(self, pred=lambda k: True, definite=False):
        return self.choose_path(lambda t: is_obj(t) and pred(obj_class(t)) and (t[0] == "cls" or not definite), definite, deref=True)

    def new(self, k=None):
        rng = self.rng
        ncls = len(self.prog["classes"])
        for _ in range(10):
            c = k if k is not None else rng.randrange(ncls)
            cd = self.prog["classes"][c]
            args = [self.operand(cd["fields"][pf]) for pf in cd["params"]]
            if None in args:
                # a list-typed constructor argument needs a list: make one and try again
                made = False
                for a, pf in zip(args, cd["params"]):
                    t = tt(cd["fields"][pf])
                    if a is None and t[0] == "list":
                        self.add(("lnew", self.fresh(), t[1], [o for o in [self.operand(t[1])] if o is not None and rng.random() < 0.5]))
                        made = True
                if made or k is None:
                    continue
                return False
            self.add(("new", self.dst(cls(c)), c, args))
            return True
        return False

    def pick(self):
        rng = self.rng
        P = self.prog
        kinds = ["new"] * 2 + ["bind"] * 4 + ["write"] * 4 + ["opassign"] * 2 + ["print"] * 4 + ["isnil"] + \
                ["call"] * 8 + ["lnew", "lpush", "lpush", "lget", "lget", "llen"] + ["pass"] * 2 + ["retsame"] * 2 + ["is"] * 4 + ["viamap"] * 2
        if self.thin:
            kinds = ["new", "bind", "bind", "call", "call", "call", "is", "is", "print"]
        if P.get("outer"):
            kinds = kinds + ["oprint"] * 3 + ["owrite"] * 2 + ["ocall"] * 6
        k = rng.choice(kinds)
        if k in ("oprint", "owrite"):
            gi = rng.randrange(len(P["outer"]))
            return ("oprint", gi) if k == "oprint" else ("owrite", gi, rand_lit(rng, P["outer"][gi]["type"]))
        want_outer = k == "ocall"
        if want_outer:
            k = "call"
        if k == "new":
            if len(self.vars_of(lambda t: t[0] == "cls")) >= 6:
                return None
            return "done" if self.new() else None
        if k == "bind":
            if self.thin or rng.random() < 0.5:
                # plain aliasing of an object or a list
                vs = self.vars_of(lambda t: is_obj(t) or t[0] == "list")
                if not vs:
                    return None
                s = rng.choice(vs)
                return ("bind", self.dst(self.ty.env[s], (s,)), (s,), False)
            p = self.choose_path(lambda t: True, definite=True)
            if p is None or len(p) < 2:
                return None
            t = self.ty.ptype(p)[0]
            unwrap = t[0] == "opt" and rng.random() < 0.5
            if unwrap and self.value(p) is None and rng.random() < 0.8:
                return None              # unwrap of nil ends the history: keep it rare
            return ("bind", self.dst(t[1] if unwrap else t, (p[0],)), p, unwrap)
        if k == "lnew":
            et = rng.choice([INT] + [cls(j) for j in range(len(P["classes"]))] * 2)
            es = []
            for _ in range(rng.choice([0, 1, 2, 3])):
                o = self.operand(et)
                if o is not None:
                    es.append(o)
            return ("lnew", self.fresh(), et, es)
        if k in ("lpush", "lget", "llen"):
            l = self.choose_path(lambda t: t[0] == "list", definite=(k == "lget"), deref=True)
            if l is None:
                return None
            et = self.ty.ptype(l)[0][1]
            if k == "lpush":
                o = self.operand(et)
                return None if o is None else ("lpush", l, o)
            if k == "llen":
                return ("llen", l)
            cur = self.value(l)
            n = len(cur) if isinstance(cur, list) else 0
            if n == 0 and rng.random() < 0.85:
                return None              # an index out of range ends the history: keep it rare
            i = rng.randrange(n) if n and rng.random() < 0.93 else n
            return ("lget", self.dst(et, (l[0],)), l, i)
        if k == "is":
            a = self.choose_path(is_obj)
            if a is None:
                return None
            ca = obj_class(self.ty.ptype(a)[0])
            # mostly the same class (aliases are what matters), sometimes anything
            b = self.choose_path((lambda t: is_obj(t) and obj_class(t) == ca) if rng.random() < 0.85 else is_obj)
            return None if b is None else ("is", a, b)
        if k == "print":
            p = self.choose_path(printable)
            return None if p is None else ("print", p)
        if k == "isnil":
            p = self.choose_path(lambda t: t[0] == "opt")
            return None if p is None or len(p) < 2 else ("isnil", p)
        if k in ("retsame", "pass", "viamap"):
            p = self.choose_path(lambda t: t[0] == "cls", definite=True, deref=True)
            if p is None:
                return None
            c = self.ty.ptype(p)[0][1]
            if k == "retsame":
                return ("retsame", self.dst(cls(c), (p[0],)), p)
            if k == "viamap":
                return ("viamap", self.dst(opt(cls(c)), (p[0],)), p)
            fs = [f for f, t in enumerate(P["classes"][c]["fields"]) if tt(t) in (INT, STR)]
            if not fs:
                return None
            f = rng.choice(fs)
            return ("pass", p, f, rand_lit(rng, tt(P["classes"][c]["fields"][f])))
        # operations on a receiver
        x = self.receiver()
        if x is None:
            return None
        c = obj_class(self.ty.ptype(x)[0])
        fields = [tt(t) for t in P["classes"][c]["fields"]]
        if k == "write":
            f = rng.randrange(len(fields))
            o = self.operand(fields[f])
            if o == ("L", None) and fields[f] == opt(cls(c)):
                # `x.f = nil` for a `Self?` field is rejected ("cannot assign nil to C") when x was typed by a method
                # returning Self: a type-checker quirk outside this property; nil goes in through set_f instead
                return ("call", "_", x, "set_f%d" % f, [o])
            return None if o is None else ("write", x, f, o)
        if k == "opassign":
            fs = [f for f, t in enumerate(fields) if t in (INT, STR)]
            if not fs:
                return None
            f = rng.choice(fs)
            if fields[f] == INT:
                op = rng.choice(["add", "add", "sub", "mul"])
                return ("opassign", x, f, op, rng.choice([2, 3, -1]) if op == "mul" else rng.choice([1, 2, 5, 10, 100]))
            return ("opassign", x, f, "add", ("s", rng.choice(["x", "", "yz"])))
        if k == "call":
            ms = methods_of(P, c)
            names = sorted(ms)
            if self.thin:
                names = [n for n in names if n.split("_")[0] in ("get", "set", "inc", "me")]
            if want_outer:
                names = [n for n in names if n.split("_")[0] in OUTER_KINDS]
                if not names:
                    return None
            kinds_ = sorted({n.split("_")[0] for n in names})
            kind_ = rng.choice(kinds_)          # uniform over the method kinds the class has, then over its fields
            name = rng.choice([n for n in names if n.split("_")[0] == kind_])
            m, pts, rt = ms[name]
            cur = self.value(x)
            if m[0] in ("poke", "push") and isinstance(cur, Obj) and cur.f.get(m[1]) is None and rng.random() < 0.85:
                return None              # nil field access ends the history: keep it rare
            args = [self.operand(pt) for pt in pts]
            if None in args:
                return None
            t, definite = self.ty.ptype(x)
            can_bind = definite and t[0] == "cls" and rt != opt(cls(c))
            if rt is None:
                mode = "_"
            elif printable(rt):
                mode = "p" if (rng.random() < 0.7 or not can_bind) else self.dst(rt, (x[0],))
            else:
                mode = "_" if (rng.random() < 0.25 or not can_bind) else self.dst(rt, (x[0],))
            return ("call", mode, x, name, args)
        return None

    def step(self):
        for _ in range(40):
            try:
                op = self.pick()
                if op is None:
                    continue
                if op != "done":
                    self.add(op)
                return True
            except Invalid:
                continue
        return False


def random_history(rng, prog, thin=False, maxlen=15):
    g = Gen(rng, prog, thin)
    # some objects to start with, lowest class first (a class-typed constructor argument needs an object)
    for k in range(len(prog["classes"])):
        g.new(k)
        if rng.random() < (0.5 if len(prog["classes"]) < 3 else 0.2):
            g.new(k)
    if not g.hist:
        return []
    total = rng.choice([8, 10, 12, 13, 13]) if not thin else 8
    after_fail = 0
    while len(g.hist) < total:
        if not g.step():
            break
        if g.failed:
            after_fail += 1
            if after_fail >= 2:
                break
    # histories end with a look at the state of the objects (when there is room)
    if not g.failed:
        seen = []
        for v in g.vars_of(lambda t: t[0] == "cls"):
            o = g.value((v,))
            if o is None or any(o is s for s in seen):
                continue
            seen.append(o)
            c = g.ty.env[v][1]
            for f, t in enumerate(prog["classes"][c]["fields"]):
                if len(g.hist) < maxlen and printable(tt(t)):
                    g.add(("print", (v, f)))
    return g.hist[:maxlen]


def fixed_cases():
    """hand-written histories: the aliasing patterns of the property on a small class table"""
    s = lambda x: ("s", x)
    L = lambda v: ("L", v)
    V = lambda *p: ("P", tuple(p))
    p = {"classes": [
        {"fields": [INT, STR, LINT, opt(cls(0))], "params": [0, 1], "body": [(0, ("p", 0)), (1, ("p", 1)), (2, ("empty",)), (3, ("lit", None))]},
        {"fields": [cls(0), opt(cls(0)), lst(cls(0)), INT], "params": [0], "body": [(0, ("p", 0)), (2, ("empty",)), (3, ("lit", 0))]}],
        "flavour": 8}
    return [
        # two constructions are independent; an alias is not
        (p, [("new", 0, 0, [L(1), L(s("a"))]), ("new", 1, 0, [L(1), L(s("a"))]), ("bind", 2, (0,), False), ("call", "_", (2,), "set_f0", [L(10)]),
             ("print", (0, 0)), ("print", (1, 0)), ("is", (0,), (2,)), ("is", (0,), (1,)), ("call", "p", (0,), "twice_f0", [L(2)]), ("print", (2, 0)), ("print", (1, 0))]),
        # passing, returning, storing in a list, storing in a field
        (p, [("new", 0, 0, [L(1), L(s("a"))]), ("pass", (0,), 0, 5), ("print", (0, 0)), ("retsame", 1, (0,)), ("is", (1,), (0,)), ("lnew", 2, cls(0), [V(0)]),
             ("lget", 3, (2,), 0), ("is", (3,), (0,)), ("opassign", (3,), 0, "add", 100), ("print", (0, 0)), ("new", 4, 1, [V(0)]), ("is", (4, 0), (0,)),
             ("call", "_", (4,), "poke_f0_f0", [L(1000)]), ("print", (1, 0)), ("print", (4, 0, 0))]),
        # methods returning Self, a method mutating its argument, a bare field name, list fields, nil field access
        (p, [("new", 0, 0, [L(1), L(s("a"))]), ("new", 1, 0, [L(2), L(s("b"))]), ("call", 2, (0,), "with_f0", [L(7)]), ("is", (2,), (0,)),
             ("call", "_", (0,), "bump_f0", [V(1), L(5)]), ("print", (1, 0)), ("print", (0, 0)), ("call", "_", (1,), "setb_f1", [L(s("z"))]),
             ("call", "p", (1,), "getb_f1", []), ("print", (0, 1)), ("call", "_", (0,), "push_f2", [L(4)]), ("print", (0, 2)), ("print", (1, 2)),
             ("isnil", (0, 3)), ("print", (0, 3, 0))]),
        # optional class fields: set, read through the field, clear; a construction inside a method
        (p, [("new", 0, 0, [L(1), L(s("a"))]), ("new", 1, 0, [L(2), L(s("b"))]), ("write", (0,), 3, V(1)), ("is", (0, 3), (1,)), ("write", (0, 3), 0, L(9)),
             ("print", (1, 0)), ("bind", 2, (0, 3), False), ("is", (2,), (1,)), ("call", 3, (1,), "dup", []), ("is", (3,), (1,)), ("write", (3,), 0, V(0, 0)),
             ("print", (1, 0)), ("write", (0,), 3, L(None)), ("isnil", (0, 3)), ("bind", 4, (0, 3), True)]),
        # an object stored in a map and taken out again (a present optional): the same object
        (p, [("new", 0, 0, [L(1), L(s("a"))]), ("viamap", 1, (0,)), ("is", (1,), (0,)), ("is", (0,), (1,)), ("print", (1, 0)), ("opassign", (1,), 0, "add", 5),
             ("print", (0, 0)), ("call", "p", (1,), "inc_f0", [L(1)]), ("write", (0,), 3, V(1)), ("is", (0, 3), (0,)), ("print", (0, 3, 1)), ("bind", 2, (1,), True),
             ("is", (2,), (0,)), ("viamap", 3, (0,)), ("is", (3,), (1,))]),
    ]


# --------------------------------------------------------------------------- running and comparing

def run_impl(binary, base, text):
    d = programs.materialize({"files": {"x.ms": text}}, base)
    rc, out, err = programs.run_bin(binary, ["run", "x.ms", "-q"], d, timeout=60)
    shutil.rmtree(d, ignore_errors=True)
    return rc, out, err


def out_lines(out):
    ls = out.split("\n")
    if ls and ls[-1] == "":
        ls.pop()
    return ls


def rc_class(rc):
    return {0: "ok", 1: "Err", 101: "Panic"}.get(rc, "rc%d" % rc)


def compiled(rc, out, err):
    return not (rc == 1 and "Did not compile" in err)


def evaluate(binary, base, exe, cases):
    model = run_model(exe, cases)
    jobs = []
    for p, h in cases:
        o_obs, o_failed = oracle(p, h)
        jobs.append((p, h, render_program(p, h), o_obs, o_failed))
    impl = programs.pmap(lambda j: run_impl(binary, base, j[2]), jobs)
    out = []
    for (p, h, text, o_obs, o_failed), (rc, so, se), m in zip(jobs, impl, model):
        r = {"prog": p, "hist": h, "text": text, "rc": rc, "stdout": so, "stderr": se[:500] + " ... " + se[-500:] if len(se) > 1000 else se, "model": m}
        r["compiled"] = compiled(rc, so, se)
        got = out_lines(so)
        r["got"] = got
        r["spec_lines"] = expected_lines(o_obs, o_failed)
        r["spec_failed"] = o_failed
        # the property: the observations are those of one state per object identity; nil access stops the program
        r["spec_ok"] = got == r["spec_lines"] and (rc == 1 if o_failed else rc == 0)
        r["outer"] = has_outer_ops(p, h)
        if "error" in m:
            r["model_ok"] = False
            r["model_undefined"] = True
        elif r["outer"]:
            # the model ran the history up to the first operation that uses an outer variable: its output must be
            # the beginning of what the program printed (all of it when the prefix already stops the program)
            mo = [from_json(x) for x in m["model"]["obs"]]
            mf = m["model"]["fail"]
            so_ = [from_json(x) for x in m["spec"]["obs"]]
            sf_ = m["spec"]["fail"]
            ml = [show(o) for o in mo]
            r["model_lines"] = ml
            if mf is not None:
                r["model_ok"] = got == ml and rc_class(rc) == mf
            else:
                r["model_ok"] = got[:len(ml)] == ml
            r["legacy_ok"] = False
            sl = [show(o) for o in so_]
            r["coqspec_ok"] = r["spec_lines"][:len(sl)] == sl and (sf_ is None or o_failed)
            r["model_undefined"] = mf in ("Stuck", "Range") or sf_ in ("Stuck", "Range")
        else:
            mo = [from_json(x) for x in m["model"]["obs"]]
            mf = m["model"]["fail"]
            r["model_lines"] = expected_lines(mo, mf is not None)
            r["model_ok"] = got == r["model_lines"] and rc_class(rc) == (mf or "ok")
            lo = [from_json(x) for x in m["legacy"]["obs"]]
            lf = m["legacy"]["fail"]
            r["legacy_lines"] = expected_lines(lo, lf is not None)
            r["legacy_ok"] = got == r["legacy_lines"] and rc_class(rc) == (lf or "ok")
            so_ = [from_json(x) for x in m["spec"]["obs"]]
            sf_ = m["spec"]["fail"]
            r["coqspec_ok"] = expected_lines(so_, sf_ is not None) == r["spec_lines"] and (sf_ is not None) == o_failed
            r["model_undefined"] = mf in ("Stuck", "Range") or sf_ in ("Stuck", "Range")
        out.append(r)
    return out


def shrink(binary, base, exe, prog, hist, bad):
    """drop operations while the history still type-checks and still fails the same way"""
    cur = list(hist)
    changed = True
    rounds = 0
    while changed and rounds < 16:
        changed = False
        rounds += 1
        cands = []
        for i in range(len(cur)):
            c = cur[:i] + cur[i + 1:]
            try:
                typecheck(prog, c)
                oracle(prog, c)
                cands.append(c)
            except (Invalid, KeyError, AttributeError, TypeError):
                pass
        if not cands:
            break
        res = evaluate(binary, base, exe, [(prog, c) for c in cands])
        for c, r in zip(cands, res):
            if r["compiled"] and not r.get("model_undefined") and bad(r):
                cur = c
                changed = True
                break
    return cur


def diff_msg(exp, got):
    n = 0
    while n < len(exp) and n < len(got) and exp[n] == got[n]:
        n += 1
    return "stdout line %d: expected %r, got %r" % (n + 1, exp[n:n + 3], got[n:n + 3])


PRINTS = {"print", "isnil", "llen", "is", "oprint"}


def opkind(op):
    if op[0] == "call":
        return "call-" + op[3].split("_")[0]
    if op[0] == "print":
        return "print-field" if len(op[1]) > 1 else "print-var"
    return op[0]


def first_diff_op(r, key="spec_lines"):
    """kind of the operation that produced the first differing stdout line"""
    exp = r.get(key) or []
    got = r.get("got") or []
    n = 0
    while n < len(exp) and n < len(got) and exp[n] == got[n]:
        n += 1
    line = 0
    for op in r["hist"]:
        if op[0] in PRINTS or (op[0] == "call" and op[1] == "p"):
            if line >= n:
                return opkind(op)
            line += 1
    # no printing operation left: the run stopped (or did not stop) somewhere else
    return "exit"


def replay_of(r):
    return {"classes": r["prog"], "history": r["hist"], "program": r["text"],
            "expected_stdout_lines(specification)": r["spec_lines"], "expected_exit": "1 (run-time error)" if r["spec_failed"] else "0",
            "observed_stdout_lines": r["got"], "observed_rc": r["rc"], "observed_stderr_tail": r["stderr"][-400:],
            "model_lines": r.get("model_lines"), "model_input": model_line(r["prog"], r["hist"]),
            "how": "save `program` as x.ms in an empty directory and run `mscript run x.ms -q`; or ./verify replay <this file>"}


# ---- object-valued FIELD reads as receiver / earlier argument, with a later argument that re-points the field: the
# object read first is the one used (identity is fixed when the operand is evaluated).  Python statement of the property.
def repoint_cases(rng, n):
    pre = ("class Node {\n  id: int\n  hits: int\n  constructor(self, id: int) {\n    self.id = id\n    self.hits = 0\n  }\n"
           "  fn touch(self, k: int) -> int {\n    self.hits = self.hits + 1\n    return self.id * 100 + k\n  }\n}\n"
           "class Holder {\n  cur: Node\n  constructor(self, n: Node) {\n    self.cur = n\n  }\n"
           "  fn point_to(self, n: Node) -> int {\n    self.cur = n\n    return 7\n  }\n}\n"
           "same = fn(p: Node, q: int, r: Node) -> int {\n  return p.id * 10 + r.id\n}\n")
    out = []
    for _ in range(n):
        i, j = rng.sample(range(1, 9), 2)
        src = pre + "a = Node(%d)\nc = Node(%d)\nh = Holder(a)\n" % (i, j)
        exp = []
        hits = {"a": 0, "c": 0}
        cur = "a"
        ids = {"a": i, "c": j}
        for _ in range(rng.randint(2, 5)):
            other = "c" if cur == "a" else "a"
            form = rng.choice(["method", "args", "plain", "is"])
            if form == "method":
                # receiver h.cur is read BEFORE the argument re-points it
                src += "print h.cur.touch(h.point_to(%s))\n" % other
                hits[cur] += 1
                exp.append(str(ids[cur] * 100 + 7))
                cur = other
            elif form == "args":
                src += "print same(h.cur, h.point_to(%s), h.cur)\n" % other
                exp.append(str(ids[cur] * 10 + ids[other]))
                cur = other
            elif form == "plain":
                src += "print h.cur.touch(1)\n"
                hits[cur] += 1
                exp.append(str(ids[cur] * 100 + 1))
            else:
                src += "print h.cur is %s\n" % cur
                exp.append("true")
            src += "print a.hits\nprint c.hits\n"
            exp += [str(hits["a"]), str(hits["c"])]
        out.append((src, exp))
    return out


# ---- objects that live in ANOTHER module: an exported instance is one object for the exporting module and for every
# importer, whether it is reached by name (`import shared from lib`), through the module value (`lib.shared`), through an
# exported function that returns it, or as an element of an exported list; its fields and methods are usable through each
# of them and `is` holds between all.  Python statement of the property.
MOD_LIB = ("export class Box {\n\tv: int\n\titems: [int...]\n\tconstructor(self, v: int) {\n\t\tself.v = v\n\t\tself.items = [v]\n\t}\n"
           "\tfn inc(self, d: int) -> int {\n\t\tself.v = self.v + d\n\t\treturn self.v\n\t}\n\tfn me(self) -> Self {\n\t\treturn self\n\t}\n}\n"
           "export shared: Box = Box(100)\nexport boxes: [Box...] = [Box(1), Box(2)]\n"
           "export touch: fn(int) -> int = fn(d: int) -> int {\n\treturn shared.inc(d)\n}\n"
           "export current: fn() -> Box = fn() -> Box {\n\treturn shared\n}\n"
           "export same: fn(Box) -> bool = fn(b: Box) -> bool {\n\treturn b is shared\n}\n"
           "export peek: fn() -> int = fn() -> int {\n\treturn shared.v\n}\n"
           "export first: fn() -> int = fn() -> int {\n\treturn (boxes[0]).v\n}\n")


def module_object_cases(rng, n):
    out = []
    for idx in range(n):
        form = ["names", "whole", "both"][idx % 3]
        if form == "names":
            src = "import Box, shared, boxes, touch, current, same, peek, first from lib\n"
        elif form == "whole":
            src = "import lib\n"
        else:
            src = "import lib\nimport Box, shared, boxes, touch, current, same, peek, first from lib\n"

        def S():
            return {"names": "shared", "whole": "lib.shared", "both": rng.choice(["shared", "lib.shared"])}[form]

        def P():
            return {"names": "", "whole": "lib.", "both": rng.choice(["", "lib."])}[form]
        src += "a = %s\nfresh = %sBox(100)\ne = (%sboxes)[0]\n" % (S(), P(), P())      # (one postfix per atom: `lib.boxes[0]` does not parse)
        if form != "whole":
            src += "bump = fn(b: Box, d: int) -> int {\n\tb.v = b.v + d\n\treturn b.v\n}\n"
        v, items, b0, fr = 100, [100], 1, 100
        exp = []
        for _ in range(rng.randint(6, 14)):
            op = rng.choice(["read", "read-alias", "peek", "current", "write-alias", "write-name", "inc", "touch", "is", "same", "same-fresh", "is-fresh",
                             "push", "items", "elem-write", "elem-read", "elem-is", "pass", "me", "fresh-write"])
            k = rng.randint(1, 9)
            if op == "read":
                src += "print %s.v\n" % S()
                exp.append(str(v))
            elif op == "read-alias":
                src += "print a.v\n"
                exp.append(str(v))
            elif op == "peek":
                src += "print %speek()\n" % P()
                exp.append(str(v))
            elif op == "current":
                src += "c = %scurrent()\nprint c.v\nprint c is a\n" % P()
                exp += [str(v), "true"]
            elif op == "write-alias":
                v = k
                src += "a.v = %d\n" % k
            elif op == "write-name" and form != "whole":
                v = 10 * k
                src += "shared.v = %d\n" % v
            elif op == "inc":
                v += k
                src += "print %s.inc(%d)\n" % (S(), k)
                exp.append(str(v))
            elif op == "touch":
                v += k
                src += "print %stouch(%d)\n" % (P(), k)
                exp.append(str(v))
            elif op == "is":
                src += "print a is %s\n" % S()
                exp.append("true")
            elif op == "same":
                src += "print %ssame(%s)\n" % (P(), rng.choice(["a", S()]))
                exp.append("true")
            elif op == "same-fresh":
                src += "print %ssame(fresh)\n" % P()
                exp.append("false")
            elif op == "is-fresh":
                src += "print fresh is %s\n" % S()
                exp.append("false")
            elif op == "push":
                items.append(k)
                src += "%s.items.push(%d)\n" % (rng.choice(["a", S()]), k)
            elif op == "items":
                src += "print %s.items\n" % rng.choice(["a", S()])
                exp.append("[" + ", ".join(map(str, items)) + "]")
            elif op == "elem-write":
                b0 = 20 + k
                src += "e.v = %d\n" % b0
            elif op == "elem-read":
                src += "print ((%sboxes)[0]).v\nprint %sfirst()\n" % (P(), P())
                exp += [str(b0), str(b0)]
            elif op == "elem-is":
                src += "g = (%sboxes)[0]\nprint g is e\nprint g is a\n" % P()
                exp += ["true", "false"]
            elif op == "pass" and form != "whole":
                v += k
                src += "print bump(%s, %d)\n" % (rng.choice(["a", "shared"]), k)
                exp.append(str(v))
            elif op == "me":
                src += "m = %s.me()\nprint m is a\n" % S()
                exp.append("true")
            elif op == "fresh-write":
                fr += k
                src += "fresh.v = fresh.v + %d\nprint fresh.v\nprint a.v\n" % k
                exp += [str(fr), str(v)]
        out.append((form, src, exp))
    return out


def run(ctx):
    ok = core.coq_props(ctx, "Props/C08.v")
    binary = core.build_repo()
    exe = extract.build("objects", "ObjectsExtract.v", "objects_driver.ml")
    base = ctx.mktemp()
    rng = ctx.rng
    thin = os.environ.get("C08_THIN") == "1"          # development aid: one class, one int field

    cases = [] if thin else fixed_cases()
    n_fixed = len(cases)
    n_prog = 300 if ctx.quick() else 1500
    per_prog = 8 if ctx.quick() else 20
    if os.environ.get("C08_PROGRAMS"):
        n_prog = int(os.environ["C08_PROGRAMS"])
    shapes = {}
    for _ in range(n_prog):
        p = gen_program(rng, thin)
        for t in (tt(t) for c in p["classes"] for t in c["fields"]):
            key = t[0] if t[0] != "opt" else "opt-" + t[1][0]
            if t[0] == "list":
                key = "list-" + t[1][0]
            shapes[key] = shapes.get(key, 0) + 1
        made = tries = 0
        while made < per_prog and tries < 4 * per_prog:
            tries += 1
            try:
                h = random_history(rng, p, thin)
                typecheck(p, h)
                oracle(p, h)
            except Invalid:
                continue
            if len(h) >= 3:
                cases.append((p, h))
                made += 1
    res = evaluate(binary, base, exe, cases)

    n_eval = n_cmp = n_fail_hist = dis = spec_fail = not_compiled = undefined = 0
    distinct = set()
    opcount = {}
    spec_found = False
    reported = 0
    seen_prefix = set()
    for r in res:
        n_eval += 1
        for op in r["hist"]:
            opcount[opkind(op)] = opcount.get(opkind(op), 0) + 1
        if not r["compiled"] and any(d for _, d in outer_hidden_by_param(r["prog"])):
            # tree before fixes/c08-params-not-in-class-type-scope.diff: inside a method the outer variable is given the
            # TYPE of the same-named parameter of the constructor / of another method: a valid program is rejected
            spec_fail += 1
            spec_found = True
            if "B" not in seen_prefix:
                seen_prefix.add("B")
                ctx.report("outer-variable-hidden-by-param:typed-as-param",
                           "a method reads an outer variable whose name is also a parameter (of another type) of the constructor / of another method and the checker types it as that parameter: %s"
                           % " ".join(r["got"])[:400], replay_of(r))
            continue
        if not r["compiled"]:
            not_compiled += 1
            if not_compiled <= 3:
                ctx.report("generator:program-rejected", "a generated class program was rejected by the compiler (generator/type tracker out of date?): %s" % " ".join(r["got"])[:600],
                           {"program": r["text"], "stdout": r["stdout"][:1500], "stderr": r["stderr"]}, found_input=False)
            continue
        if r.get("model_undefined"):
            undefined += 1
            if undefined <= 3:
                ctx.report("generator:outside-model", "a generated history is outside the model's domain (Stuck/Range): %s" % json.dumps(r["model"])[:300],
                           {"history": r["hist"], "classes": r["prog"], "model": r["model"], "model_input": model_line(r["prog"], r["hist"])}, found_input=False)
            continue
        n_cmp += 1
        if r["spec_failed"]:
            n_fail_hist += 1
        distinct.add(model_line(r["prog"], r["hist"]))
        if not r["coqspec_ok"]:
            ctx.report("spec-vs-oracle", "Coq specification (Objects/Spec.v) and the check's executable reading of the property disagree on %s" % model_line(r["prog"], r["hist"]),
                       {"history": r["hist"], "classes": r["prog"], "coq_spec": r["model"]["spec"], "oracle_lines": r["spec_lines"]}, found_input=False)
        pre_fix = None
        if (not r["spec_ok"] or not r["model_ok"]) and r.get("legacy_ok"):
            # behaviour of the tree before fixes/c08-*.diff: a reference that went through a map is a present optional
            # that `is` / lookup did not look into; named by the operation at which pre-fix and repaired model part
            pre_fix = "wrapped-reference-is-false" if first_diff_op(r, "model_lines") == "is" else "wrapped-reference-lookup-fails"
        if not r["spec_ok"] and pre_fix:
            spec_fail += 1
            spec_found = True
            if pre_fix not in seen_prefix:
                seen_prefix.add(pre_fix)
                small = shrink(binary, base, exe, r["prog"], r["hist"], lambda x: not x["spec_ok"] and x.get("legacy_ok"))
                rr = evaluate(binary, base, exe, [(r["prog"], small)])[0]
                if rr["spec_ok"] or not rr["compiled"] or not rr.get("legacy_ok"):
                    rr = r
                pre2 = "wrapped-reference-is-false" if first_diff_op(rr, "model_lines") == "is" else "wrapped-reference-lookup-fails"
                ctx.report(pre2, "an object stored in a map and taken out again (map.replace returns Optional(Some(object))) is not treated as that object: %s; expected exit %s, got rc %d"
                           % (diff_msg(rr["spec_lines"], rr["got"]), "1" if rr["spec_failed"] else "0", rr["rc"]), replay_of(rr))
            continue
        if not r["spec_ok"] and r["rc"] == 1 and "is not in scope" in r["stderr"] and outer_hidden_by_param(r["prog"]):
            # tree before fixes/c08-ctor-params-not-class-scope.diff: the class body counted the parameters of its constructor
            # and methods as its own names, so a method's use of an outer variable of that name was not captured
            spec_fail += 1
            spec_found = True
            if "A" not in seen_prefix:
                seen_prefix.add("A")
                bad = lambda x: not x["spec_ok"] and x["rc"] == 1 and "is not in scope" in x["stderr"]
                small = shrink(binary, base, exe, r["prog"], r["hist"], bad)
                rr = evaluate(binary, base, exe, [(r["prog"], small)])[0]
                if not bad(rr) or not rr["compiled"]:
                    rr = r
                ctx.report("outer-variable-hidden-by-param:not-in-scope",
                           "a method reads an outer variable whose name is also a parameter of the constructor / of a method: the class body does not capture it (%s): %s; expected exit %s, got rc %d"
                           % (", ".join(n for n, _ in outer_hidden_by_param(rr["prog"])), diff_msg(rr["spec_lines"], rr["got"]), "1" if rr["spec_failed"] else "0", rr["rc"]), replay_of(rr))
            continue
        if not r["spec_ok"]:
            spec_fail += 1
            if reported < 6:
                small = shrink(binary, base, exe, r["prog"], r["hist"], lambda x: not x["spec_ok"])
                rr = evaluate(binary, base, exe, [(r["prog"], small)])[0]
                if rr["spec_ok"] or not rr["compiled"]:
                    rr = r
                reported += 1
                spec_found = True
                ctx.report("observation-differs:" + first_diff_op(rr),
                           "object history observed differently from the one-state-per-identity reading: %s; expected exit %s, got rc %d"
                           % (diff_msg(rr["spec_lines"], rr["got"]), "1" if rr["spec_failed"] else "0", rr["rc"]), replay_of(rr))
        if not r["model_ok"]:
            dis += 1
            if r["spec_ok"]:
                ctx.report("correspondence:" + first_diff_op(r, "model_lines"),
                           "object model and implementation disagree: %s; model exit %s, implementation rc %d"
                           % (diff_msg(r.get("model_lines", []), r["got"]), r["model"]["model"]["fail"] or "ok", r["rc"]),
                           dict(replay_of(r), correspondence="Objects/Model.v step vs make_object / lookup / ptr_mut / call / bin_op is", model=r["model"]["model"]),
                           found_input=False)
    nontrivial = 0
    for r in res:
        h = r["hist"]
        kinds = {op[0] for op in h}
        if r["compiled"] and len(h) >= 6 and sum(1 for op in h if op[0] == "new") >= 2 and kinds & {"bind", "retsame", "lget", "pass", "lpush"}:
            nontrivial += 1
    rbase = ctx.mktemp()
    rcs = repoint_cases(ctx.rng, 40 if ctx.quick() else 400)

    def one_rp(c):
        d = programs.materialize({"files": {"main.ms": c[0]}}, rbase)
        r = programs.run_bin(binary, ["run", "main.ms", "-q"], d)
        shutil.rmtree(d, ignore_errors=True)
        return r
    for (src, exp), (rc, out, err) in zip(rcs, programs.pmap(one_rp, rcs)):
        got = out.split("\n")[:-1]
        if rc != 0 or got != exp:
            ctx.report("identity:operand-object-changed-by-later-argument", "an object read from a field as receiver / argument is not the object used once a later argument re-pointed the field: printed %r (exit %d), expected %r" % (got[-6:], rc, exp[-6:]),
                       {"program": src, "expected": exp, "observed": got, "rc": rc, "stderr": err[-300:], "how": "mscript run main.ms -q"})
    n_eval += len(rcs)
    ctx.cov["repoint_cases"] = len(rcs)
    mcs = module_object_cases(ctx.rng, 45 if ctx.quick() else 450)

    def one_mod(c):
        d = programs.materialize({"files": {"main.ms": c[1], "lib.ms": MOD_LIB}}, rbase)
        r = programs.run_bin(binary, ["run", "main.ms", "-q"], d)
        shutil.rmtree(d, ignore_errors=True)
        return r
    for (form, src, exp), (rc, out, err) in zip(mcs, programs.pmap(one_mod, mcs)):
        got = out.split("\n")[:-1]
        if rc != 0 or got != exp:
            spec_found = True
            why = [l.strip() for l in out.splitlines() if l.strip().startswith("=")]
            ctx.report("object-of-another-module", "an instance exported by a module (import form: %s) is not one shared object with usable fields and methods: exit %d, printed %r %s, expected %r"
                       % (form, rc, got[-5:], why[:1], exp[-5:]),
                       {"files": {"main.ms": src, "lib.ms": MOD_LIB}, "expected": exp, "observed": got, "rc": rc, "stderr": err[-400:], "how": "mscript run main.ms -q"})
    n_eval += len(mcs)
    ctx.cov["objects_of_another_module_cases"] = len(mcs)
    # second hunting round (vlib/c08_extra.py): member order, objects as map keys, `is` on lists, index_of on lists of objects
    xcs = c08_extra.cases(ctx.rng, ctx.quick())

    def one_x(c):
        d = programs.materialize({"files": {"main.ms": c["src"]}}, rbase)
        r = programs.run_bin(binary, ["run", "main.ms", "-q"], d)
        shutil.rmtree(d, ignore_errors=True)
        return r
    x_seen = set()
    x_fam = {}
    for c, (rc, out, err) in zip(xcs, programs.pmap(one_x, xcs)):
        got = out.split("\n")[:-1]
        x_fam[c["family"]] = x_fam.get(c["family"], 0) + 1
        if rc != 0 or got != c["exp"]:
            spec_found = True
            spec_fail += 1
            if c["class"] in x_seen:
                continue
            x_seen.add(c["class"])
            ctx.report(c["class"], "%s (%s): exit %d, printed %r, expected exit 0 and %r %s"
                       % (c["family"], c["what"], rc, got[-8:], c["exp"][-8:], [l.strip() for l in err.splitlines() if l.strip()][-1:]),
                       {"program": c["src"], "expected": c["exp"], "observed": got, "rc": rc, "stderr": err[-400:], "family": c["family"], "how": "mscript run main.ms -q"})
    n_eval += len(xcs)
    ctx.cov["second_round_catalogue_cases"] = dict(sorted(x_fam.items()))
    ctx.cov["evaluations"] = n_eval
    ctx.cov["traces_validated_against_impl"] = n_cmp
    ctx.cov["distinct_nontrivial"] = nontrivial
    ctx.cov["distinct_histories"] = len(distinct)
    ctx.cov["histories_ending_in_failure"] = n_fail_hist
    ctx.cov["rule"] = ("cases = hand-written aliasing histories + random (class table, history) pairs: <= 3 classes, 1-4 fields each of type int / str / bool / int? / str? / "
                       "[int...] / earlier class / optional class (incl. Self) / list of objects, constructor arguments in any order, literals, [] or nothing (nil); "
                       "histories <= 15 operations (paths x.f.g as receivers and operands, map round trip thru_C); non-trivial = compiled history of >= 6 operations with >= 2 constructions and an aliasing step "
                       "(assignment, return value, list element, field content, argument); plus vlib/c08_extra.py: class members in every order, "
                       "objects as map keys across field updates, `is` between list values, index_of on lists of objects (expected output written from the property)")
    ctx.cov["exhaustive"] = False
    ctx.cov["fixed_histories"] = n_fixed
    ctx.cov["programs"] = n_prog
    ctx.cov["histories_per_program"] = per_prog
    ctx.cov["field_type_distribution"] = dict(sorted(shapes.items()))
    ctx.cov["operation_distribution"] = dict(sorted(opcount.items()))
    ctx.cov["histories_using_outer_variables(oracle only after the first such operation)"] = sum(1 for r in res if r.get("outer"))
    ctx.cov["cases_with_outer_variable_named_like_a_parameter"] = sum(1 for r in res if outer_hidden_by_param(r["prog"]))
    ctx.cov["model_impl_disagreements"] = dis
    ctx.cov["spec_failures"] = spec_fail
    ctx.cov["programs_rejected_by_compiler"] = not_compiled
    ctx.cov["histories_outside_model"] = undefined
    for r in res[:1] + res[n_fixed:n_fixed + 3]:
        ctx.sample({"model_input": model_line(r["prog"], r["hist"]), "program": r["text"][-900:], "stdout": r["got"][-8:], "rc": r["rc"]})
    ctx.cov["trusted_base"] = ["Coq 8.16.1 kernel (coqc; vm_compute in Examples and witness lemmas)",
                               "extraction: ExtrOcamlBasic only; extract/objects_driver.ml glue (parsing, JSON printing)",
                               "vlib/c08.py: class-table and history generators, renderer of histories as .ms programs, executable reading of the property (Python objects)",
                               "methods come from a fixed family per field (get/set/inc/twice/with/me/bump/getb/setb/push/poke); objects are never printed (addresses vary)"]
    ctx.assumptions = ["Objects/Model.v is hand-written; tied to the class-body function / make_object / lookup / ptr_mut / bin_op_assign / call / ld_self / `is` by this run's differential comparison of stdout and exit class",
                       "the compiler's class machinery (class body as a function, method naming, type checking) is covered by the correspondence only",
                       "gc crate (sharing, collection) is modelled as an immutable heap map"]
    core.proof_or_search(ctx, ok, ["C08_objects_refine"], spec_found)


if __name__ == "__main__":
    import random
    rng = random.Random(int(sys.argv[1]) if len(sys.argv) > 1 else 1)
    for _ in range(int(sys.argv[2]) if len(sys.argv) > 2 else 2):
        p = gen_program(rng)
        h = random_history(rng, p)
        o, f = oracle(p, h)
        print(model_line(p, h))
        print(render_program(p, h))
        print(expected_lines(o, f))
