"""C13: lists and maps are shared by reference and their operations match their model.

Coq: Containers/{Model,Spec,Proofs}.v (Props/C13.v).  Correspondence: operation histories are rendered
both as an .ms program (run by the real binary) and as input of the extracted model; stdout and exit
class are compared line by line.  Independently the binary is compared with an executable reading of
the property (oracle below: Python lists / dicts, identities = Python objects)."""
import json
import os
import shutil
import sys

from . import core, programs, extract

INT, STR = ("int",), ("str",)


def opt(t):
    return ("opt", t)


def lst(t):
    return ("list", t)


def mp(k, v):
    return ("map", k, v)


def tstr(t):
    if t[0] in ("int", "str"):
        return t[0]
    if t[0] == "opt":
        return tstr(t[1]) + "?"
    if t[0] == "list":
        return "[%s...]" % tstr(t[1])
    return "map[%s, %s]" % (tstr(t[1]), tstr(t[2]))


def mangle(t):
    if t[0] in ("int", "str"):
        return t[0]
    if t[0] == "opt":
        return "o" + mangle(t[1])
    if t[0] == "list":
        return "l" + mangle(t[1])
    return "m" + mangle(t[1]) + mangle(t[2])


def lit(v):
    """mscript literal of a scalar / rendered value (int, ('s', text), None, list)"""
    if v is None:
        return "nil"
    if isinstance(v, bool):
        return "true" if v else "false"
    if isinstance(v, int):
        return str(v)
    if isinstance(v, tuple):
        return '"%s"' % v[1]
    return "[" + ", ".join(lit(x) for x in v) + "]"


def show(o, depth=0):
    """Display of a rendered value as `print` shows it"""
    if o is None:
        return "nil"
    if isinstance(o, bool):
        return "true" if o else "false"
    if isinstance(o, int):
        return str(o)
    if isinstance(o, tuple):
        return o[1] if depth == 0 else '"%s"' % o[1]
    return "[" + ", ".join(show(x, depth + 1) for x in o) + "]"


class Invalid(Exception):
    pass


# --------------------------------------------------------------------------- static types of a history

def lit_fits(v, t):
    if t[0] == "opt":
        return v is None or lit_fits(v, t[1])
    if t == INT:
        return isinstance(v, int)
    if t == STR:
        return isinstance(v, tuple)
    return False


def operand_type_ok(env, o, t):
    """is operand o usable where a value of type t is expected"""
    if o[0] == "L":
        return lit_fits(o[1], t)
    if o[0] == "V":
        return env.get(o[1]) == t
    if o[0] in ("E", "C"):
        vt = env.get(o[1])
        return vt is not None and vt[0] == "list" and vt[1] == t
    return False


def fn_type(f, t):
    """result element type of callback f on element type t (None: does not type-check)"""
    k = f[0]
    if k in ("add", "mul"):
        return INT if t == INT else None
    if k == "suf":
        return STR if t in (INT, STR) else None
    if k == "len":
        return INT if t[0] == "list" else None


def pred_ok(p, t):
    k = p[0]
    if k == "gt":
        return t == INT
    if k == "ne":
        return t[0] != "list" and lit_fits(p[1], t if t[0] == "opt" else t)
    if k == "lengt":
        return t[0] == "list"
    return True


def typecheck(hist):
    """variable types after the history; raises Invalid when the rendered program would not compile"""
    env = {}

    def need(c):
        if not c:
            raise Invalid()

    def bind(dst, t, fresh=False):
        if dst in env:
            need(not fresh and env[dst] == t)
        env[dst] = t

    def vec(v):
        need(v in env and env[v][0] == "list")
        return env[v][1]

    def mapt(v):
        need(v in env and env[v][0] == "map")
        return env[v]

    for op in hist:
        k = op[0]
        if k == "newvec":
            _, dst, t, es = op
            need(dst not in env and t[0] == "list")
            need(all(operand_type_ok(env, e, t[1]) for e in es))
            env[dst] = t
        elif k == "alias":
            need(op[2] in env and op[1] != op[2])
            bind(op[1], env[op[2]])
        elif k == "push":
            need(operand_type_ok(env, op[2], vec(op[1])))
        elif k == "remove" or k == "iread":
            vec(op[1])
        elif k == "iwrite":
            need(operand_type_ok(env, op[3], vec(op[1])))
        elif k == "opassign":
            t = vec(op[1])
            base = t[1] if t[0] == "opt" else t
            x = op[4]
            if base == INT:
                need(isinstance(x, int))
            elif base == STR:
                need(op[3] == "add" and (isinstance(x, int) or isinstance(x, tuple)))
            else:
                need(False)
        elif k in ("reverse", "clear", "len", "print"):
            vec(op[1])
        elif k == "join":
            need(op[2] in env and env[op[2]][0] == "list" and env.get(op[3]) == env[op[2]])
            bind(op[1], env[op[2]])
        elif k == "clone":
            vec(op[2])
            need(op[1] != op[2])
            bind(op[1], env[op[2]])
        elif k == "mapf":
            rt = fn_type(op[3], vec(op[2]))
            need(rt is not None and op[1] != op[2])
            bind(op[1], lst(rt))
        elif k == "mapelem":
            vec(op[2])
            need(op[1] != op[2] and op[1] != op[3])
            bind(op[1], lst(vec(op[3])))
        elif k == "mapkey":
            vec(op[2])
            t = mapt(op[3])
            need(op[1] != op[2] and lit_fits(op[4], t[1]))
            bind(op[1], lst(t[2]))
        elif k == "filterf":
            need(pred_ok(op[3], vec(op[2])) and op[1] != op[2])
            bind(op[1], env[op[2]])
        elif k == "indexof":
            need(operand_type_ok(env, op[2], vec(op[1])))
        elif k == "eq":
            vec(op[1])
            need(env.get(op[2]) == env[op[1]])
        elif k == "concat":
            need(vec(op[1]) in (INT, STR))
        elif k == "maplit":
            _, dst, t, kvs = op
            need(dst not in env and t[0] == "map")
            for kk, e in kvs:
                need(lit_fits(kk, t[1]) and operand_type_ok(env, e, t[2]))
                # a literal of an optional-valued map takes `nil` and present values alike (as `m[k] = v`, `replace` and a
                # list literal of the same element type do): the values are literals here
                need(t[2][0] != "opt" or e[0] == "L")
            env[dst] = t
        elif k in ("mget", "mremove", "haskey"):
            need(lit_fits(op[2], mapt(op[1])[1]))
        elif k in ("mset", "replace"):
            t = mapt(op[1])
            need(lit_fits(op[2], t[1]) and operand_type_ok(env, op[3], t[2]))
        elif k == "mopassign":
            t = mapt(op[1])
            need(lit_fits(op[2], t[1]))
            base = t[2][1] if t[2][0] == "opt" else t[2]
            x = op[4]
            if base == INT:
                need(isinstance(x, int))
            elif base == STR:
                need(op[3] == "add" and (isinstance(x, int) or isinstance(x, tuple)))
            else:
                need(False)
        elif k in ("mlen", "keys", "values", "pairs", "mclear"):
            mapt(op[1])
        elif k == "mclone":
            mapt(op[2])
            need(op[1] != op[2])
            bind(op[1], env[op[2]])
        else:
            raise Invalid()
    return env


# --------------------------------------------------------------------------- the property, executable
# identities are Python objects; a list is a Python list, a map a Python dict (its order is not observed)

class Vec(list):
    __hash__ = object.__hash__


class Map(dict):
    __hash__ = object.__hash__


class Failure(Exception):
    pass


def o_render(v):
    if isinstance(v, Vec):
        return [o_render(x) for x in v]
    if isinstance(v, Map):
        raise Invalid()
    return v


def o_eq(a, b):
    return o_render(a) == o_render(b)


def o_binop(op, cur, x):
    if cur is None and isinstance(x, tuple) and op == "add":
        return ("s", "nil" + x[1])          # <any + str> is the concatenation of what print shows
    if cur is None or x is None:
        raise Failure()
    if isinstance(cur, int) and isinstance(x, int):
        r = cur + x if op == "add" else cur - x if op == "sub" else cur * x
        if not -2 ** 31 <= r < 2 ** 31:
            raise Invalid()
        return r
    if op != "add":
        raise Invalid()
    sc = cur[1] if isinstance(cur, tuple) else str(cur)
    sx = x[1] if isinstance(x, tuple) else str(x)
    return ("s", sc + sx)


def o_fn(f, x):
    k = f[0]
    if k == "add":
        r = x + f[1]
    elif k == "mul":
        r = x * f[1]
    elif k == "suf":
        return ("s", (x[1] if isinstance(x, tuple) else str(x)) + f[1][1])
    else:
        return len(x)
    if not -2 ** 31 <= r < 2 ** 31:
        raise Invalid()
    return r


def o_pred(p, x):
    k = p[0]
    if k == "gt":
        return x > p[1]
    if k == "ne":
        return x != p[1]
    if k == "lengt":
        return len(x) > p[1]
    return k == "true"


def oracle(hist):
    """-> (observations, failed).  observation: ('v', rendered) | ('b', bool) | ('g', [rendered])"""
    obs, failed, _ = oracle_full(hist)
    return obs, failed


def oracle_full(hist):
    env = {}
    obs = []

    def operand(o):
        if o[0] == "L":
            return o[1]
        if o[0] == "V":
            return env[o[1]]
        xs = env[o[1]]
        return at(xs, o[2])

    def at(xs, i):
        if not 0 <= i < len(xs):
            raise Failure()
        return xs[i]

    try:
        for op in hist:
            k = op[0]
            if k == "newvec":
                env[op[1]] = Vec(operand(e) for e in op[3])
            elif k == "alias":
                env[op[1]] = env[op[2]]
            elif k == "push":
                env[op[1]].append(operand(op[2]))
            elif k == "remove":
                xs = env[op[1]]
                x = at(xs, op[2])
                obs.append(("v", o_render(x)))
                del xs[op[2]]
            elif k == "iread":
                obs.append(("v", o_render(at(env[op[1]], op[2]))))
            elif k == "iwrite":
                y = operand(op[3])
                at(env[op[1]], op[2])
                env[op[1]][op[2]] = y
            elif k == "opassign":
                xs = env[op[1]]
                xs[op[2]] = o_binop(op[3], at(xs, op[2]), op[4])
            elif k == "reverse":
                env[op[1]].reverse()
            elif k == "join":
                a, b = env[op[2]], env[op[3]]
                a.extend(list(b))
                env[op[1]] = a
            elif k == "clear":
                del env[op[1]][:]
            elif k == "clone":
                env[op[1]] = Vec(env[op[2]])
            elif k == "mapf":
                env[op[1]] = Vec(o_fn(op[3], x) for x in env[op[2]])
            elif k == "mapelem":
                # every element replaced by the value w[i] has now (the callback is not entered for an empty list)
                env[op[1]] = Vec(at(env[op[3]], op[4]) for _ in env[op[2]])
            elif k == "mapkey":
                env[op[1]] = Vec(env[op[3]].get(op[4]) for _ in env[op[2]])
            elif k == "filterf":
                env[op[1]] = Vec(x for x in env[op[2]] if o_pred(op[3], x))
            elif k == "indexof":
                xs, y = env[op[1]], operand(op[2])
                r = None
                for i, x in enumerate(xs):
                    if o_eq(x, y):
                        r = i
                        break
                obs.append(("v", r))
            elif k == "len":
                obs.append(("v", len(env[op[1]])))
            elif k == "eq":
                obs.append(("b", o_eq(env[op[1]], env[op[2]])))
            elif k == "print":
                obs.append(("v", o_render(env[op[1]])))
            elif k == "concat":
                xs = env[op[1]]
                x = at(xs, op[2])
                y = at(xs, op[3])
                sx = x[1] if isinstance(x, tuple) else str(x)
                sy = y[1] if isinstance(y, tuple) else str(y)
                obs.append(("v", ("s", sx + sy)))
            elif k == "maplit":
                m = Map()
                for kk, e in op[3]:
                    m[kk] = operand(e)
                env[op[1]] = m
            elif k == "mget":
                obs.append(("v", o_render(env[op[1]].get(op[2]))))
            elif k == "mset":
                y = operand(op[3])
                env[op[1]][op[2]] = y
            elif k == "mopassign":
                m = env[op[1]]
                m[op[2]] = o_binop(op[3], m.get(op[2]), op[4])
            elif k == "replace":
                m = env[op[1]]
                y = operand(op[3])
                obs.append(("v", o_render(m.get(op[2]))))
                m[op[2]] = y
            elif k == "mremove":
                obs.append(("v", o_render(env[op[1]].pop(op[2], None))))
            elif k == "haskey":
                obs.append(("b", op[2] in env[op[1]]))
            elif k == "mlen":
                obs.append(("v", len(env[op[1]])))
            elif k == "keys":
                obs.append(("g", [kk for kk in env[op[1]]]))
            elif k == "values":
                obs.append(("g", [o_render(v) for v in env[op[1]].values()]))
            elif k == "pairs":
                obs.append(("g", [[kk, o_render(v)] for kk, v in env[op[1]].items()]))
            elif k == "mclear":
                env[op[1]].clear()
            elif k == "mclone":
                env[op[1]] = Map(env[op[2]])
            else:
                raise Invalid()
    except Failure:
        return obs, True, None
    return obs, False, env


# --------------------------------------------------------------------------- rendering: program text

def operand_src(o, neg, call=None):
    if o[0] == "L":
        return lit(o[1])
    if o[0] == "V":
        return "v%d" % o[1]
    if o[0] == "C":
        return call(o)
    return "v%d[%s]" % (o[1], neg(o[2]))


def elem_body(w, i, tmpname):
    """body of a function returning v<w>[i] (a negative index has to go through a variable)"""
    if i < 0:
        return "\t%s = %d\n\treturn v%d[%s]" % (tmpname, i, w, tmpname)
    return "\treturn v%d[%d]" % (w, i)


def canon_key(o):
    return json.dumps(o, sort_keys=True)


def bag_universe(hist, types_at, pos, bag, kind):
    """the values whose multiplicity the program prints for the bag observed at history position pos"""
    t = types_at
    uni = {}
    for o in bag:
        uni.setdefault(canon_key(o), o)
    mt = t
    for op in hist:
        # literals of fitting type mentioned anywhere in the history
        if kind == "keys":
            cands = [op[2]] if op[0] in ("mget", "mset", "mopassign", "replace", "mremove", "haskey") else \
                    [kk for kk, _ in op[3]] if op[0] == "maplit" else []
            for c in cands:
                if lit_fits(c, mt[1]):
                    uni.setdefault(canon_key(c), c)
        elif kind == "values":
            cands = []
            if op[0] in ("mset", "replace") and op[3][0] == "L":
                cands = [op[3][1]]
            elif op[0] == "maplit":
                cands = [e[1] for _, e in op[3] if e[0] == "L"]
            for c in cands:
                if lit_fits(c, mt[2]):
                    uni.setdefault(canon_key(c), c)
    return [uni[k] for k in sorted(uni)][:10]


def cnt_helper(t):
    """fn cnt_<T>(l: [T...], x: T) -> int : number of elements of l equal to x"""
    return ("cnt_%s = fn(l: %s, x: %s) -> int {\n\tc = 0\n\tfrom 0 to l.len(), i {\n\t\tif l[i] == x {\n\t\t\tc += 1\n\t\t}\n\t}\n\treturn c\n}\n"
            % (mangle(t), tstr(lst(t)), tstr(t)))


def cntp_helper(kt, vt):
    return ("cntp_%s_%s = fn(l: [[%s, %s]...], k: %s, v: %s) -> int {\n\tc = 0\n\tfrom 0 to l.len(), i {\n\t\tif l[i] == [k, v] {\n\t\t\tc += 1\n\t\t}\n\t}\n\treturn c\n}\n"
            % (mangle(kt), mangle(vt), tstr(kt), tstr(vt), tstr(kt), tstr(vt)))


def fn_src(f, t):
    k = f[0]
    if k == "add":
        return "fn(x: int) -> int { return x + %d }" % f[1]
    if k == "mul":
        return "fn(x: int) -> int { return x * %d }" % f[1]
    if k == "suf":
        return "fn(x: %s) -> str { return x + %s }" % (tstr(t), lit(f[1]))
    return "fn(x: %s) -> int { return x.len() }" % tstr(t)


def pred_src(p, t):
    k = p[0]
    body = {"gt": lambda: "x > %d" % p[1], "ne": lambda: "x != %s" % lit(p[1]), "lengt": lambda: "x.len() > %d" % p[1],
            "true": lambda: "true", "false": lambda: "false"}[k]()
    return "fn(x: %s) -> bool { return %s }" % (tstr(t), body)


OBSERVING = {"remove", "iread", "indexof", "len", "eq", "print", "concat", "mget", "replace", "mremove", "haskey", "mlen", "keys", "values", "pairs"}


class Probes(list):
    """the `universes` list of render_program, carrying additionally .probes = {index of an observation: (value the
    specification predicts, value type)} for the results of map `replace` / `remove` that the program uses again"""
    def __init__(self, *a):
        list.__init__(self, *a)
        self.probes = {}


def probe_src(lines, n, call_src, r, vt):
    """the value returned by m.replace(..) / m.remove(..) is kept and used like any other optional: stored in a list
    that is compared with a list holding the predicted value r, compared itself, unwrapped and used"""
    lines.append("t%s = %s" % (n, call_src))
    lines.append("print t%s" % n)
    lines.append("p%s: [%s?...] = [t%s]" % (n, tstr(vt), n))
    lines.append("q%s: [%s?...] = [%s]" % (n, tstr(vt), lit(r)))
    lines.append("print p%s == q%s" % (n, n))
    lines.append("print p%s" % n)
    lines.append("print t%s == %s" % (n, lit(r)))
    if r is not None:
        lines.append("print (get t%s) + %s" % (n, "1" if vt == INT else '"!"'))


class Truncated(Exception):
    pass


def probe_expected(value, r, vt):
    """stdout lines of probe_src when the call returns `value` (the text was written for the predicted value r)"""
    same = "true" if value == r else "false"
    out = [show(value), same, show([value]), same]
    if r is not None:
        if value is None:
            raise Truncated(out)            # `get nil` stops the program
        out.append(str(value + 1) if vt == INT else value[1] + "!")
    return out


def render_program(hist, oracle_obs, flavour=0):
    """-> (program text, universes): universes[i] = values counted for the i-th executed bag observation.
    flavour bit 0: non-negative indices through a variable instead of a literal
    flavour bit 1: the result of map `replace` / `remove` (int or str values) is kept in a variable and used again"""
    env = {}
    lines = []
    n_obs = 0
    helpers = {}
    universes = Probes()
    tmp = [0]
    bag_i = 0
    bag_obs = [o[1] for o in oracle_obs if o[0] == "g"]

    def fresh():
        tmp[0] += 1
        return "t%d" % tmp[0]

    def idx(i):
        if i < 0 or (flavour & 1):
            n = fresh()
            lines.append("%s = %d" % (n, i))
            return n
        return str(i)

    def call(o):
        # f = fn() -> T { return w[i] } ; the operand is f()
        n = fresh().replace("t", "f")
        lines.append("%s = fn() -> %s {\n%s\n}" % (n, tstr(env[o[1]][1]), elem_body(o[1], o[2], "u" + n)))
        return n + "()"

    def assign(dst, t, rhs):
        # typed declaration the first time (an untyped list literal would be a fixed-size tuple)
        if dst in env:
            lines.append("v%d = %s" % (dst, rhs))
        else:
            lines.append("v%d: %s = %s" % (dst, tstr(t), rhs))
        env[dst] = t

    for pos, op in enumerate(hist):
        k = op[0]
        if k == "newvec":
            es = [operand_src(e, idx, call) for e in op[3]]
            assign(op[1], op[2], "[" + ", ".join(es) + "]")
        elif k == "alias":
            assign(op[1], env[op[2]], "v%d" % op[2])
        elif k == "push":
            lines.append("v%d.push(%s)" % (op[1], operand_src(op[2], idx, call)))
        elif k == "remove":
            lines.append("print v%d.remove(%d)" % (op[1], op[2]))
        elif k == "iread":
            lines.append("print v%d[%s]" % (op[1], idx(op[2])))
        elif k == "iwrite":
            rhs = operand_src(op[3], idx, call)
            lines.append("v%d[%s] = %s" % (op[1], idx(op[2]), rhs))
        elif k == "opassign":
            sym = {"add": "+=", "sub": "-=", "mul": "*="}[op[3]]
            lines.append("v%d[%s] %s %s" % (op[1], idx(op[2]), sym, lit(op[4])))
        elif k == "reverse":
            lines.append("v%d.reverse()" % op[1])
        elif k == "join":
            assign(op[1], env[op[2]], "v%d.join(v%d)" % (op[2], op[3]))
        elif k == "clear":
            lines.append("v%d.clear()" % op[1])
        elif k == "clone":
            assign(op[1], env[op[2]], "v%d.clone()" % op[2])
        elif k == "mapf":
            et = env[op[2]][1]
            assign(op[1], lst(fn_type(op[3], et)), "v%d.map(%s)" % (op[2], fn_src(op[3], et)))
        elif k == "mapelem":
            ut = env[op[3]][1]
            n = fresh()
            assign(op[1], lst(ut), "v%d.map(fn(x: %s) -> %s {\n%s\n})" % (op[2], tstr(env[op[2]][1]), tstr(ut), elem_body(op[3], op[4], "u" + n)))
        elif k == "mapkey":
            mt = env[op[3]]
            assign(op[1], lst(mt[2]), "v%d.map(fn(x: %s) -> %s { return v%d[%s] })" % (op[2], tstr(env[op[2]][1]), tstr(mt[2]), op[3], lit(op[4])))
        elif k == "filterf":
            assign(op[1], env[op[2]], "v%d.filter(%s)" % (op[2], pred_src(op[3], env[op[2]][1])))
        elif k == "indexof":
            lines.append("print v%d.index_of(%s)" % (op[1], operand_src(op[2], idx, call)))
        elif k == "len":
            lines.append("print v%d.len()" % op[1])
        elif k == "eq":
            lines.append("print v%d == v%d" % (op[1], op[2]))
        elif k == "print":
            lines.append("print v%d" % op[1])
        elif k == "concat":
            a, b = idx(op[2]), idx(op[3])
            lines.append('print "" + v%d[%s] + v%d[%s]' % (op[1], a, op[1], b))
        elif k == "maplit":
            t = op[2]
            body = ", ".join("%s: %s" % (lit(kk), operand_src(e, idx, call)) for kk, e in op[3])
            rhs = "map[%s, %s]" % (tstr(t[1]), tstr(t[2])) + (" { %s }" % body if op[3] else "")
            lines.append("v%d = %s" % (op[1], rhs))
            env[op[1]] = t
        elif k == "mget":
            lines.append("print v%d[%s]" % (op[1], lit(op[2])))
        elif k == "mset":
            lines.append("v%d[%s] = %s" % (op[1], lit(op[2]), operand_src(op[3], idx, call)))
        elif k == "mopassign":
            sym = {"add": "+=", "sub": "-=", "mul": "*="}[op[3]]
            lines.append("v%d[%s] %s %s" % (op[1], lit(op[2]), sym, lit(op[4])))
        elif k in ("replace", "mremove"):
            src = "v%d.replace(%s, %s)" % (op[1], lit(op[2]), operand_src(op[3], idx, call)) if k == "replace" else \
                "v%d.remove(%s)" % (op[1], lit(op[2]))
            vt = env[op[1]][2]
            if (flavour & 2) and vt in (INT, STR) and n_obs < len(oracle_obs) and oracle_obs[n_obs][0] == "v":
                r = oracle_obs[n_obs][1]
                probe_src(lines, fresh()[1:], src, r, vt)
                universes.probes[n_obs] = (r, vt)
            else:
                lines.append("print " + src)
        elif k == "haskey":
            lines.append("print v%d.contains_key(%s)" % (op[1], lit(op[2])))
        elif k == "mlen":
            lines.append("print v%d.len()" % op[1])
        elif k in ("keys", "values", "pairs"):
            t = env[op[1]]
            bag = bag_obs[bag_i] if bag_i < len(bag_obs) else []
            bag_i += 1
            n = fresh()
            lines.append("%s = v%d.%s()" % (n, op[1], k))
            lines.append("print %s.len()" % n)
            if k == "pairs":
                uni = [[kk, vv] for kk, vv in sorted(bag, key=canon_key)][:10]
                # and the same keys with another value: must not be present
                others = bag_universe(hist, t, pos, [], "values")
                for kk, vv in list(uni)[:3]:
                    for ov in others[:2]:
                        if [kk, ov] not in uni:
                            uni.append([kk, ov])
                helpers[("p", t[1], t[2])] = cntp_helper(t[1], t[2])
                for kk, vv in uni:
                    lines.append("print cntp_%s_%s(%s, %s, %s)" % (mangle(t[1]), mangle(t[2]), n, lit(kk), lit(vv)))
            else:
                et = t[1] if k == "keys" else t[2]
                uni = bag_universe(hist, t, pos, bag, k)
                helpers[("c", et)] = cnt_helper(et)
                for u in uni:
                    lines.append("print cnt_%s(%s, %s)" % (mangle(et), n, lit(u)))
            universes.append(uni)
        elif k == "mclear":
            lines.append("v%d.clear()" % op[1])
        elif k == "mclone":
            assign(op[1], env[op[2]], "v%d.clone()" % op[2])
        else:
            raise Invalid()
        if k in OBSERVING:
            n_obs += 1
    text = "".join(helpers[h] for h in sorted(helpers, key=str)) + "\n".join(lines) + "\nprint \"<end>\"\n"
    return text, universes


def expected_lines(obs, failed, universes):
    """stdout lines of the rendered program for a run with these observations"""
    out = []
    g = 0
    probes = getattr(universes, "probes", {})
    for i, o in enumerate(obs):
        if o[0] == "v" and i in probes:
            try:
                out += probe_expected(o[1], *probes[i])
            except Truncated as t:
                return out + t.args[0]
        elif o[0] == "v":
            out.append(show(o[1]))
        elif o[0] == "b":
            out.append("true" if o[1] else "false")
        else:
            uni = universes[g] if g < len(universes) else []
            g += 1
            out.append(str(len(o[1])))
            keys = [canon_key(x) for x in o[1]]
            for u in uni:
                out.append(str(keys.count(canon_key(u))))
    if not failed:
        out.append("<end>")
    return out


# --------------------------------------------------------------------------- rendering: model input

def cps(s):
    return ".".join(str(ord(c)) for c in s) if s else "-"


def m_val(v):
    if v is None:
        return "n"
    if isinstance(v, int):
        return "i:%d" % v
    return "s:" + cps(v[1])


def m_operand(o):
    if o[0] == "L":
        return "L" + m_val(o[1])
    if o[0] == "V":
        return "V%d" % o[1]
    return "%s%d,%d" % (o[0], o[1], o[2])


def m_fn(f):
    if f[0] in ("add", "mul"):
        return "%s:%d" % (f[0], f[1])
    if f[0] == "suf":
        return "suf:" + cps(f[1][1])
    return "len"


def m_pred(p):
    if p[0] in ("gt", "lengt"):
        return "%s:%d" % (p[0], p[1])
    if p[0] == "ne":
        return "ne:" + m_val(p[1])
    return p[0]


def model_line(hist):
    out = []
    for op in hist:
        k = op[0]
        if k == "newvec":
            out.append(" ".join(["newvec", str(op[1])] + [m_operand(e) for e in op[3]]))
        elif k in ("alias", "clone", "mclone", "eq"):
            out.append("%s %d %d" % (k, op[1], op[2]))
        elif k in ("push", "indexof"):
            out.append("%s %d %s" % (k, op[1], m_operand(op[2])))
        elif k in ("remove", "iread"):
            out.append("%s %d %d" % (k, op[1], op[2]))
        elif k == "iwrite":
            out.append("iwrite %d %d %s" % (op[1], op[2], m_operand(op[3])))
        elif k == "opassign":
            out.append("opassign %d %d %s %s" % (op[1], op[2], op[3], m_val(op[4])))
        elif k in ("reverse", "clear", "len", "print", "mlen", "keys", "values", "pairs", "mclear"):
            out.append("%s %d" % (k, op[1]))
        elif k == "join":
            out.append("join %d %d %d" % (op[1], op[2], op[3]))
        elif k == "mapf":
            out.append("mapf %d %d %s" % (op[1], op[2], m_fn(op[3])))
        elif k == "mapelem":
            out.append("mapelem %d %d %d %d" % (op[1], op[2], op[3], op[4]))
        elif k == "mapkey":
            out.append("mapkey %d %d %d %s" % (op[1], op[2], op[3], m_val(op[4])))
        elif k == "filterf":
            out.append("filterf %d %d %s" % (op[1], op[2], m_pred(op[3])))
        elif k == "concat":
            out.append("concat %d %d %d" % (op[1], op[2], op[3]))
        elif k == "maplit":
            out.append(" ".join(["maplit", str(op[1])] + [x for kk, e in op[3] for x in (m_val(kk), m_operand(e))]))
        elif k in ("mget", "mremove", "haskey"):
            out.append("%s %d %s" % (k, op[1], m_val(op[2])))
        elif k in ("mset", "replace"):
            out.append("%s %d %s %s" % (k, op[1], m_val(op[2]), m_operand(op[3])))
        elif k == "mopassign":
            out.append("mopassign %d %s %s %s" % (op[1], m_val(op[2]), op[3], m_val(op[4])))
        else:
            raise Invalid()
    return ";".join(out)


def from_json(o):
    if isinstance(o, dict):
        return ("s", "".join(chr(c) for c in o["s"]))
    if isinstance(o, list):
        return [from_json(x) for x in o]
    return o


def model_obs(r):
    out = []
    for o in r["obs"]:
        if "v" in o:
            out.append(("v", from_json(o["v"])))
        elif "b" in o:
            out.append(("b", o["b"]))
        else:
            out.append(("g", [from_json(x) for x in o["g"]]))
    return out, r["fail"]


def run_model(exe, hists):
    inp = "\n".join(model_line(h) for h in hists) + "\n"
    rc, out, err = core.sh([exe], inp=inp.encode(), timeout=900)
    if rc != 0:
        raise core.BuildError("containers model driver failed: " + err.decode("utf8", "replace")[-500:])
    res = [json.loads(l) for l in out.decode().splitlines()]
    if len(res) != len(hists):
        raise core.BuildError("containers model driver: %d results for %d histories" % (len(res), len(hists)))
    return res


# --------------------------------------------------------------------------- generator

INTS = [0, 1, 2, 3, 5, -1, -7, 10, 100]
STRS = ["", "a", "b", "ab", "a b", "é", "0", "nil"]
LIST_ELEMS = [INT, STR, opt(INT), opt(STR), lst(INT), lst(STR)]
MAP_TYPES = [mp(STR, INT), mp(INT, STR), mp(STR, STR), mp(INT, INT), mp(STR, opt(INT)), mp(INT, lst(INT)), mp(STR, lst(STR))]


def rand_scalar(rng, t, small=False):
    if t[0] == "opt":
        return None if rng.random() < 0.35 else rand_scalar(rng, t[1], small)
    if t == INT:
        return rng.choice(INTS[:5] if small else INTS)
    return ("s", rng.choice(STRS[:4] if small else STRS))


class Gen:
    """grows a history op by op, tracking static types and (through the oracle) the current contents"""

    def __init__(self, rng, allow_elem_in_literal=True):
        self.rng = rng
        self.hist = []
        self.env = {}
        self.nvar = 0
        self.allow_elem_in_literal = allow_elem_in_literal
        self.no_views = not allow_elem_in_literal      # pre-fix model: no stored element views

    def state(self):
        """contents per variable according to the oracle (None once the history has failed)"""
        return _replay_env(self.hist)

    def fresh(self):
        self.nvar += 1
        return self.nvar - 1

    def vars_of(self, pred):
        return [v for v, t in self.env.items() if pred(t)]

    def add(self, op):
        self.hist.append(op)
        self.env = typecheck(self.hist)

    def elem(self, v, st):
        """operand v[i]: mostly in range, sometimes a boundary index just outside"""
        n = len(st[v]) if st and v in st else 0
        if n == 0 and self.rng.random() < 0.85:
            return None
        return ("C" if self.rng.random() < 0.35 else "E", v, self.index(n, bias_ok=0.9))

    def operand(self, t, st, in_literal=False):
        """a random operand of static type t"""
        rng = self.rng
        elem_ok = self.allow_elem_in_literal or not in_literal
        if t[0] == "list":
            cands = []
            vs = self.vars_of(lambda x: x == t)
            if vs:
                cands.append(("V", rng.choice(vs)))
            es = self.vars_of(lambda x: x == lst(t))
            if es and elem_ok:
                e = self.elem(rng.choice(es), st)
                if e is not None:
                    cands.append(e)
            return rng.choice(cands) if cands else None
        if rng.random() < 0.25 and elem_ok:
            es = self.vars_of(lambda x: x == lst(t))
            if es:
                e = self.elem(rng.choice(es), st)
                if e is not None:
                    return e
        return ("L", rand_scalar(rng, t))

    def index(self, n, bias_ok=0.8):
        """boundary indices -1, 0, len-1, len and interior ones"""
        rng = self.rng
        if rng.random() < bias_ok and n > 0:
            return rng.choice([0, n - 1, rng.randrange(n)])
        return rng.choice([-1, 0, n - 1, n, n + 1, rng.randrange(n + 1)])

    def new_container(self, t, st, empty=None):
        rng = self.rng
        dst = self.fresh()
        if empty is None:
            empty = rng.random() < 0.3
        if t[0] == "list":
            es = []
            if not empty:
                for _ in range(rng.choice([1, 2, 3, 3, 4])):
                    o = self.operand(t[1], st, in_literal=True)
                    if o is not None:
                        es.append(o)
            self.add(("newvec", dst, t, es))
        else:
            kvs = []
            if not empty:
                for _ in range(rng.choice([1, 2, 3])):
                    o = self.operand(t[2], st, in_literal=True) if t[2][0] != "opt" else ("L", rand_scalar(rng, t[2]))
                    if o is not None:
                        kvs.append((rand_scalar(rng, t[1], small=True), o))
            self.add(("maplit", dst, t, kvs))
        return dst

    def step(self):
        """append one random applicable operation"""
        rng = self.rng
        st = self.state()
        lists = self.vars_of(lambda t: t[0] == "list")
        maps_ = self.vars_of(lambda t: t[0] == "map")
        for _ in range(40):
            try:
                op = self.pick(rng, st, lists, maps_)
                if op is None:
                    continue
                typecheck(self.hist + [op])
                self.add(op)
                return True
            except Invalid:
                continue
        return False

    def dst(self, t, avoid=()):
        """destination of a binding operation: a fresh name, or an existing variable of the same type"""
        same = [v for v in self.vars_of(lambda x: x == t) if v not in avoid]
        if same and self.rng.random() < 0.3:
            return self.rng.choice(same)
        return self.fresh()

    def pick(self, rng, st, lists, maps_):
        use_map = maps_ and (not lists or rng.random() < 0.5)
        if use_map:
            m = rng.choice(maps_)
            t = self.env[m]
            kk = rand_scalar(rng, t[1], small=True)
            if st and st.get(m) and rng.random() < 0.5:
                kk = rng.choice(list(st[m].keys()))
            k = rng.choice(["mget", "mget", "mset", "mset", "mopassign", "replace", "mremove", "haskey", "mlen", "keys",
                            "values", "pairs", "mclear", "mclone", "alias"])
            if k in ("mget", "mremove", "haskey"):
                return (k, m, kk)
            if k in ("mset", "replace"):
                o = self.operand(t[2], st)
                return None if o is None else (k, m, kk, o)
            if k == "mopassign":
                if not (st and st.get(m) and kk in st[m]) and rng.random() < 0.7:
                    return None
                base = t[2][1] if t[2][0] == "opt" else t[2]
                if base == INT:
                    return (k, m, kk, rng.choice(["add", "sub", "mul"]), rng.choice([1, 2, 3, -2]))
                if base == STR:
                    return (k, m, kk, "add", rng.choice([("s", "x"), 7]))
                return None
            if k in ("mlen", "keys", "values", "pairs", "mclear"):
                return (k, m)
            if k == "mclone":
                return (k, self.dst(t, (m,)), m)
            return ("alias", self.dst(t, (m,)), m)
        if not lists:
            return None
        v = rng.choice(lists)
        t = self.env[v]
        et = t[1]
        n = len(st[v]) if st and v in st else 1
        k = rng.choice(["push", "push", "remove", "iread", "iread", "iwrite", "opassign", "reverse", "join", "clear",
                        "clone", "mapf", "filterf", "indexof", "len", "eq", "print", "print", "concat", "alias",
                        "mapelem", "mapkey"])
        if k in ("mapelem", "mapkey") and self.no_views:
            return None
        if k == "mapelem":
            # v.map(callback returning an element of list w)
            w = rng.choice(lists)
            wn = len(st[w]) if st and w in st else 0
            if wn == 0 and rng.random() < 0.8:
                return None
            return (k, self.dst(lst(self.env[w][1]), (v, w)), v, w, self.index(wn, bias_ok=0.85))
        if k == "mapkey":
            if not maps_:
                return None
            m = rng.choice(maps_)
            mt = self.env[m]
            # m[k] of a missing key is nil whatever V is (a typing hole, property C02): only an optional-valued map
            # is asked for a key it may not have
            if st and st.get(m) and (mt[2][0] != "opt" or rng.random() < 0.8):
                kk = rng.choice(list(st[m].keys()))
            elif mt[2][0] == "opt":
                kk = rand_scalar(rng, mt[1], small=True)
            else:
                return None
            return (k, self.dst(lst(mt[2]), (v,)), v, m, kk)
        if n == 0 and k in ("remove", "iread", "iwrite", "opassign", "concat") and rng.random() < 0.7:
            return None
        if k == "push":
            o = self.operand(et, st)
            return None if o is None else (k, v, o)
        if k in ("remove", "iread"):
            return (k, v, self.index(n))
        if k == "iwrite":
            o = self.operand(et, st)
            return None if o is None else (k, v, self.index(n), o)
        if k == "opassign":
            base = et[1] if et[0] == "opt" else et
            if base == INT:
                return (k, v, self.index(n), rng.choice(["add", "sub", "mul"]), rng.choice([1, 2, 3, -2]))
            if base == STR:
                return (k, v, self.index(n), "add", rng.choice([("s", "x"), ("s", ""), 7]))
            return None
        if k in ("reverse", "clear", "len", "print"):
            return (k, v)
        if k == "join":
            same = self.vars_of(lambda x: x == t)
            return (k, self.dst(t), v, rng.choice(same))
        if k == "clone":
            return (k, self.dst(t, (v,)), v)
        if k == "alias":
            return (k, self.dst(t, (v,)), v)
        if k == "mapf":
            fs = [("add", rng.choice([0, 1, 5])), ("mul", rng.choice([0, 2, -1]))] if et == INT else []
            if et in (INT, STR):
                fs.append(("suf", ("s", rng.choice(["!", "", "a"]))))
            if et[0] == "list":
                fs.append(("len",))
            if not fs:
                return None
            f = rng.choice(fs)
            return (k, self.dst(lst(fn_type(f, et)), (v,)), v, f)
        if k == "filterf":
            ps = [("true",), ("false",)]
            if et == INT:
                ps += [("gt", rng.choice([0, 1, 2]))] * 2
            if et[0] != "list":
                ps += [("ne", rand_scalar(rng, et, small=True))] * 2
            else:
                ps += [("lengt", rng.choice([0, 1]))] * 2
            return (k, self.dst(t, (v,)), v, rng.choice(ps))
        if k == "indexof":
            o = self.operand(et, st)
            if o is not None and o[0] == "L" and st and st.get(v) and rng.random() < 0.5 and et[0] != "list":
                o = ("L", rng.choice([x for x in st[v]]))
            return None if o is None else (k, v, o)
        if k == "eq":
            same = self.vars_of(lambda x: x == t)
            return (k, v, rng.choice(same))
        if k == "concat":
            return (k, v, self.index(n, 0.8), self.index(n, 0.8)) if et in (INT, STR) else None
        return None


def _replay_env(hist):
    """contents (python values) per variable after the history; None when it has failed"""
    return oracle_full(hist)[2]


def boundary_histories():
    """systematic part: every indexed operation x every boundary index (-1, 0, len-1, len) x list length 0, 1, 3
    x element kind, observed through an alias and a clone made before the operation"""
    out = []
    kinds = [(INT, [1, 2, 3]), (STR, [("s", "a"), ("s", ""), ("s", "b c")]), (opt(INT), [None, 2, None]), (lst(INT), None)]
    for et, vals in kinds:
        for n in (0, 1, 3):
            for iname in ("-1", "0", "len-1", "len"):
                i = {"-1": -1, "0": 0, "len-1": n - 1, "len": n}[iname]
                for opk in ("iread", "iwrite", "opassign", "remove", "concat", "elem", "mapelem", "call"):
                    h = []
                    if et[0] == "list":
                        h.append(("newvec", 5, et, [("L", 7)]))
                        h.append(("newvec", 6, et, []))
                        h.append(("newvec", 0, lst(et), [("V", 5), ("V", 6), ("V", 5)][:n]))
                        x = ("V", 6)
                    else:
                        h.append(("newvec", 0, lst(et), [("L", v) for v in vals[:n]]))
                        x = ("L", vals[1] if vals[1] is not None else 9)
                    h.append(("alias", 1, 0))
                    h.append(("clone", 2, 0))
                    if opk == "iread":
                        h.append(("iread", 1, i))
                    elif opk == "iwrite":
                        h.append(("iwrite", 1, i, x))
                    elif opk == "opassign":
                        if et[0] == "list":
                            continue
                        h.append(("opassign", 1, i, "add", 1))
                    elif opk == "remove":
                        h.append(("remove", 1, i))
                    elif opk == "concat":
                        if et not in (INT, STR):
                            continue
                        h.append(("concat", 1, i, 0))
                    elif opk == "mapelem":
                        h.append(("newvec", 4, lst(INT), [("L", 0), ("L", 0)]))
                        h.append(("mapelem", 3, 4, 1, i))
                        h.append(("clear", 0))
                        h.append(("print", 3))
                    elif opk == "call":
                        h.append(("newvec", 3, lst(et), []))
                        h.append(("push", 3, ("C", 1, i)))
                        h.append(("reverse", 0))
                        h.append(("print", 3))
                    else:
                        h.append(("newvec", 3, lst(et), [("E", 1, i)]))
                        h.append(("print", 3))
                    h += [("print", 0), ("print", 1), ("print", 2), ("len", 0)]
                    try:
                        typecheck(h)
                        out.append(h)
                    except Invalid:
                        pass
    return out


def fixed_histories():
    """hand-written histories: the defects found while building the check and the aliasing patterns"""
    L = lst(INT)
    s = lambda x: ("s", x)
    return [
        [("newvec", 0, L, [("L", 1), ("L", 2)]), ("newvec", 1, L, [("L", 7)]), ("join", 2, 0, 1), ("print", 0), ("print", 1), ("push", 2, ("L", 9)), ("print", 0)],
        [("newvec", 0, L, [("L", 1), ("L", 2)]), ("join", 1, 0, 0), ("print", 0), ("print", 1)],
        [("newvec", 0, L, []), ("mapf", 1, 0, ("add", 1)), ("print", 1), ("push", 1, ("L", 1)), ("print", 0)],
        [("newvec", 0, L, []), ("filterf", 1, 0, ("true",)), ("print", 1), ("push", 1, ("L", 1)), ("print", 0)],
        [("newvec", 0, L, [("L", 1), ("L", 2), ("L", 3)]), ("remove", 0, 3), ("print", 0)],
        [("newvec", 0, L, [("L", 1), ("L", 2), ("L", 3)]), ("newvec", 1, L, [("E", 0, 0), ("E", 0, 2)]), ("iwrite", 0, 0, ("L", 70)), ("print", 1), ("clear", 0), ("print", 1)],
        [("newvec", 0, L, [("L", 1)]), ("newvec", 1, lst(L), [("V", 0), ("V", 0)]), ("push", 0, ("L", 5)), ("print", 1), ("clone", 2, 1), ("newvec", 3, L, []),
         ("iwrite", 2, 0, ("V", 3)), ("print", 1), ("print", 2), ("eq", 1, 2)],
        [("maplit", 0, mp(STR, INT), [(s("a"), ("L", 1)), (s("a"), ("L", 2)), (s("b"), ("L", 2))]), ("alias", 1, 0), ("mclone", 2, 0), ("mset", 1, s("c"), ("L", 3)),
         ("mlen", 0), ("mlen", 2), ("mget", 0, s("a")), ("mget", 0, s("zz")), ("keys", 0), ("values", 0), ("pairs", 0), ("mopassign", 0, s("zz"), "add", 1)],
        [("maplit", 0, mp(INT, L), []), ("newvec", 1, L, [("L", 5)]), ("mset", 0, 3, ("V", 1)), ("push", 1, ("L", 6)), ("mget", 0, 3), ("values", 0), ("pairs", 0),
         ("replace", 0, 3, ("V", 1)), ("mremove", 0, 3), ("mremove", 0, 3), ("mlen", 0)],
        # a callback / function returning an element hands on its value, not a view
        [("newvec", 0, L, [("L", 1), ("L", 2)]), ("newvec", 1, L, [("L", 7), ("L", 8)]), ("mapelem", 2, 1, 0, 0), ("iwrite", 0, 0, ("L", 99)), ("print", 2),
         ("clear", 0), ("print", 2), ("newvec", 3, L, []), ("mapelem", 4, 3, 0, 5), ("print", 4), ("mapelem", 5, 1, 0, 5), ("print", 5)],
        [("maplit", 0, mp(STR, INT), [(s("a"), ("L", 5))]), ("newvec", 1, L, [("L", 7), ("L", 8)]), ("mapkey", 2, 1, 0, s("a")), ("mset", 0, s("a"), ("L", 6)), ("print", 2),
         ("mclear", 0), ("print", 2), ("mapkey", 3, 1, 0, s("zz")), ("print", 3)],
        [("newvec", 0, L, [("L", 1), ("L", 2)]), ("newvec", 1, L, []), ("push", 1, ("C", 0, 0)), ("newvec", 2, L, [("C", 0, 1), ("C", 0, -1)][:1]), ("maplit", 3, mp(STR, INT), [(s("k"), ("C", 0, 0))]),
         ("iwrite", 0, 0, ("L", 99)), ("iwrite", 0, 1, ("L", 98)), ("print", 1), ("print", 2), ("mget", 3, s("k")), ("clear", 0), ("print", 1), ("print", 2)],
        [("newvec", 5, L, [("L", 7)]), ("newvec", 0, lst(L), [("V", 5), ("V", 5)]), ("newvec", 1, L, [("L", 1), ("L", 2)]), ("mapelem", 2, 1, 0, 0), ("push", 5, ("L", 8)), ("print", 2),
         ("newvec", 6, L, []), ("iwrite", 0, 0, ("V", 6)), ("print", 2)],
        [("maplit", 0, mp(STR, opt(INT)), []), ("mset", 0, s("a"), ("L", None)), ("mget", 0, s("a")), ("haskey", 0, s("a")), ("haskey", 0, s("b")), ("replace", 0, s("a"), ("L", 5)),
         ("values", 0), ("mclear", 0), ("keys", 0)],
    ] + optional_literal_histories()


def optional_literal_histories():
    """the LITERAL of a map whose values are optional holds present values and nil, like every other way into that map"""
    s = lambda x: ("s", x)
    out = []
    for t, k1, k2, k3, a, b in ((mp(STR, opt(INT)), s("a"), s("b"), s("c"), 1, 2), (mp(INT, opt(STR)), 0, -1, 7, s("x"), s("")),
                                (mp(STR, opt(STR)), s(""), s("k"), s("é"), s("nil"), s("v")), (mp(INT, opt(INT)), 3, 4, 5, 0, -7)):
        out.append([("maplit", 0, t, [(k1, ("L", a)), (k2, ("L", None))]), ("mget", 0, k1), ("mget", 0, k2), ("mget", 0, k3), ("mlen", 0), ("haskey", 0, k2),
                    ("values", 0), ("pairs", 0)])
        out.append([("maplit", 0, t, [(k1, ("L", a))]), ("alias", 1, 0), ("mclone", 2, 0), ("mset", 1, k2, ("L", b)), ("replace", 2, k1, ("L", None)),
                    ("mget", 0, k2), ("mget", 2, k1), ("mget", 0, k1), ("mremove", 0, k1), ("mlen", 1), ("mlen", 2), ("keys", 0)])
        out.append([("maplit", 0, t, [(k1, ("L", a)), (k1, ("L", None)), (k2, ("L", b))]), ("mget", 0, k1), ("mlen", 0), ("pairs", 0)])
    return out


def reuse_histories():
    """map replace / remove whose result is used again (rendered with flavour bit 1): present key, absent key,
    through an alias and on a clone, int and str values"""
    s = lambda x: ("s", x)
    out = []
    for t, k1, k2, a, b in ((mp(STR, INT), s("a"), s("zz"), 16, 17), (mp(INT, STR), 3, 4, s("x"), s("")), (mp(STR, STR), s(""), s("b"), s("nil"), s("é")),
                            (mp(INT, INT), 0, -1, 0, -7)):
        out.append([("maplit", 0, t, [(k1, ("L", a))]), ("replace", 0, k1, ("L", b)), ("mget", 0, k1), ("replace", 0, k2, ("L", a)), ("mlen", 0),
                    ("mremove", 0, k1), ("mremove", 0, k1), ("mlen", 0), ("pairs", 0)])
        out.append([("maplit", 0, t, [(k1, ("L", a)), (k2, ("L", b))]), ("alias", 1, 0), ("mclone", 2, 0), ("mremove", 1, k2), ("replace", 2, k2, ("L", a)),
                    ("mremove", 0, k2), ("mget", 2, k2), ("replace", 1, k1, ("L", b)), ("mget", 0, k1), ("mlen", 0), ("mlen", 2)])
    return out


def random_history(rng, allow_elem_in_literal=True):
    g = Gen(rng, allow_elem_in_literal)
    fam = rng.choice(["list", "list", "list", "nested", "map", "map", "mixed"])
    nbase = rng.choice([1, 2, 2, 3])
    st = None
    if fam == "nested" or fam == "mixed":
        inner = rng.choice([INT, STR])
        g.new_container(lst(inner), {}, empty=rng.random() < 0.3)
        if rng.random() < 0.5:
            g.new_container(lst(inner), {})
        g.new_container(lst(lst(inner)), _replay_env(g.hist))
        if fam == "mixed":
            g.new_container(rng.choice([mp(INT, lst(inner)), mp(STR, lst(inner))]) , _replay_env(g.hist))
    elif fam == "list":
        t = lst(rng.choice(LIST_ELEMS[:4]))
        for _ in range(nbase):
            g.new_container(t if rng.random() < 0.8 else lst(rng.choice(LIST_ELEMS[:4])), _replay_env(g.hist))
    else:
        t = rng.choice(MAP_TYPES)
        if t[2][0] == "list":
            g.new_container(t[2], {})
        for _ in range(rng.choice([1, 2])):
            g.new_container(t, _replay_env(g.hist))
    total = rng.choice([6, 8, 10, 12, 12, 12])
    after_fail = 0
    while len(g.hist) < total:
        if not g.step():
            break
        if g.state() is None:
            after_fail += 1
            if after_fail >= 2:
                break
    # histories end with a look at everything (when there is room)
    for v, t in list(g.env.items()):
        if len(g.hist) >= 12:
            break
        g.hist.append(("print", v) if t[0] == "list" else ("pairs", v))
    return g.hist[:12]


# --------------------------------------------------------------------------- running and comparing

def run_impl(binary, base, text):
    d = programs.materialize({"files": {"x.ms": text}}, base)
    rc, out, err = programs.run_bin(binary, ["run", "x.ms", "-q"], d, timeout=30)
    shutil.rmtree(d, ignore_errors=True)
    return rc, out, err


def out_lines(out):
    ls = out.split("\n")
    if ls and ls[-1] == "":
        ls.pop()
    return ls


def rc_class(rc):
    return {0: "ok", 1: "Err", 101: "Panic"}.get(rc, "rc%d" % rc)


def compiled(rc, out, err):
    return not (rc == 1 and "Did not compile" in err)


def defect_class(hist, exe):
    """the repaired defect a history exercises: the operation at which the pre-fix model and the fixed model part"""
    res = run_model(exe, [hist[:n] for n in range(1, len(hist) + 1)])
    for n, r in enumerate(res):
        if "error" in r:
            return None
        if r["legacy"] != r["fixed"]:
            op = hist[n]
            if op[0] == "join":
                return "join-self-panics" if op[2] == op[3] else "join-empties-argument"
            if op[0] == "remove":
                return "remove-out-of-range-panics"
            if op[0] in ("mapf", "filterf"):
                return "map-filter-empty-panics"
            # a later operation shows the difference
            for m in range(n, -1, -1):
                if hist[m][0] == "join":
                    return "join-empties-argument"
            return None
    return None


def has_elem_literal(hist):
    return any(op[0] == "newvec" and any(e[0] in ("E", "C") for e in op[3]) for op in hist)


def has_callback_elem(hist):
    return any(op[0] in ("mapelem", "mapkey") for op in hist)


def evaluate(binary, base, exe, hists, flavours):
    """-> list of dict(hist, text, impl, model, oracle, verdicts)"""
    model = run_model(exe, hists)
    jobs = []
    for h, fl in zip(hists, flavours):
        o_obs, o_failed = oracle(h)
        text, uni = render_program(h, o_obs, fl)
        jobs.append((h, text, uni, o_obs, o_failed))
    impl = programs.pmap(lambda j: run_impl(binary, base, j[1]), jobs)
    out = []
    for (h, text, uni, o_obs, o_failed), (rc, so, se), m in zip(jobs, impl, model):
        r = {"hist": h, "text": text, "rc": rc, "stdout": so, "stderr": se[-600:], "stderr_head": (so + se)[:2000], "model": m, "probes": getattr(uni, "probes", {})}
        r["compiled"] = compiled(rc, so, se)
        got = out_lines(so)
        r["got"] = got
        r["spec_lines"] = expected_lines(o_obs, o_failed, uni)
        r["spec_failed"] = o_failed
        # the property: observations equal the sequence / finite map reading, a failure stops the program
        r["spec_ok"] = got == r["spec_lines"] and ((rc in (1, 101)) if o_failed else rc == 0)
        for mode in ("fixed", "legacy"):
            if "error" in m:
                r[mode + "_ok"] = False
                continue
            mo, mf = model_obs(m[mode])
            r[mode + "_lines"] = expected_lines(mo, mf is not None, uni)
            # for C13 a Rust panic (101) and an mscript error (1) both stop the program; the class is recorded
            r[mode + "_ok"] = got == r[mode + "_lines"] and ((rc in (1, 101)) if mf else rc == 0)
            r[mode + "_class_ok"] = rc_class(rc) == (mf or "ok")
        # Coq specification vs the executable reading used here
        if "error" not in m:
            so_, sf_ = model_obs(m["spec"])
            r["coqspec_ok"] = expected_lines(so_, sf_ is not None, uni) == r["spec_lines"] and (sf_ is not None) == o_failed
            r["model_undefined"] = m["fixed"]["fail"] in ("Stuck", "Fuel", "Range") or m["spec"]["fail"] in ("Stuck", "Fuel", "Range")
        out.append(r)
    return out


def shrink(binary, base, exe, hist, flavour, bad):
    """drop operations while the history still type-checks and still fails the same way"""
    cur = list(hist)
    changed = True
    rounds = 0
    while changed and rounds < 6:
        changed = False
        rounds += 1
        cands = []
        for i in range(len(cur)):
            c = cur[:i] + cur[i + 1:]
            try:
                typecheck(c)
                cands.append(c)
            except Invalid:
                pass
        if not cands:
            break
        res = evaluate(binary, base, exe, cands, [flavour] * len(cands))
        for c, r in zip(cands, res):
            if r["compiled"] and bad(r):
                cur = c
                changed = True
                break
    return cur


def diff_msg(exp, got):
    n = 0
    while n < len(exp) and n < len(got) and exp[n] == got[n]:
        n += 1
    return "stdout line %d: expected %r, got %r" % (n + 1, exp[n:n + 3], got[n:n + 3])


def replay_of(r):
    return {"history": r["hist"], "program": r["text"], "expected_stdout_lines(specification)": r["spec_lines"],
            "expected_exit": "error exit (1 or 101)" if r["spec_failed"] else "0", "observed_stdout_lines": r["got"], "observed_rc": r["rc"],
            "observed_stderr_tail": r["stderr"][-300:], "model_fixed_lines": r.get("fixed_lines"),
            "model_input": model_line(r["hist"]),
            "how": "save `program` as x.ms in an empty directory and run `mscript run x.ms -q`; or ./verify replay <this file>"}


def run(ctx):
    ok = core.coq_props(ctx, "Props/C13.v")
    binary = core.build_repo()
    exe = extract.build("containers", "ContainersExtract.v", "containers_driver.ml")
    base = ctx.mktemp()
    rng = ctx.rng
    legacy_mode = os.environ.get("C13_LEGACY") == "1"     # development aid: compare with the pre-fix model

    hists = fixed_histories() + boundary_histories()
    if legacy_mode:
        hists = [h for h in hists if not has_elem_literal(h) and not has_callback_elem(h)]
    n_sys = len(hists)
    n_random = (900 if ctx.quick() else 12000)
    tries = 0
    while len(hists) < n_sys + n_random and tries < 20 * n_random:
        tries += 1
        try:
            h = random_history(rng, allow_elem_in_literal=not legacy_mode)
            typecheck(h)
            oracle(h)
            if h:
                hists.append(h)
        except Invalid:
            continue
    flavours = [0] * n_sys + [rng.choice([0, 0, 1, 2, 2, 3]) for _ in range(len(hists) - n_sys)]
    # the value returned by map replace / remove used again (flavour bit 1), present and absent keys
    reuse = reuse_histories()
    hists = reuse + hists
    flavours = [2] * len(reuse) + flavours
    n_sys += len(reuse)
    res = evaluate(binary, base, exe, hists, flavours)

    n_eval = n_cmp = n_fail_hist = dis = spec_fail = not_compiled = undefined = 0
    distinct = set()
    opcount = {}
    spec_found = False
    reported = n_optlit = 0
    which = "legacy" if legacy_mode else "fixed"
    for r, fl in zip(res, flavours):
        n_eval += 1
        for op in r["hist"]:
            opcount[op[0]] = opcount.get(op[0], 0) + 1
        if not r["compiled"] and "This map expects values with type" in r["stderr_head"] and any(
                op[0] == "maplit" and op[2][2][0] == "opt" and any(e[0] == "L" and e[1] is not None for _, e in op[3]) for op in r["hist"]):
            # the literal is one of the map operations of the property: a present value of an optional-valued map
            spec_fail += 1
            spec_found = True
            if n_optlit < 2:
                ctx.report("map-literal-rejects-present-optional-value",
                           "the literal of a map with optional values is refused as soon as it holds a present value (`m[k] = v`, `replace` and a list "
                           "literal of the same element type accept it): %s" % [l for l in r["stderr_head"].split("\n") if "This map expects" in l][0].strip()[:200], replay_of(r))
            n_optlit += 1
            continue
        if not r["compiled"]:
            not_compiled += 1
            if not_compiled <= 3:
                ctx.report("generator:program-rejected", "a generated history was rejected by the compiler (generator/type tracker out of date?): %s" % r["stderr"][-300:],
                           {"program": r["text"], "stderr": r["stderr"]}, found_input=False)
            continue
        if "error" in r["model"] or r.get("model_undefined"):
            undefined += 1
            if undefined <= 3:
                ctx.report("generator:outside-model", "a generated history is outside the model's domain (Stuck/Fuel/Range): %s" % json.dumps(r["model"])[:300],
                           {"history": r["hist"], "model": r["model"]}, found_input=False)
            continue
        n_cmp += 1
        if r["spec_failed"]:
            n_fail_hist += 1
        key = model_line(r["hist"])
        distinct.add(key)
        if not r["coqspec_ok"]:
            ctx.report("spec-vs-oracle", "Coq specification (Containers/Spec.v) and the check's executable reading of the property disagree on %s" % key,
                       {"history": r["hist"], "coq_spec": r["model"]["spec"], "oracle_lines": r["spec_lines"]}, found_input=False)
        pre_fix = None
        if not legacy_mode and (not r["spec_ok"] or not r["fixed_ok"]):
            # behaviour of the tree before fixes/c13-*.diff: named by the repaired defect it exercises
            if has_callback_elem(r["hist"]) and not r["fixed_ok"]:
                pre_fix = "map-callback-returns-element-view"
            if pre_fix is None and r.get("legacy_ok"):
                pre_fix = defect_class(r["hist"], exe)
            if pre_fix is None and has_elem_literal(r["hist"]) and not r["fixed_ok"]:
                pre_fix = "list-literal-stores-element-pointer"
        if not r["spec_ok"] and not legacy_mode:
            spec_fail += 1
            cls = pre_fix or "observation-differs"
            if reported < 4 or pre_fix:
                small = shrink(binary, base, exe, r["hist"], fl, lambda x: not x["spec_ok"]) if reported < 6 else r["hist"]
                rr = evaluate(binary, base, exe, [small], [fl])[0]
                if rr["spec_ok"]:
                    rr = r
                if not pre_fix:
                    # name the operation whose observation is the first to differ
                    fd = first_diff_op(rr)
                    cls = fd if fd == "map-replace-remove-returns-wrapped-optional" else "observation-differs:" + fd
                reported += 1
                spec_found = True
                ctx.report(cls, "list/map history observed differently from the sequence / finite-map reading: %s; expected exit %s, got rc %d"
                           % (diff_msg(rr["spec_lines"], rr["got"]), "error" if rr["spec_failed"] else "0", rr["rc"]), replay_of(rr))
        if not r[which + "_ok"]:
            dis += 1
            if r["spec_ok"] or legacy_mode:
                # the property's own reading holds but the impl-model predicts something else (e.g. the failure class)
                ctx.report(pre_fix or ("correspondence:" + first_diff_op(r)),
                           "container model (%s) and implementation disagree: %s; model exit %s, implementation rc %d"
                           % (which, diff_msg(r.get(which + "_lines", []), r["got"]), r["model"][which]["fail"] or "ok", r["rc"]),
                           dict(replay_of(r), correspondence="Containers/Model.v step vs BuiltInFunction::run / vec_op / map_op", model=r["model"][which]),
                           found_input=False)
    n_fkeys, bad_fkeys = check_float_keys(ctx, binary, base)
    if bad_fkeys:
        spec_found = True
        spec_fail += bad_fkeys
    n_eval += n_fkeys
    ctx.cov["float_key_histories"] = n_fkeys
    n_mel, bad_mel = check_mapped_elements(ctx, binary, base)
    if bad_mel:
        spec_found = True
        spec_fail += bad_mel
    n_eval += n_mel
    ctx.cov["mapped_element_programs"] = n_mel
    n_cel, bad_cel = check_closure_elements(ctx, binary, base)
    n_fmu, bad_fmu = check_filter_mutation(ctx, binary, base)
    if bad_cel or bad_fmu:
        spec_found = True
        spec_fail += bad_cel + bad_fmu
    n_eval += n_cel + n_fmu
    ctx.cov["closure_element_programs"] = n_cel
    ctx.cov["filter_mutation_programs"] = n_fmu
    class_mismatch = [r for r in res if r.get("compiled") and r.get(which + "_ok") and not r.get(which + "_class_ok")]
    ctx.cov["failure_class_mismatches"] = len(class_mismatch)
    ctx.cov["failure_class_mismatch_examples"] = [{"program": r["text"][-300:], "model": r["model"][which]["fail"], "rc": r["rc"], "stderr": r["stderr"][:200]}
                                                  for r in class_mismatch[:3]]
    nontrivial = 0
    for r in res:
        h = r["hist"]
        names = {op[1] for op in h if op[0] in ("alias", "clone", "mclone", "join")}
        if len(h) >= 5 and names and r["compiled"]:
            nontrivial += 1
    ctx.cov["evaluations"] = n_eval
    ctx.cov["traces_validated_against_impl"] = n_cmp
    ctx.cov["distinct_nontrivial"] = nontrivial
    ctx.cov["distinct_histories"] = len(distinct)
    ctx.cov["histories_ending_in_failure"] = n_fail_hist
    ctx.cov["rule"] = ("histories = hand-written defect/aliasing histories + systematic boundary block (indexed op x index in {-1,0,len-1,len} x "
                       "len in {0,1,3} x element kind int/str/optional/nested, observed through an alias and a clone) + random histories (<=12 ops, <=3 base "
                       "containers plus aliases/clones, lists and maps); non-trivial = compiled history of >= 5 operations containing an alias, clone or join binding")
    ctx.cov["exhaustive"] = False
    ctx.cov["systematic_histories"] = n_sys
    ctx.cov["random_histories"] = len(hists) - n_sys
    ctx.cov["operation_distribution"] = dict(sorted(opcount.items()))
    ctx.cov["model_impl_disagreements"] = dis
    ctx.cov["spec_failures"] = spec_fail
    ctx.cov["programs_rejected_by_compiler"] = not_compiled
    ctx.cov["histories_outside_model"] = undefined
    for r in res[:2] + res[n_sys:n_sys + 3]:
        ctx.sample({"history": model_line(r["hist"]), "program": r["text"][-700:], "stdout": r["got"][-8:], "rc": r["rc"]})
    ctx.cov["trusted_base"] = ["Coq 8.16.1 kernel (coqc; vm_compute in Examples and witness lemmas)",
                               "extraction: ExtrOcamlBasic only; extract/containers_driver.ml glue (parsing, JSON printing)",
                               "vlib/c13.py: history generator, renderer of histories as .ms programs, canonical rendering of keys/values/pairs as multiplicities, executable reading of the property (Python lists/dicts)",
                               "map/filter callbacks come from a fixed family of terminating closures; HashMap iteration order is specified up to permutation"]
    ctx.assumptions = ["Containers/Model.v is hand-written; tied to BuiltInFunction::run / vec_op / map_op / ptr_mut / bin_op_assign by this run's differential comparison of stdout and exit class",
                       "callbacks of map/filter terminate and do not touch the receiver", "gc crate (sharing, collection) is modelled as an immutable heap map"]
    core.proof_or_search(ctx, ok, ["C13_containers_refine"], spec_found)


# --------------------------------------------------------------------------- float keys: the two zeros are one key

NEG_ZERO_RECIPES = ("zero * (-1)", "-zero", "-0.0", "zero / (-5)", "(-1.5 + 1.5) * (-1)")


def float_key_histories(rng, n_random):
    """operation lists over a map keyed by float (or by a list of floats): `0.0 == -0.0` in the language, so the finite map of
    the property has ONE entry for the two zeros however -0.0 came about; 1.5 and -1.5 stay two keys"""
    fixed = [
        [("set", "zero", 1), ("get", "neg"), ("has", "neg"), ("set", "neg", 2), ("len",), ("get", "zero"), ("nkeys",)],
        [("set", "neg", 1), ("get", "zero"), ("has", "zero"), ("replace", "zero", 2), ("len",), ("remove", "zero"), ("len",), ("has", "neg")],
        [("set", "zero", 1), ("replace", "neg", 2), ("len",), ("remove", "neg"), ("len",), ("set", "neg", 5), ("opadd", "zero", 1), ("len",), ("get", "neg")],
        [("set", "p", 1), ("set", "q", 2), ("get", "p"), ("get", "q"), ("len",), ("set", "zero", 3), ("set", "neg", 4), ("len",), ("remove", "p"), ("has", "q"), ("nkeys",)],
        [("lit", "zero", 7), ("get", "neg"), ("has", "neg"), ("remove", "neg"), ("len",)],
    ]
    hists = [(h, kind, r) for h in fixed for kind in ("float", "list") for r in range(len(NEG_ZERO_RECIPES))
             if kind == "float" or r < 2]
    for _ in range(n_random):
        h = []
        present = set()
        for _ in range(rng.randint(3, 10)):
            k = rng.choice(["zero", "neg", "neg", "zero", "p", "q"])
            canon = "zero" if k == "neg" else k
            o = rng.choice(["set", "set", "get", "has", "replace", "remove", "len", "opadd", "nkeys"])
            if o == "opadd" and canon not in present:
                o = "get"
            if o in ("set", "replace"):
                present.add(canon)
            if o == "remove":
                present.discard(canon)
            h.append((o,) if o in ("len", "nkeys") else (o, k, rng.randint(-9, 9)) if o in ("set", "replace", "opadd") else (o, k))
        hists.append((h, rng.choice(["float", "list"]), rng.randrange(len(NEG_ZERO_RECIPES))))
    return hists


def float_key_program(h, kind, recipe):
    """-> (program text, expected stdout lines) by the finite-map reading (a Python dict: 0.0 and -0.0 are one key there too)"""
    val = {"zero": 0.0, "neg": -0.0, "p": 1.5, "q": -1.5}
    lines = ["zero = 0.0", "neg = %s" % NEG_ZERO_RECIPES[recipe], "p = 1.5", "q = -1.5", "print zero == neg"]
    exp = ["true"]
    if kind == "list":
        for n in ("zero", "neg", "p", "q"):
            lines.append("k%s: [float...] = [%s, p]" % (n, n))
        key = lambda n: "k" + n
        pk = lambda n: (val[n], 1.5)
        kt = "[float...]"
    else:
        key = lambda n: n
        pk = lambda n: val[n]
        kt = "float"
    m = {}
    sh = lambda v: "nil" if v is None else str(v)
    if h and h[0][0] == "lit":
        lines.append("h = map[%s, int] { %s: %d }" % (kt, "0.0" if kind == "float" else "[0.0, 1.5]", h[0][2]))
        m[pk("zero")] = h[0][2]
        h = h[1:]
    else:
        lines.append("h = map[%s, int]" % kt)
    for op in h:
        o = op[0]
        if o == "set":
            lines.append("h[%s] = %d" % (key(op[1]), op[2]))
            m[pk(op[1])] = op[2]
        elif o == "get":
            lines.append("print h[%s]" % key(op[1]))
            exp.append(sh(m.get(pk(op[1]))))
        elif o == "has":
            lines.append("print h.contains_key(%s)" % key(op[1]))
            exp.append("true" if pk(op[1]) in m else "false")
        elif o == "replace":
            lines.append("print h.replace(%s, %d)" % (key(op[1]), op[2]))
            exp.append(sh(m.get(pk(op[1]))))
            m[pk(op[1])] = op[2]
        elif o == "remove":
            lines.append("print h.remove(%s)" % key(op[1]))
            exp.append(sh(m.pop(pk(op[1]), None)))
        elif o == "opadd":
            lines.append("h[%s] += %d" % (key(op[1]), op[2]))
            m[pk(op[1])] += op[2]
        elif o == "len":
            lines.append("print h.len()")
            exp.append(str(len(m)))
        elif o == "nkeys":
            lines.append("print h.keys().len() + h.values().len() + h.pairs().len()")
            exp.append(str(3 * len(m)))
    lines.append('print "<end>"')
    exp.append("<end>")
    return "\n".join(lines) + "\n", exp


def check_float_keys(ctx, binary, base):
    hists = float_key_histories(ctx.rng, 40 if ctx.quick() else 600)
    jobs = [float_key_program(h, kind, r) for h, kind, r in hists]
    res = programs.pmap(lambda j: run_impl(binary, base, j[0]), jobs)
    bad = 0
    for (h, kind, r), (text, exp), (rc, so, se) in zip(hists, jobs, res):
        got = out_lines(so)
        if rc == 0 and got == exp:
            continue
        bad += 1
        if not compiled(rc, so, se):
            ctx.report("generator:program-rejected", "a float-key program was rejected by the compiler: %s" % (so + se)[-300:],
                       {"program": text, "stderr": (so + se)[-900:]}, found_input=False)
            continue
        ctx.report("map-float-key-signed-zero" if got[:1] == ["true"] else "observation-differs:float-key",
                   "a map keyed by %s: `0.0 == -0.0` is true but the map keeps the two zeros apart (finite-map reading: one key); %s; rc %d"
                   % ("float" if kind == "float" else "[float...]", diff_msg(exp, got), rc),
                   {"history": h, "key_kind": kind, "negative_zero": NEG_ZERO_RECIPES[r], "program": text, "expected_stdout_lines(specification)": exp,
                    "observed_stdout_lines": got, "observed_rc": rc, "observed_stderr_tail": se[-300:],
                    "how": "save `program` as x.ms in an empty directory and run `mscript run x.ms -q`"})
    return len(hists), bad


# --------------------------------------------------------------------------- the elements of the list `map` returns

# `map` is one of the list operations of the property: its result is an ordinary list whose elements are ordinary values of
# the callback's result type.  An element read back (constant / variable index, `remove`) is indexed, written through,
# measured, compared, unwrapped like any value of that type; a list / map element is shared with the collected list.
L12 = "l: [int...] = [1, 2, 3]\n"
MAPPED_ELEMENT_CASES = [
    ("list", "index", L12 + "ls = l.map(fn(x: int) -> [int...] {\n  return [x, x * 10]\n})\nq = ls[1]\nprint q[1]\nk = 2\nr = ls[k]\nprint r[0] + r[1]\nprint q.len()\nprint q == [2, 20]\n", ["20", "33", "2", "true"]),
    ("list", "index", L12 + "ls = l.map(fn(x: int) -> [int...] {\n  return [x, x * 10]\n})\nrow = ls[0]\nrow[1] = 50\nrow[0] += 4\nrow.push(7)\nprint ls\nprint row\nprint ls.len()\n", ["[[5, 50, 7], [2, 20], [3, 30]]", "[5, 50, 7]", "3"]),
    ("list", "remove", L12 + "ls = l.map(fn(x: int) -> [int...] {\n  return [x, x * 10]\n})\nq = ls.remove(1)\nprint q[1]\nq[0] = 9\nprint q\nprint ls\n", ["20", "[9, 20]", "[[1, 10], [3, 30]]"]),
    ("map", "index", L12 + "ms = l.map(fn(x: int) -> map[str, int] {\n  return map[str, int] { \"a\": x }\n})\nmm = ms[2]\nprint mm[\"a\"]\nmm[\"b\"] = 8\nprint mm.len()\nother = ms[2]\nprint other.contains_key(\"b\")\nprint other[\"b\"]\n", ["3", "2", "true", "8"]),
    ("str", "index", L12 + "ss = l.map(fn(x: int) -> str {\n  return \"ab\" * x\n})\nt = ss[1]\nprint t[2]\nprint t.len()\nprint t + \"!\"\nk = 0\nu = ss[k]\nprint u[1]\n", ["a", "4", "abab!", "b"]),
    ("int", "index", L12 + "n = l.map(fn(x: int) -> int {\n  return x * 2\n})\nv = n[1]\nprint v + 1\nn[0] = 9\nn[1] += 1\nprint n\nprint n.index_of(6)\nprint n == [9, 5, 6]\n", ["5", "[9, 5, 6]", "2", "true"]),
    ("optional", "index", L12 + "o = l.map(fn(x: int) -> int? {\n  if x == 1 {\n    return nil\n  }\n  return x\n})\nw = o[1]\nprint w\nprint (get w) + 1\nz = o[0]\nprint z\nprint z or 7\n", ["2", "3", "nil", "7"]),
    ("list-of-map-result", "index", L12 + "ll = l.map(fn(x: int) -> [int...] {\n  return [x]\n})\nl3 = ll.map(fn(q: [int...]) -> [[int...]...] {\n  return [q, q]\n})\na = l3[1]\nb = a[0]\nprint b[0]\nb[0] = 40\nprint ll\nprint a\n", ["2", "[[1], [40], [3]]", "[[40], [40]]"]),
]


def check_mapped_elements(ctx, binary, base):
    res = programs.pmap(lambda c: run_impl(binary, base, c[2]), MAPPED_ELEMENT_CASES)
    bad = 0
    for (kind, how, text, exp), (rc, so, se) in zip(MAPPED_ELEMENT_CASES, res):
        got = out_lines(so)
        if rc == 0 and got == exp:
            continue
        bad += 1
        refused = not compiled(rc, so, se)
        ctx.report("map-result-element:" + ("unusable-after-" + how if refused else "observation-differs"),
                   "an element (%s) taken by %s out of the list `map` returned must behave like any value of its type: %s; rc %d"
                   % (kind, how, "the program is refused: " + " ".join(l.strip() for l in (so + se).split("\n") if l.strip().startswith("="))[:300] if refused else diff_msg(exp, got), rc),
                   {"element_kind": kind, "program": text, "expected_stdout_lines(specification)": exp, "observed_stdout_lines": [] if refused else got, "observed_rc": rc,
                    "observed_stderr_tail": (so + se)[-400:] if refused else se[-300:], "how": "save `program` as x.ms in an empty directory and run `mscript run x.ms -q`"})
    return len(MAPPED_ELEMENT_CASES), bad


# --------------------------------------------------------------------------- closures as elements and keys

# A list may hold function values and a map may be keyed by them (the type checker accepts `index_of`, list `==` and the key
# type).  Two closures made by two runs of one factory are two values (they return different results / own different state):
# the sequence [c1, c2] finds c2 at 1, differs from [c2, c1], and a finite map assigned under c1 and under c2 has two
# entries.  One closure under two names, a capture-free function and a closure read back from the list are ONE value each.
MK2 = "mk = fn(n: int) -> fn() -> int {\n  return fn() -> int {\n    return n\n  }\n}\nc1 = mk(1)\nc2 = mk(2)\n"
CTR = "mk = fn() -> fn() -> int {\n  c = 0\n  return fn() -> int {\n    modify c = c + 1\n    return c\n  }\n}\na = mk()\nb = mk()\n"
CLOSURE_ELEMENT_CASES = [
    ("index_of", MK2 + "l: [fn() -> int...] = [c1, c2]\ni = get l.index_of(c2)\nprint i\ng = l[i]\nprint g()\nprint get l.index_of(c1)\n", ["1", "2", "0"]),
    ("index_of", MK2 + "c3 = mk(1)\nl: [fn() -> int...] = [c1, c2]\nprint l.index_of(c3)\nl.push(c3)\nprint l.index_of(c3)\n", ["nil", "2"]),
    ("eq", MK2 + "l: [fn() -> int...] = [c1, c2]\nprint l == [c2, c1]\nprint l == [c1, c2]\nr: [fn() -> int...] = [c2, c1]\nr.reverse()\nprint l == r\nprint l == [c1, c1]\n", ["false", "true", "true", "false"]),
    ("map-key", MK2 + "m = map[fn() -> int, str] { }\nm[c1] = \"one\"\nm[c2] = \"two\"\nprint m.len()\nprint m[c1]\nprint m[c2]\nprint m.contains_key(c2)\nprint m.remove(c1)\nprint m.len()\nprint m[c2]\nprint m.contains_key(c1)\n",
     ["2", "one", "two", "true", "one", "1", "two", "false"]),
    ("map-key", MK2 + "m = map[fn() -> int, int] { }\nm[c1] = 1\nprint m.contains_key(c2)\nprint m[c2]\nprint m.replace(c2, 5)\nprint m.len()\nm[c1] += 10\nprint m[c1]\nprint m[c2]\n", ["false", "nil", "nil", "2", "11", "5"]),
    ("map-key", "mk = fn(n: int) -> fn() -> int {\n  return fn() -> int {\n    return n\n  }\n}\nks: [fn() -> int...] = []\nm = map[fn() -> int, int] { }\nfrom 0 to 6, i {\n  k = mk(i)\n  ks.push(k)\n  m[k] = i * 10\n}\nprint m.len()\nfrom 0 to 6, i {\n  print m[ks[i]]\n}\nprint m.keys().len()\n",
     ["6", "0", "10", "20", "30", "40", "50", "6"]),
    ("index_of", CTR + "l: [fn() -> int...] = [a, b]\na()\na()\nprint l.index_of(b)\nh = l[1]\nprint h()\nprint a()\nprint l == [b, a]\n", ["1", "1", "3", "false"]),
    # the SAME closure under two names, a function that captures nothing, a closure read back from the list: one value each
    ("same-value", MK2 + "c3 = c1\nl: [fn() -> int...] = [c2, c1]\nprint l.index_of(c3)\nprint l == [c2, c3]\nf = fn() -> int {\n  return 7\n}\nfl: [fn() -> int...] = [c1, f]\nprint fl.index_of(f)\ne = fl[1]\nprint fl.index_of(e)\nm = map[fn() -> int, int] { }\nm[c1] = 1\nm[c3] = 2\nm[f] = 3\nprint m.len()\nprint m[c1]\nprint m[e]\n",
     ["1", "true", "1", "1", "2", "2", "3"]),
    ("same-value", CTR + "a2 = a\nl: [fn() -> int...] = [b, a]\na()\nprint l.index_of(a2)\nm = map[fn() -> int, int] { }\nm[a] = 1\na()\nm[a2] = 2\nprint m.len()\nprint m[a]\n", ["1", "1", "2"]),
    ("index_of", "l: [int...] = [1, 2, 3]\nfs = l.map(fn(x: int) -> fn() -> int {\n  return fn() -> int {\n    return x * 10\n  }\n})\ng = fs[2]\nprint fs.index_of(g)\nh = fs[1]\nprint fs.index_of(h)\nprint fs == [fs[0], h, g]\nprint fs == [g, h, g]\n", ["2", "1", "true", "false"]),
]



def check_closure_elements(ctx, binary, base):
    res = programs.pmap(lambda c: run_impl(binary, base, c[1]), CLOSURE_ELEMENT_CASES)
    bad = 0
    for (op, text, exp), (rc, so, se) in zip(CLOSURE_ELEMENT_CASES, res):
        got = out_lines(so)
        if rc == 0 and got == exp:
            continue
        bad += 1
        if not compiled(rc, so, se):
            ctx.report("generator:program-rejected", "a closure-element program was rejected by the compiler: %s" % (so + se)[-300:],
                       {"program": text, "stderr": (so + se)[-900:]}, found_input=False)
            continue
        ctx.report("closures-of-one-factory-are-one-value",
                   "function values as list elements / map keys (%s): closures are told apart by their code only, not by the variables they captured; %s; rc %d"
                   % (op, diff_msg(exp, got), rc),
                   {"operation": op, "program": text, "expected_stdout_lines(specification)": exp, "observed_stdout_lines": got, "observed_rc": rc,
                    "observed_stderr_tail": se[-300:], "how": "save `program` as x.ms in an empty directory and run `mscript run x.ms -q`"})
    return len(CLOSURE_ELEMENT_CASES), bad


# --------------------------------------------------------------------------- filter with a callback that changes the list

# `filter` keeps the elements for which the callback answered true.  A callback may change the list it is filtering (remove,
# overwrite, reverse, push): whatever walk over the changing list the implementation makes, every element of the result is
# a value the callback was GIVEN and accepted -- the program records those itself (`acc`) and compares.
FHEAD = "seen: [int...] = []\nacc: [int...] = []\n"
def _fprog(init, cond, action, keep):
    return ("l: [int...] = %s\n" % init + FHEAD + "r = l.filter(fn(x: int) -> bool {\n  seen.push(x)\n  if %s {\n    %s\n  }\n  k = %s\n  if k {\n    acc.push(x)\n  }\n  return k\n})\nprint r == acc\nprint r.len() == acc.len()\n" % (cond, action, keep))
FILTER_MUTATION_CASES = [
    ("remove-front", _fprog("[1, 2, 3]", "x == 1", "l.remove(0)", "x != 2"), ["true", "true"]),
    ("remove-front", _fprog("[1, 2, 3, 4, 5]", "x == 3", "l.remove(0)", "x % 2 == 1"), ["true", "true"]),
    ("remove-later", _fprog("[1, 2, 3, 4]", "x == 1", "l.remove(2)", "x < 3"), ["true", "true"]),
    ("overwrite-current", _fprog("[1, 2, 3]", "x == 1", "l[0] = 99", "x == 1"), ["true", "true"]),
    ("overwrite-current", _fprog("[1, 2, 3]", "x < 100", "l[seen.len() - 1] = x + 100", "x % 2 == 1"), ["true", "true"]),
    ("reverse", _fprog("[1, 2, 3]", "x == 1", "l.reverse()", "x % 2 == 1"), ["true", "true"]),
    ("push", _fprog("[1, 2, 3]", "x == 1", "l.push(5)", "x % 2 == 1"), ["true", "true"]),
    ("op-assign-current", _fprog("[1, 2, 3]", "x == 2", "l[1] *= 50", "x == 2"), ["true", "true"]),
    ("untouched-control", _fprog("[1, 2, 3]", "x == 9", "l.push(5)", "x != 2"), ["true", "true"]),
]
# lists as elements stay shared with the filtered list (the kept element is the element, not a copy)
FILTER_MUTATION_CASES.append(("shared-element", "ll: [[int...]...] = [[1], [2], [3]]\nr = ll.filter(fn(q: [int...]) -> bool {\n  return q[0] != 2\n})\nrow = r[1]\nrow.push(9)\nprint ll\nprint r\n", ["[[1], [2], [3, 9]]", "[[1], [3, 9]]"]))


def check_filter_mutation(ctx, binary, base):
    res = programs.pmap(lambda c: run_impl(binary, base, c[1]), FILTER_MUTATION_CASES)
    bad = 0
    for (how, text, exp), (rc, so, se) in zip(FILTER_MUTATION_CASES, res):
        got = out_lines(so)
        if rc == 0 and got == exp:
            continue
        bad += 1
        if not compiled(rc, so, se):
            ctx.report("generator:program-rejected", "a filter program was rejected by the compiler: %s" % (so + se)[-300:],
                       {"program": text, "stderr": (so + se)[-900:]}, found_input=False)
            continue
        ctx.report("filter-keeps-element-it-never-tested",
                   "`filter` whose callback changes the list (%s): the result is not the sequence of the elements the callback accepted; %s; rc %d"
                   % (how, diff_msg(exp, got), rc),
                   {"mutation": how, "program": text, "expected_stdout_lines(specification)": exp, "observed_stdout_lines": got, "observed_rc": rc,
                    "observed_stderr_tail": se[-300:], "how": "save `program` as x.ms in an empty directory and run `mscript run x.ms -q`"})
    return len(FILTER_MUTATION_CASES), bad


def first_diff_op(r):
    """kind of the operation that produced the first differing stdout line (best effort)"""
    exp = r.get("spec_lines") or []
    got = r.get("got") or []
    n = 0
    while n < len(exp) and n < len(got) and exp[n] == got[n]:
        n += 1
    # map the line index back to the operation: count the lines every operation prints in the expected run
    PRINTS = {"remove", "iread", "indexof", "len", "eq", "print", "concat", "mget", "replace", "mremove", "haskey", "mlen"}
    line = 0
    probes = r.get("probes") or {}
    for i, op in enumerate(o for o in r["hist"] if o[0] in OBSERVING):
        if op[0] in PRINTS:
            width = 1
            if i in probes:
                # the result of replace / map remove is used again (probe_src): 4 or 5 lines
                width = 4 + (1 if probes[i][0] is not None else 0)
                if line < n < line + width:
                    # it PRINTS like the predicted value but does not behave like it
                    return "map-replace-remove-returns-wrapped-optional"
            if line + width > n:
                return op[0]
            line += width
        elif op[0] in ("keys", "values", "pairs"):
            return op[0]
    return r["hist"][-1][0] if r["hist"] else "empty"


if __name__ == "__main__":
    import random
    rng = random.Random(int(sys.argv[1]) if len(sys.argv) > 1 else 1)
    for _ in range(int(sys.argv[2]) if len(sys.argv) > 2 else 3):
        h = random_history(rng)
        o, f = oracle(h)
        t, u = render_program(h, o)
        print(model_line(h))
        print(t)
        print(expected_lines(o, f, u))
