"""C01: core statements and control flow execute per the language semantics."""
from . import core, coregen, coretie


# ---- constant expressions (outside the code-generator model, which does not fold): literal-only expressions in every
# value position, with the value the language defines (truncating / and %, remainder with the sign of the dividend)
def _cexpr(rng, depth):
    """-> (text, value) of a literal-only int expression; no zero divisor, small values"""
    if depth == 0 or rng.random() < 0.25:
        v = rng.randint(-9, 9)
        return (str(v), v, 9)
    for _ in range(20):
        op = rng.choice(["+", "-", "*", "/", "%", "%", "/"])
        a, av, ap = _cexpr(rng, depth - 1)
        b, bv, bp = _cexpr(rng, depth - 1)
        lvl = 6 if op in "+-" else 7
        if op in "/%" and bv == 0:
            continue
        if op == "+":
            v = av + bv
        elif op == "-":
            v = av - bv
        elif op == "*":
            v = av * bv
        else:
            q = abs(av) // abs(bv) * (1 if (av < 0) == (bv < 0) else -1)
            v = q if op == "/" else av - q * bv
        if abs(v) > 10 ** 6:
            continue
        # a negative literal is a prefix minus: it binds tighter than every infix operator, so no parentheses on the left;
        # as a RIGHT operand it is parenthesised (`3 - -2` is fine, but keep the text unambiguous for the reader)
        ta = "(%s)" % a if ap < lvl else a
        tb = "(%s)" % b if (bp <= lvl or b.startswith("-")) else b
        return ("%s %s %s" % (ta, op, tb), v, lvl)
    v = rng.randint(1, 9)
    return (str(v), v, 9)


def constant_programs(rng, n):
    out = []
    for _ in range(n):
        e = [_cexpr(rng, rng.randint(1, 3)) for _ in range(8)]
        lo, hi = sorted([abs(e[6][1]) % 4, abs(e[7][1]) % 4 + 3])
        src = ("a = %s\nprint a\nprint %s\nf = fn(k: int) -> int {\n  return k * 2\n}\nprint f(%s)\ng = fn() -> int {\n  return %s\n}\nprint g()\n"
               "if %s < %s {\n  print \"lt\"\n} else {\n  print \"ge\"\n}\n" % (e[0][0], e[1][0], e[2][0], e[3][0], e[4][0], e[5][0]))
        exp = [str(e[0][1]), str(e[1][1]), str(e[2][1] * 2), str(e[3][1]), "lt" if e[4][1] < e[5][1] else "ge"]
        # loop bounds written as constant expressions with the value lo / hi
        src += "from %d + (%s) %% 1 to %d - (%s) %% 1 {\n  print \"i\"\n}\nprint \"end\"\n" % (lo, e[6][0], hi, e[7][0])
        exp += ["i"] * (hi - lo) + ["end"]
        out.append((src, exp))
    return out


# ---- identifiers: every name the `ident` rule admits and the keyword list does not reserve is an ordinary variable /
# function / parameter / counter name, also when it BEGINS like a keyword or a literal (`constant`, `nil_count`,
# `assert_pos`, `breakfast`, `B1x`).  A name that IS a literal (`B1` = the bigint literal 1) may be refused with a
# diagnostic; it may never be accepted and then silently read back as the literal.
NAME_GROUPS = [
    ("bigint-literal-shape", ["B1", "B52", "B0x1F", "B1_000"]),
    ("bigint-literal-prefix", ["B1x", "B2_", "B0xZ"]),
    ("assignment-flag-prefix", ["constant", "consts", "exported", "modify_count", "constructor_", "constructed"]),
    ("import-prefix", ["important", "imports"]),
    ("nil-prefix", ["nil_count", "nilx", "nil1"]),
    ("assert-prefix", ["assert_pos", "asserted"]),
    ("break-prefix", ["breakfast", "break_"]),
    ("continue-prefix", ["continue_all", "continues"]),
    ("keyword-prefix", ["iffy", "whiled", "fromage", "toto", "through_", "stepper", "printer", "returned", "classy", "typed",
                        "typeofx", "fnord", "trueish", "falsey", "selfish", "getter", "or_", "mapper", "elsewhere", "is_", "not_",
                        "Bx", "b1", "elsex", "steps"]),
]
NAME_FORMS = [
    ("variable", "{n} = 5\nprint {n}\n{n} = {n} + 1\nprint {n} * 2\nassert {n} == 6\n", ["5", "12"]),
    ("call-statement", "{n} = fn(k: int) -> int {{\n  print k\n  return k\n}}\n{n}(3)\nprint {n}(4) + 1\n", ["3", "4", "5"]),
    ("parameter", "f = fn({n}: int) -> int {{\n  if {n} > 0 {{\n    return {n} + 1\n  }}\n  return {n}\n}}\nprint f(2)\n", ["3"]),
    ("counter", "from 0 to 2, {n} {{\n  print {n}\n}}\n", ["0", "1"]),
    ("call-in-loop", "{n} = fn() {{\n  print 7\n}}\nfrom 0 to 2 {{\n  {n}()\n}}\nw = 0\nwhile w < 1 {{\n  w = w + 1\n  {n}()\n}}\n", ["7", "7", "7"]),
    ("condition", "{n} = true\nif {n} {{\n  print 1\n}}\nwhile {n} {{\n  {n} = false\n}}\nprint {n}\n", ["1", "false"]),
    ("loop-bound", "{n} = 2\nfrom 0 to {n} {{\n  print 9\n}}\nfrom {n} through {n} step {n} {{\n  print 8\n}}\n", ["9", "9", "8"]),
    ("recursion", "{n} = fn(k: int) -> int {{\n  if k == 0 {{\n    return 0\n  }}\n  return self(k - 1) + 2\n}}\nprint {n}(3)\n", ["6"]),
    ("captured", "{n} = 1\ng = fn() -> int {{\n  modify {n} = {n} + 1\n  return {n}\n}}\nprint g()\nprint {n}\n", ["2", "2"]),
]


def name_programs():
    out = []
    for group, names in NAME_GROUPS:
        for n in names:
            for form, tmpl, exp in NAME_FORMS:
                out.append((group, n, form, tmpl.format(n=n), exp))
    return out


# ---- string literals: `\\` and `\"` are the escapes of a backslash and of a quote wherever they stand in the literal,
# also as its LAST character(s); the literal ends at the first quote that is not escaped
STRING_VALUES = ["\\", "end\\", "C:\\dir\\", "\\\\", "a\\b", "q\"", "\"", "\\\"", "a\"\\", "x y\\", "\u00e9\\", "\\ \\", ""]


def string_programs():
    out = []
    for v in STRING_VALUES:
        kind = "ends-with-escaped-backslash" if v.endswith("\\") else "escaped-quote" if '"' in v else "escaped-backslash" if "\\" in v else "plain"
        lit = '"%s"' % v.replace("\\", "\\\\").replace('"', '\\"')
        out.append((kind, "print", "print %s\nprint \"after\"\n" % lit, [v, "after"]))
        out.append((kind, "two-on-a-line", "print %s + \"x\" + %s\n" % (lit, lit), [v + "x" + v]))
        out.append((kind, "variable", "s = %s\nt = s + \"|\" + s\nprint t\nprint s == %s\n" % (lit, lit), [v + "|" + v, "true"]))
        out.append((kind, "argument", "f = fn(a: str, b: str) -> str {\n  return a + %s + b\n}\nprint f(%s, \"z\")\n" % (lit, lit), [v + v + "z"]))
        out.append((kind, "condition", "if %s == \"other\" {\n  print \"eq\"\n} else {\n  print \"ne\"\n}\n" % lit, ["ne"]))
    return out


# ---- the head of a `from` loop (Python statement of the semantics, the one Lang/Eval.v SFrom states): BOTH bounds are
# evaluated once, left to right, in the scope that contains the loop, BEFORE the counter receives its first value; then the
# counter is the lower bound (the existing variable when the name collides with a variable of the function, otherwise a
# loop-local that is gone after the loop); the step is evaluated after every iteration INSIDE the loop, where a name equal
# to the counter's name means the counter.  The generator of coregen keeps the counter's name out of its own bounds and
# step; here it is in them, in every frame kind.
HEAD_EXPRS = {      # text (c = the counter's name, m = another int variable) -> value
    "0": lambda c, m: 0, "1": lambda c, m: 1, "3": lambda c, m: 3, "2": lambda c, m: 2, "m": lambda c, m: m, "c": lambda c, m: c,
    "c + 1": lambda c, m: c + 1, "c + 3": lambda c, m: c + 3, "c * 2": lambda c, m: c * 2, "m + c": lambda c, m: m + c,
    "c - 1": lambda c, m: c - 1, "rd()": lambda c, m: c, "rd() + 2": lambda c, m: c + 2,
}
HEAD_FRAMES = ["module", "module-block", "function-local", "function-parameter", "function-captured", "function-block"]


def _names_counter(t):
    return "c" in t or "rd()" in t


def loop_head_semantics(frame, a, b, incl, step, c0, m, late_upper_bound=False):
    """-> the lines the program prints.  late_upper_bound=True states the behaviour of the recorded defect instead (the
    upper bound is evaluated after the counter has been given its start value)"""
    local_counter = frame == "function-captured"            # the name is not a variable of the function: loop-local counter
    lo = HEAD_EXPRS[a](c0, m)
    if late_upper_bound:
        # what the name / the reader sees once the counter is stored: the counter itself, except that a reader function
        # (which captured the OUTER variable) still sees the outer variable when the counter is a separate loop-local
        seen = lambda t: c0 if (local_counter and "rd()" in t) else lo
        hi = HEAD_EXPRS[b](seen(b), m)
    else:
        hi = HEAD_EXPRS[b](c0, m)
    lines = []
    c = lo
    outer = c0
    n = 0
    while (c <= hi) if incl else (c < hi):
        lines.append(str(c))
        if not local_counter:
            outer = c
        d = 1 if step is None else HEAD_EXPRS[step](c if not (local_counter and "rd()" in step) else c0, m)
        assert d > 0
        c += d
        n += 1
        assert n < 40
    after = c0 if local_counter else c
    lines.append("after %d" % after)
    return lines


def loop_head_source(frame, a, b, incl, step, c0, m):
    head = "from %s %s %s%s, c {" % (a, "through" if incl else "to", b, "" if step is None else " step " + step)
    uses_rd = any(t is not None and "rd()" in t for t in (a, b, step))
    rd = "rd = fn() -> int {\n  return c\n}\n" if uses_rd else ""
    ind = lambda n, txt: "".join("  " * n + l + "\n" for l in txt.rstrip("\n").split("\n"))
    loop = "%s\n  print c\n}\nprint \"after \" + c\n" % head
    if frame == "module":
        return "c = %d\nm = %d\n%s%s" % (c0, m, rd, loop)
    if frame == "module-block":
        return "c = %d\nm = %d\n%sif m > 0 {\n%s}\n" % (c0, m, rd, ind(1, loop))
    if frame == "function-local":
        return "m = %d\nf = fn() {\n  c = %d\n%s%s}\nf()\n" % (m, c0, ind(1, rd) if rd else "", ind(1, loop))
    if frame == "function-parameter":
        return "m = %d\nf = fn(c: int) {\n%s%s}\nf(%d)\n" % (m, ind(1, rd) if rd else "", ind(1, loop), c0)
    if frame == "function-captured":
        return "c = %d\nm = %d\n%sf = fn() {\n%s}\nf()\n" % (c0, m, rd, ind(1, loop))
    if frame == "function-block":
        return "m = %d\nf = fn() {\n  c = %d\n%s  while true {\n%s    break\n  }\n}\nf()\n" % (m, c0, ind(1, rd) if rd else "", ind(2, loop))
    raise ValueError(frame)


_HV = lambda x: ('var', x)
_HI = lambda n: ('int', n)
_HCALL = ('call', ('var', 'rd'), [])
HEAD_TREES = {
    "0": _HI(0), "1": _HI(1), "2": _HI(2), "3": _HI(3), "m": _HV('m'), "c": _HV('c'),
    "c + 1": ('bin', '+', _HV('c'), _HI(1)), "c + 3": ('bin', '+', _HV('c'), _HI(3)), "c * 2": ('bin', '*', _HV('c'), _HI(2)),
    "m + c": ('bin', '+', _HV('m'), _HV('c')), "c - 1": ('bin', '-', _HV('c'), _HI(1)), "rd()": _HCALL, "rd() + 2": ('bin', '+', _HCALL, _HI(2)),
}


def loop_head_tree(frame, a, b, incl, step, c0, m):
    """the same program as loop_head_source, as a tree of the Coq reference semantics (Lang/Eval.v): used to check that the
    Python statement above and the Coq one say the same thing"""
    collide = frame != "function-captured"
    loop = [('from', HEAD_TREES[a], HEAD_TREES[b], incl, HEAD_TREES[step] if step is not None else None, 'c', collide, [('print', _HV('c'))]),
            ('print', ('bin', '+', ('str', 'after '), _HV('c')))]
    uses_rd = any(t is not None and "rd()" in t for t in (a, b, step))
    rd = [('asg', 'rd', None, ('fn', [], 'int', [('ret', _HV('c'))]))] if uses_rd else []
    cd, md = ('asg', 'c', None, _HI(c0)), ('asg', 'm', None, _HI(m))
    callf = ('expr', ('call', _HV('f'), []))
    if frame == "module":
        t = [cd, md] + rd + loop
    elif frame == "module-block":
        t = [cd, md] + rd + [('if', ('bin', '>', _HV('m'), _HI(0)), loop)]
    elif frame == "function-local":
        t = [md, ('asg', 'f', None, ('fn', [], None, [cd] + rd + loop)), callf]
    elif frame == "function-parameter":
        t = [md, ('asg', 'f', None, ('fn', [('c', 'int')], None, rd + loop)), ('expr', ('call', _HV('f'), [_HI(c0)]))]
    elif frame == "function-captured":
        t = [cd, md] + rd + [('asg', 'f', None, ('fn', [], None, loop)), callf]
    else:
        t = [md, ('asg', 'f', None, ('fn', [], None, [cd] + rd + [('while', ('bool', True), loop + [('break',)])])), callf]
    return [coregen.Gen.norm_s(x) for x in t]


def loop_head_programs():
    """every frame kind x {the counter's name in the lower bound / the upper bound / the step / nowhere} x to / through"""
    heads = []
    for a in ("0", "c", "c - 1", "1"):
        for b in ("3", "m", "c", "c + 3", "c * 2", "m + c", "rd()", "rd() + 2"):
            for step in (None, "2", "m", "c + 1", "c", "rd()"):
                if step in ("c", "rd()") and a in ("0", "c - 1"):
                    continue                # the step has to be positive: the counter starts at >= 1 in these
                heads.append((a, b, step))
    out = []
    for i, (a, b, step) in enumerate(heads):
        for j, frame in enumerate(HEAD_FRAMES):
            incl = (i + j) % 2 == 1
            c0, m = (2, 4) if (i + j) % 3 else (1, 5)
            try:
                exp = loop_head_semantics(frame, a, b, incl, step, c0, m)
                late = loop_head_semantics(frame, a, b, incl, step, c0, m, late_upper_bound=True)
            except AssertionError:
                continue
            where = [n for n, t in (("lower-bound", a), ("upper-bound", b), ("step", step)) if t is not None and _names_counter(t)]
            out.append({"frame": frame, "head": (a, b, incl, step), "mentions": where, "src": loop_head_source(frame, a, b, incl, step, c0, m),
                        "exp": exp, "late": late if late != exp else None, "tree": loop_head_tree(frame, a, b, incl, step, c0, m)})
    return out


# the counter's name means something of ANOTHER type outside the loop (a function, a string): in the bounds it is that outer
# variable, in the step it is the counter (an int).  (form, program, lines | None = the program is ill-typed: a diagnostic)
HEAD_TYPE_CASES = [
    ("upper-bound-calls-outer-function", "limit = fn() -> int {\n  return 3\n}\nf = fn() {\n  from 0 to limit(), limit {\n    print limit\n  }\n}\nf()\nprint \"done\"\n",
     ["0", "1", "2", "done"], "upper-bound"),
    ("lower-bound-calls-outer-function", "base = fn() -> int {\n  return 1\n}\nf = fn() {\n  from base() to 3, base {\n    print base\n  }\n  print base()\n}\nf()\nprint \"done\"\n",
     ["1", "2", "1", "done"], "lower-bound"),
    ("both-bounds-call-outer-function", "lim = fn() -> int {\n  return 2\n}\nf = fn() {\n  from lim() - 2 through lim(), lim {\n    print lim\n  }\n}\nf()\nprint \"done\"\n",
     ["0", "1", "2", "done"], "upper-bound"),
    ("upper-bound-outer-string-length", "w = \"abc\"\nf = fn() {\n  from 0 to w.len(), w {\n    print w\n  }\n  print w\n}\nf()\n",
     ["0", "1", "2", "abc"], "upper-bound"),
    ("step-names-fresh-counter", "from 0 to 6 step j + 1, j {\n  print j\n}\nprint \"done\"\n", ["0", "1", "3", "done"], "step"),
    ("step-names-fresh-counter-in-function", "f = fn(n: int) -> int {\n  t = 0\n  from 1 through n step j, j {\n    t = t + j\n  }\n  return t\n}\nprint f(20)\nprint f(3)\n", ["31", "3"], "step"),
    ("step-names-fresh-counter-in-block", "k = 2\nwhile k > 0 {\n  k = k - 1\n  from 1 to 5 step j * 0 + k + 1, j {\n    print j\n  }\n}\n", ["1", "3", "1", "2", "3", "4"], "step"),
    ("step-calls-counter", "s = fn() -> int {\n  return 2\n}\nf = fn() {\n  from 0 to 6 step s(), s {\n    print s\n  }\n}\nf()\nprint \"done\"\n", None, "step"),
    ("step-calls-counter-through", "s = fn() -> int {\n  return 2\n}\nf = fn() -> int {\n  t = 0\n  from 1 through 5 step s() + 1, s {\n    t = t + s\n  }\n  return t\n}\nprint f()\n", None, "step"),
    # (well-typed under the reading "the name is the counter": int + str is a string; under the other reading the step would be 3)
    ("step-concatenates-counter", "s = \"ab\"\nf = fn() {\n  from 0 to 6 step (s + \"c\").len(), s {\n    print s\n  }\n}\nf()\n", ["0", "2", "4"], "step"),
]


# ---- a variable that holds a function which captured THAT variable (the way named and mutual recursion is written:
# placeholder, then the real function; `self` only reaches the function itself): the frame that owns the variable goes on
# executing ordinary statements - loops, list literals, indexing - after the calls have returned
SELF_REF_SETUPS = [
    ("named-recursion", "{f} = fn(n: int) -> int {{\n  return 0\n}}\n{f} = fn(n: int) -> int {{\n  if n <= 0 {{\n    return 0\n  }}\n  return {f}(n - 1) + 2\n}}\nprint {f}(3)\n", ["6"]),
    ("mutual-recursion", "{f} = fn(n: int) -> int {{\n  return 0\n}}\nod = fn(n: int) -> int {{\n  if n == 0 {{\n    return 0\n  }}\n  return {f}(n - 1)\n}}\n"
                         "{f} = fn(n: int) -> int {{\n  if n == 0 {{\n    return 1\n  }}\n  return od(n - 1)\n}}\nprint {f}(4)\nprint od(4)\n", ["1", "0"]),
    ("not-yet-called", "{f} = fn(n: int) -> int {{\n  return 0\n}}\n{f} = fn(n: int) -> int {{\n  if n <= 0 {{\n    return 0\n  }}\n  return {f}(n - 1) + 2\n}}\n", []),
]
SELF_REF_TRIGGERS = [
    ("from-loop", "anonymous", "from 0 to 2 {\n  print \"tick\"\n}\n", ["tick", "tick"]),
    ("from-loop", "named", "from 0 to 2, i {\n  print i\n}\n", ["0", "1"]),
    ("from-loop", "stepped-through", "from 1 through 5 step 2, i {\n  print i\n}\n", ["1", "3", "5"]),
    ("from-loop", "left-by-break", "from 0 to 9, i {\n  if i == 1 {\n    break\n  }\n  print i\n}\n", ["0"]),
    ("from-loop", "calls-it", "from 0 to 2, i {\n  print {f}(i)\n}\n", None),
    ("list-literal", "literal", "l: [int...] = [1, 2]\nprint l\n", ["[1, 2]"]),
    ("list-literal", "of-calls", "l: [int...] = [{f}(1), {f}(2)]\nprint l\n", None),
    ("variable-index", "list", "xs: [int...] = [10, 20, 30]\nk = 1\nprint xs[k]\n", ["20"]),
    ("variable-index", "string", "w = \"hey\"\nk = 2\nprint w[k]\n", ["y"]),
    ("other", "while-if", "k = 0\nwhile k < 2 {\n  k = k + 1\n  if k == 2 {\n    print k\n  }\n}\n", ["2"]),
]


def self_reference_programs():
    out = []
    ind = lambda n, txt: "".join("  " * n + l + "\n" for l in txt.rstrip("\n").split("\n")) if txt else ""
    for sname, setup, sexp in SELF_REF_SETUPS:
        for kind, tname, trig, texp in SELF_REF_TRIGGERS:
            if texp is None:
                if sname == "named-recursion":
                    texp = ["0", "2"] if kind == "from-loop" else ["[2, 4]"]
                elif sname == "mutual-recursion":
                    texp = ["1", "0"] if kind == "from-loop" else ["[0, 1]"]
                else:
                    texp = ["0", "2"] if kind == "from-loop" else ["[2, 4]"]
            body = setup.format(f="rec") + trig.replace("{f}", "rec")
            exp = sexp + texp
            out.append((kind, sname, tname, "module", body + "print \"done\"\n", exp + ["done"]))
            out.append((kind, sname, tname, "function", "run = fn() -> int {\n%s  return 7\n}\nprint run()\nprint \"done\"\n" % ind(1, body), exp + ["7", "done"]))
            out.append((kind, sname, tname, "block", "g = 1\nif g == 1 {\n%s}\nprint \"done\"\n" % ind(1, body), exp + ["done"]))
    return out


# ---- values the Core generator holds constant: indexes that go below zero at run time (the semantics prescribes the
# index-out-of-range failure at exactly that statement) and integers compared with literals beyond 32 bits (such a literal
# is a bigint; the comparison is mathematical).  Fixed programs, Python statement of the expected lines.
def boundary_value_programs():
    """-> [(id, source, expected stdout lines, must_fail)]"""
    out = []
    for what, decl, elems in (("list", "xs: [str...] = [\"ann\", \"bob\", \"cy\"]", ["ann", "bob", "cy"]), ("str", "xs = \"abc\"", ["a", "b", "c"])):
        out.append(("index-counts-down-below-zero/" + what, decl + "\ni = 2\nwhile i > -3 {\n  print xs[i]\n  i = i - 1\n}\nprint \"never\"\n", [elems[2], elems[1], elems[0]], True))
        out.append(("index-computed-negative/" + what, decl + "\ni = 2\nprint xs[i - 2]\nprint xs[i - 3]\nprint \"never\"\n", [elems[0]], True))
        out.append(("index-negative-in-function/" + what, decl + "\npick = fn(k: int) -> str {\n  return xs[k]\n}\nprint pick(1)\nprint pick(0 - 1)\nprint \"never\"\n", [elems[1]], True))
        out.append(("index-at-length/" + what, decl + "\ni = 1\nwhile i < 9 {\n  print xs[i]\n  i = i + 1\n}\nprint \"never\"\n", [elems[1], elems[2]], True))
        out.append(("index-negative-two/" + what, decl + "\nk = 0 - 2\nprint \"start\"\nprint xs[k]\nprint \"never\"\n", ["start"], True))
    out.append(("index-write-negative/list", "ys: [int...] = [1, 2, 3]\nk = 0 - 1\nprint \"start\"\nys[k] = 9\nprint ys\n", ["start"], True))
    big = [3000000000, -3000000000, 4294967301, 4294967291, 2147483648]
    small = [5, -5, 2147483647, 0]
    ops = [("<", lambda a, b: a < b), ("<=", lambda a, b: a <= b), (">", lambda a, b: a > b), (">=", lambda a, b: a >= b), ("==", lambda a, b: a == b), ("!=", lambda a, b: a != b)]
    lit = lambda v: str(v) if v >= 0 else "(0 - %d)" % -v
    for b in big:
        src, exp = "b = %s\n" % (str(b) if b >= 0 else "0 - %d" % -b), []
        for a in small:
            src += "a = %s\n" % lit(a)
            for sym, f in ops:
                src += "print a %s b\nprint b %s a\n" % (sym, sym)
                exp += [str(f(a, b)).lower(), str(f(b, a)).lower()]
        out.append(("int-compared-with-a-literal-beyond-32-bits/%d" % b, src, exp, False))
    out.append(("loop-bounded-by-a-big-literal", "limit = 3000000000\nn = 0\nwhile n < limit {\n  n = n + 1\n  if n == 9 {\n    break\n  }\n}\nprint n\n"
                "f = fn(x: int) -> str {\n  if x <= 4000000000 {\n    return \"ok\"\n  }\n  return \"too big\"\n}\nprint f(5)\nprint f(2147483647)\n"
                "c = 0\nfrom 0 to 3 {\n  if c < limit {\n    c = c + 1\n  }\n}\nprint c\n", ["9", "ok", "ok", "3"], False))
    return out


def run(ctx):
    ok = core.coq_props(ctx, "Props/C01.v")
    binary = core.build_repo()
    depth = 2 if ctx.quick() else 3
    projs = []
    for i, tree in enumerate(coregen.skeleton_programs(depth)):
        tree = coregen.assign_spans(tree, "main.ms")
        projs.append({"name": "skeleton%d" % i, "files": {"main.ms": coregen.render_ms(tree)}, "entry": "main.ms", "tree": tree, "kind": "skeleton"})
    n_skel = len(projs)
    if ctx.quick():
        extra = coregen.skeleton_programs(3)
        ctx.rng.shuffle(extra)
        for i, tree in enumerate(extra[:20]):
            tree = coregen.assign_spans(tree, "main.ms")
            projs.append({"name": "skeleton3-%d" % i, "files": {"main.ms": coregen.render_ms(tree)}, "entry": "main.ms", "tree": tree, "kind": "skeleton"})
    # operator precedence / associativity / prefix operators: every ordered pair of operators, both tree shapes,
    # written with only the parentheses the precedence table requires
    n_prec = 0
    coregen.MINIMAL_PARENS = True
    try:
        for i, tree in enumerate(coregen.precedence_programs()):
            tree = coregen.assign_spans([coregen.Gen.norm_s(s) for s in tree], "main.ms")
            projs.append({"name": "precedence%d" % i, "files": {"main.ms": coregen.render_ms(tree)}, "entry": "main.ms", "tree": tree, "kind": "skeleton", "minimal_parens": True})
            n_prec += 1
    finally:
        coregen.MINIMAL_PARENS = False
    for i, tree in enumerate(coregen.boolean_chain_programs()):
        tree = coregen.assign_spans([coregen.Gen.norm_s(s) for s in tree], "main.ms")
        projs.append({"name": "boolchain%d" % i, "files": {"main.ms": coregen.render_ms(tree)}, "entry": "main.ms", "tree": tree, "kind": "skeleton"})
    projs += coretie.gen_programs(ctx, 220 if ctx.quick() else 4000, max_depth=3)
    projs += coretie.gen_programs(ctx, 40 if ctx.quick() else 800, max_depth=5, expr_depth=2)
    results = coretie.tie_all(ctx, binary, projs, "c01")
    st = coretie.report_results(ctx, binary, results, "c01")
    for r in results:
        if r["status"] == "rejected" and r["proj"].get("kind") == "skeleton":
            ctx.report("skeleton-rejected", "a skeleton program is rejected by the compiler: %s" % r.get("stderr", "")[-300:],
                       {"project": coretie.slim(r["proj"])}, found_input=False)
    # a generated program is a well-typed program of the core language: the compiler has to accept it
    for r in results:
        if r["status"] == "rejected" and r["proj"].get("kind") != "skeleton":
            ctx.report("valid-program-rejected", "a generated well-typed core program is rejected by the compiler: %s\n%s"
                       % (r.get("stderr", "")[-300:], r["proj"]["files"]["main.ms"][:500]),
                       {"program": r["proj"]["files"]["main.ms"], "stderr": r.get("stderr", ""), "how": "mscript run main.ms -q"})
    from . import programs
    cbase = ctx.mktemp()

    def one_src(src):
        d = programs.materialize({"files": {"main.ms": src}}, cbase)
        return programs.run_bin(binary, ["run", "main.ms", "-q"], d)
    nps = name_programs()
    n_names = 0
    for (group, n, form, src, exp), (rc, out, err) in zip(nps, programs.pmap(one_src, [c[3] for c in nps])):
        n_names += 1
        got = out.split("\n")[:-1]
        if rc == 0 and got == exp:
            continue
        refused = rc != 0 and "Did not compile" in (out + err)      # diagnostics only: nothing was run
        if group == "bigint-literal-shape" and refused:
            continue        # the name is a literal of the language: refusing it as a name, with a diagnostic, is in order
        ctx.report("identifier:" + group, "the identifier `%s` (%s) is %s: printed %r (exit %d), the language defines %r: %s"
                   % (n, form, "refused" if refused else "misread", [] if refused else got, rc, exp, (out + err)[-300:].replace("\n", " ")),
                   {"program": src, "expected": exp, "observed": got, "rc": rc, "stderr": err[-600:], "how": "mscript run main.ms -q"})
    sps = string_programs()
    n_strings = 0
    for (kind, form, src, exp), (rc, out, err) in zip(sps, programs.pmap(one_src, [c[2] for c in sps])):
        n_strings += 1
        got = out.split("\n")[:-1]
        if rc != 0 or got != exp:
            ctx.report("string-literal:" + kind, "a string literal with escaped backslashes / quotes (%s): printed %r (exit %d), the language defines %r: %s"
                       % (form, [] if "Did not compile" in (out + err) else got, rc, exp, (out + err)[-300:].replace("\n", " ")),
                       {"program": src, "expected": exp, "observed": got, "rc": rc, "stderr": err[-600:], "how": "mscript run main.ms -q"})
    # the head of a from loop: the counter's name in its own bounds and step
    KNOWN_HEAD = "loop-head:upper-bound-evaluated-after-counter-start"
    lhs = loop_head_programs()
    n_heads = 0
    for c, (rc, out, err) in zip(lhs, programs.pmap(one_src, [c["src"] for c in lhs])):
        n_heads += 1
        got = out.split("\n")[:-1]
        if rc == 0 and got == c["exp"]:
            continue
        refused = rc != 0 and "Did not compile" in (out + err)
        if rc == 0 and c["late"] is not None and got == c["late"]:
            cls = KNOWN_HEAD            # exactly the recorded behaviour: the upper bound saw the counter's start value
        else:
            cls = "loop-head:" + ("+".join(c["mentions"]) or "counter-name-not-in-head")
        a, b, incl, step = c["head"]
        ctx.report(cls, "`from %s %s %s%s, c` (%s; the counter's name occurs in: %s) %s, the language defines %r: %s"
                   % (a, "through" if incl else "to", b, "" if step is None else " step " + step, c["frame"], ", ".join(c["mentions"]) or "-",
                      "is refused" if refused else "printed %r (exit %d)" % (got, rc), c["exp"], (out + err)[-300:].replace("\n", " ") if rc != 0 else ""),
                   {"program": c["src"], "expected": c["exp"], "observed": got, "rc": rc, "stderr": err[-600:], "how": "mscript run main.ms -q",
                    "semantics": "both bounds are evaluated, left to right, before the counter receives its first value; the step is evaluated after every iteration inside the loop"})
    # the Python statement of the loop head says what the Coq reference semantics (Lang/Eval.v, SFrom) says: same lines on every
    # one of these programs (rendered from the same tree; a difference is a defect of THIS check, not of the compiler)
    core_drv = coretie.drivers()[0]
    import os

    def one_ref(c):
        d = os.path.join(cbase, "ref%d" % id(c))
        os.makedirs(d, exist_ok=True)
        m, e = coretie.run_core_model(core_drv, {"tree": coregen.assign_spans(c["tree"], "main.ms")}, d)
        return (None, e) if m is None else (["\n".join(m["eval_out"]).split("\n") if m["eval_out"] else [], m["eval_result"]], None)
    n_ref = 0
    for c, (ref, e) in zip(lhs, programs.pmap(one_ref, lhs)):
        if ref is not None and ref[0] == c["exp"] and ref[1] is not None and ref[1][0] == "done":
            n_ref += 1
        else:
            ctx.report("loop-head-oracle:python-differs-from-reference-semantics", "the Python statement of the from-loop head and Lang/Eval.v disagree on %r (%s): python %r, Lang/Eval.v %r %s"
                       % (c["head"], c["frame"], c["exp"], ref, e or ""), {"program": c["src"], "python": c["exp"], "reference": ref}, found_input=False)
    ctx.cov["loop_head_programs_python_equals_reference_semantics"] = n_ref
    for (form, src, exp, where), (rc, out, err) in zip(HEAD_TYPE_CASES, programs.pmap(one_src, [c[1] for c in HEAD_TYPE_CASES])):
        n_heads += 1
        got = out.split("\n")[:-1]
        refused = rc != 0 and "Did not compile" in (out + err)
        if (exp is None and refused) or (exp is not None and rc == 0 and got == exp):
            continue
        if where == "upper-bound" and not refused and rc > 0 and got == []:
            cls = KNOWN_HEAD            # the bound expression ran on the counter's start value (an int) and failed there
        elif where == "step":
            cls = "loop-head:step-resolved-outside-the-loop"
        else:
            cls = "loop-head:" + where
        ctx.report(cls, "the counter's name means something else (a variable of another type, or nothing) outside the loop (%s): %s, the language defines %s: %s"
                   % (form, "the program is refused" if refused else "printed %r (exit %d)" % (got, rc),
                      "a compile-time diagnostic (in the step the name is the counter, an int)" if exp is None else repr(exp), (out + err)[-300:].replace("\n", " ")),
                   {"program": src, "expected": exp, "observed": got, "rc": rc, "stderr": err[-600:], "how": "mscript run main.ms -q"})
    ctx.cov["loop_head_programs"] = n_heads
    # a function stored in the variable it captured; its frame goes on with loops / list literals / indexing
    srs = self_reference_programs()
    for (kind, sname, tname, frame, src, exp), (rc, out, err) in zip(srs, programs.pmap(one_src, [c[4] for c in srs])):
        got = out.split("\n")[:-1]
        if rc == 0 and got == exp:
            continue
        refused = rc != 0 and "Did not compile" in (out + err)
        ctx.report("function-in-its-own-captured-variable:" + kind, "a variable holds a function that captured this variable (%s), then its frame (%s) runs %s (%s): %s, the language defines %r: %s"
                   % (sname, frame, kind, tname, "the program is refused" if refused else "printed %r (exit %d)" % (got, rc), exp, (out + err)[-300:].replace("\n", " ")),
                   {"program": src, "expected": exp, "observed": got, "rc": rc, "stderr": err[-600:], "how": "mscript run main.ms -q"})
    ctx.cov["self_reference_programs"] = len(srs)
    bvs = boundary_value_programs()
    for (cid, src, exp, must_fail), (rc, out, err) in zip(bvs, programs.pmap(one_src, [c[1] for c in bvs])):
        got = out.split("\n")[:-1]
        refused = rc != 0 and "Did not compile" in (out + err)
        if not refused and got == exp and ((rc != 0) == must_fail):
            continue
        ctx.report("boundary-value:" + cid.split("/")[0], "%s: %s, the language defines %r and %s: %s"
                   % (cid, "the program is refused" if refused else "printed %r (exit %d)" % (got[-6:], rc), exp[-6:], "a failure at that statement (non-zero exit)" if must_fail else "normal termination",
                      (out + err)[-300:].replace("\n", " ") if rc != 0 else ""),
                   {"program": src, "expected": exp, "expected_failure": must_fail, "observed": got, "rc": rc, "stderr": err[-600:], "how": "mscript run main.ms -q"})
    ctx.cov["boundary_value_programs"] = len(bvs)
    ctx.cov["identifier_programs"] = n_names
    ctx.cov["string_literal_programs"] = n_strings
    cps = constant_programs(ctx.rng, 60 if ctx.quick() else 1500)

    def one_c(c):
        d = programs.materialize({"files": {"main.ms": c[0]}}, cbase)
        return programs.run_bin(binary, ["run", "main.ms", "-q"], d)
    n_const = 0
    for (src, exp), (rc, out, err) in zip(cps, programs.pmap(one_c, cps)):
        if "Did not compile" in err and "guaranteed to fail" in (out + err):
            continue
        n_const += 1
        got = out.split("\n")[:-1]
        if rc != 0 or got != exp:
            ctx.report("semantics:constant-expression", "literal-only expressions in value positions: printed %r (exit %d), the language defines %r: %s" % (got, rc, exp, (out + err)[-200:].replace("\n", " ")),
                       {"program": src, "expected": exp, "observed": got, "rc": rc, "how": "mscript run main.ms -q"})
    ctx.cov["constant_expression_programs"] = n_const
    ctx.cov["evaluations"] = st["programs"] + n_const + n_names + n_strings + n_heads + len(srs) + len(bvs)
    ctx.cov["distinct_nontrivial"] = len(set(r["proj"]["files"]["main.ms"] for r in results if r["status"] == "ran" and r.get("steps", 0) > 30))
    ctx.cov["rule"] = ("programs = all statement skeletons to nesting depth %d (each as a function body called with 3 data variants and at module level) "
                       "+ random well-typed Core programs (depth <= 3 and <= 5); non-trivial = distinct program whose real run executes > 30 instructions; "
                       "plus (Python oracle) identifiers that begin like a keyword / literal in 9 positions, string literals with escaped backslashes / quotes, "
                       "from-loop heads whose bounds / step mention the counter's name in 6 frame kinds, and frames that hold a function in the variable it captured" % depth)
    ctx.cov["exhaustive"] = True
    ctx.cov["skeleton_programs"] = n_skel
    ctx.cov["precedence_programs"] = n_prec
    ctx.cov["statistics"] = st
    ctx.cov["traces_validated_against_impl"] = st["t2_agree"]
    ctx.sample({"program": projs[n_skel + 1]["files"]["main.ms"][:800]})
    ctx.cov["trusted_base"] = ["Coq 8.16.1 kernel; no axioms", "extraction ExtrOcamlBasic + extract/core_driver.ml, vm_driver.ml glue",
                               "hooks H1/H3", "generator vlib/coregen.py renders one tree as .ms text and as model input"]
    ctx.assumptions = ["the reference semantics Lang/Eval.v is the formal reading of the language semantics",
                       "simulation theorems cover the expression fragment; statement-level agreement is established by the T1/T2/T3 correspondences"]
    spec_failed = any(v[0].startswith(("semantics:", "identifier:", "string-literal:", "valid-program-rejected", "loop-head:", "function-in-its-own-captured-variable:")) for v in ctx.viol)
    core.proof_or_search(ctx, ok, ["C01 obligations"], spec_failed)
