"""C01: core statements and control flow execute per the language semantics."""
from . import core, coregen, coretie


# ---- constant expressions (outside the code-generator model, which does not fold): literal-only expressions in every
# value position, with the value the language defines (truncating / and %, remainder with the sign of the dividend)
def _cexpr(rng, depth):
    """-> (text, value) of a literal-only int expression; no zero divisor, small values"""
    if depth == 0 or rng.random() < 0.25:
        v = rng.randint(-9, 9)
        return (str(v), v, 9)
    for _ in range(20):
        op = rng.choice(["+", "-", "*", "/", "%", "%", "/"])
        a, av, ap = _cexpr(rng, depth - 1)
        b, bv, bp = _cexpr(rng, depth - 1)
        lvl = 6 if op in "+-" else 7
        if op in "/%" and bv == 0:
            continue
        if op == "+":
            v = av + bv
        elif op == "-":
            v = av - bv
        elif op == "*":
            v = av * bv
        else:
            q = abs(av) // abs(bv) * (1 if (av < 0) == (bv < 0) else -1)
            v = q if op == "/" else av - q * bv
        if abs(v) > 10 ** 6:
            continue
        # a negative literal is a prefix minus: it binds tighter than every infix operator, so no parentheses on the left;
        # as a RIGHT operand it is parenthesised (`3 - -2` is fine, but keep the text unambiguous for the reader)
        ta = "(%s)" % a if ap < lvl else a
        tb = "(%s)" % b if (bp <= lvl or b.startswith("-")) else b
        return ("%s %s %s" % (ta, op, tb), v, lvl)
    v = rng.randint(1, 9)
    return (str(v), v, 9)


def constant_programs(rng, n):
    out = []
    for _ in range(n):
        e = [_cexpr(rng, rng.randint(1, 3)) for _ in range(8)]
        lo, hi = sorted([abs(e[6][1]) % 4, abs(e[7][1]) % 4 + 3])
        src = ("a = %s\nprint a\nprint %s\nf = fn(k: int) -> int {\n  return k * 2\n}\nprint f(%s)\ng = fn() -> int {\n  return %s\n}\nprint g()\n"
               "if %s < %s {\n  print \"lt\"\n} else {\n  print \"ge\"\n}\n" % (e[0][0], e[1][0], e[2][0], e[3][0], e[4][0], e[5][0]))
        exp = [str(e[0][1]), str(e[1][1]), str(e[2][1] * 2), str(e[3][1]), "lt" if e[4][1] < e[5][1] else "ge"]
        # loop bounds written as constant expressions with the value lo / hi
        src += "from %d + (%s) %% 1 to %d - (%s) %% 1 {\n  print \"i\"\n}\nprint \"end\"\n" % (lo, e[6][0], hi, e[7][0])
        exp += ["i"] * (hi - lo) + ["end"]
        out.append((src, exp))
    return out


def run(ctx):
    ok = core.coq_props(ctx, "Props/C01.v")
    binary = core.build_repo()
    depth = 2 if ctx.quick() else 3
    projs = []
    for i, tree in enumerate(coregen.skeleton_programs(depth)):
        tree = coregen.assign_spans(tree, "main.ms")
        projs.append({"name": "skeleton%d" % i, "files": {"main.ms": coregen.render_ms(tree)}, "entry": "main.ms", "tree": tree, "kind": "skeleton"})
    n_skel = len(projs)
    if ctx.quick():
        extra = coregen.skeleton_programs(3)
        ctx.rng.shuffle(extra)
        for i, tree in enumerate(extra[:20]):
            tree = coregen.assign_spans(tree, "main.ms")
            projs.append({"name": "skeleton3-%d" % i, "files": {"main.ms": coregen.render_ms(tree)}, "entry": "main.ms", "tree": tree, "kind": "skeleton"})
    # operator precedence / associativity / prefix operators: every ordered pair of operators, both tree shapes,
    # written with only the parentheses the precedence table requires
    n_prec = 0
    coregen.MINIMAL_PARENS = True
    try:
        for i, tree in enumerate(coregen.precedence_programs()):
            tree = coregen.assign_spans([coregen.Gen.norm_s(s) for s in tree], "main.ms")
            projs.append({"name": "precedence%d" % i, "files": {"main.ms": coregen.render_ms(tree)}, "entry": "main.ms", "tree": tree, "kind": "skeleton", "minimal_parens": True})
            n_prec += 1
    finally:
        coregen.MINIMAL_PARENS = False
    for i, tree in enumerate(coregen.boolean_chain_programs()):
        tree = coregen.assign_spans([coregen.Gen.norm_s(s) for s in tree], "main.ms")
        projs.append({"name": "boolchain%d" % i, "files": {"main.ms": coregen.render_ms(tree)}, "entry": "main.ms", "tree": tree, "kind": "skeleton"})
    projs += coretie.gen_programs(ctx, 220 if ctx.quick() else 4000, max_depth=3)
    projs += coretie.gen_programs(ctx, 40 if ctx.quick() else 800, max_depth=5, expr_depth=2)
    results = coretie.tie_all(ctx, binary, projs, "c01")
    st = coretie.report_results(ctx, binary, results, "c01")
    for r in results:
        if r["status"] == "rejected" and r["proj"].get("kind") == "skeleton":
            ctx.report("skeleton-rejected", "a skeleton program is rejected by the compiler: %s" % r.get("stderr", "")[-300:],
                       {"project": coretie.slim(r["proj"])}, found_input=False)
    from . import programs
    cbase = ctx.mktemp()
    cps = constant_programs(ctx.rng, 60 if ctx.quick() else 1500)

    def one_c(c):
        d = programs.materialize({"files": {"main.ms": c[0]}}, cbase)
        return programs.run_bin(binary, ["run", "main.ms", "-q"], d)
    n_const = 0
    for (src, exp), (rc, out, err) in zip(cps, programs.pmap(one_c, cps)):
        if "Did not compile" in err and "guaranteed to fail" in (out + err):
            continue
        n_const += 1
        got = out.split("\n")[:-1]
        if rc != 0 or got != exp:
            ctx.report("semantics:constant-expression", "literal-only expressions in value positions: printed %r (exit %d), the language defines %r: %s" % (got, rc, exp, (out + err)[-200:].replace("\n", " ")),
                       {"program": src, "expected": exp, "observed": got, "rc": rc, "how": "mscript run main.ms -q"})
    ctx.cov["constant_expression_programs"] = n_const
    ctx.cov["evaluations"] = st["programs"] + n_const
    ctx.cov["distinct_nontrivial"] = len(set(r["proj"]["files"]["main.ms"] for r in results if r["status"] == "ran" and r.get("steps", 0) > 30))
    ctx.cov["rule"] = ("programs = all statement skeletons to nesting depth %d (each as a function body called with 3 data variants and at module level) "
                       "+ random well-typed Core programs (depth <= 3 and <= 5); non-trivial = distinct program whose real run executes > 30 instructions" % depth)
    ctx.cov["exhaustive"] = True
    ctx.cov["skeleton_programs"] = n_skel
    ctx.cov["precedence_programs"] = n_prec
    ctx.cov["statistics"] = st
    ctx.cov["traces_validated_against_impl"] = st["t2_agree"]
    ctx.sample({"program": projs[n_skel + 1]["files"]["main.ms"][:800]})
    ctx.cov["trusted_base"] = ["Coq 8.16.1 kernel; no axioms", "extraction ExtrOcamlBasic + extract/core_driver.ml, vm_driver.ml glue",
                               "hooks H1/H3", "generator vlib/coregen.py renders one tree as .ms text and as model input"]
    ctx.assumptions = ["the reference semantics Lang/Eval.v is the formal reading of the language semantics",
                       "simulation theorems cover the expression fragment; statement-level agreement is established by the T1/T2/T3 correspondences"]
    spec_failed = any(v[0].startswith("semantics:") for v in ctx.viol)
    core.proof_or_search(ctx, ok, ["C01 obligations"], spec_failed)
