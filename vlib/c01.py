"""C01: core statements and control flow execute per the language semantics."""
from . import core, coregen, coretie


# ---- constant expressions (outside the code-generator model, which does not fold): literal-only expressions in every
# value position, with the value the language defines (truncating / and %, remainder with the sign of the dividend)
def _cexpr(rng, depth):
    """-> (text, value) of a literal-only int expression; no zero divisor, small values"""
    if depth == 0 or rng.random() < 0.25:
        v = rng.randint(-9, 9)
        return (str(v), v, 9)
    for _ in range(20):
        op = rng.choice(["+", "-", "*", "/", "%", "%", "/"])
        a, av, ap = _cexpr(rng, depth - 1)
        b, bv, bp = _cexpr(rng, depth - 1)
        lvl = 6 if op in "+-" else 7
        if op in "/%" and bv == 0:
            continue
        if op == "+":
            v = av + bv
        elif op == "-":
            v = av - bv
        elif op == "*":
            v = av * bv
        else:
            q = abs(av) // abs(bv) * (1 if (av < 0) == (bv < 0) else -1)
            v = q if op == "/" else av - q * bv
        if abs(v) > 10 ** 6:
            continue
        # a negative literal is a prefix minus: it binds tighter than every infix operator, so no parentheses on the left;
        # as a RIGHT operand it is parenthesised (`3 - -2` is fine, but keep the text unambiguous for the reader)
        ta = "(%s)" % a if ap < lvl else a
        tb = "(%s)" % b if (bp <= lvl or b.startswith("-")) else b
        return ("%s %s %s" % (ta, op, tb), v, lvl)
    v = rng.randint(1, 9)
    return (str(v), v, 9)


def constant_programs(rng, n):
    out = []
    for _ in range(n):
        e = [_cexpr(rng, rng.randint(1, 3)) for _ in range(8)]
        lo, hi = sorted([abs(e[6][1]) % 4, abs(e[7][1]) % 4 + 3])
        src = ("a = %s\nprint a\nprint %s\nf = fn(k: int) -> int {\n  return k * 2\n}\nprint f(%s)\ng = fn() -> int {\n  return %s\n}\nprint g()\n"
               "if %s < %s {\n  print \"lt\"\n} else {\n  print \"ge\"\n}\n" % (e[0][0], e[1][0], e[2][0], e[3][0], e[4][0], e[5][0]))
        exp = [str(e[0][1]), str(e[1][1]), str(e[2][1] * 2), str(e[3][1]), "lt" if e[4][1] < e[5][1] else "ge"]
        # loop bounds written as constant expressions with the value lo / hi
        src += "from %d + (%s) %% 1 to %d - (%s) %% 1 {\n  print \"i\"\n}\nprint \"end\"\n" % (lo, e[6][0], hi, e[7][0])
        exp += ["i"] * (hi - lo) + ["end"]
        out.append((src, exp))
    return out


# ---- identifiers: every name the `ident` rule admits and the keyword list does not reserve is an ordinary variable /
# function / parameter / counter name, also when it BEGINS like a keyword or a literal (`constant`, `nil_count`,
# `assert_pos`, `breakfast`, `B1x`).  A name that IS a literal (`B1` = the bigint literal 1) may be refused with a
# diagnostic; it may never be accepted and then silently read back as the literal.
NAME_GROUPS = [
    ("bigint-literal-shape", ["B1", "B52", "B0x1F", "B1_000"]),
    ("bigint-literal-prefix", ["B1x", "B2_", "B0xZ"]),
    ("assignment-flag-prefix", ["constant", "consts", "exported", "modify_count", "constructor_", "constructed"]),
    ("import-prefix", ["important", "imports"]),
    ("nil-prefix", ["nil_count", "nilx", "nil1"]),
    ("assert-prefix", ["assert_pos", "asserted"]),
    ("break-prefix", ["breakfast", "break_"]),
    ("continue-prefix", ["continue_all", "continues"]),
    ("keyword-prefix", ["iffy", "whiled", "fromage", "toto", "through_", "stepper", "printer", "returned", "classy", "typed",
                        "typeofx", "fnord", "trueish", "falsey", "selfish", "getter", "or_", "mapper", "elsewhere", "is_", "not_",
                        "Bx", "b1", "elsex", "steps"]),
]
NAME_FORMS = [
    ("variable", "{n} = 5\nprint {n}\n{n} = {n} + 1\nprint {n} * 2\nassert {n} == 6\n", ["5", "12"]),
    ("call-statement", "{n} = fn(k: int) -> int {{\n  print k\n  return k\n}}\n{n}(3)\nprint {n}(4) + 1\n", ["3", "4", "5"]),
    ("parameter", "f = fn({n}: int) -> int {{\n  if {n} > 0 {{\n    return {n} + 1\n  }}\n  return {n}\n}}\nprint f(2)\n", ["3"]),
    ("counter", "from 0 to 2, {n} {{\n  print {n}\n}}\n", ["0", "1"]),
    ("call-in-loop", "{n} = fn() {{\n  print 7\n}}\nfrom 0 to 2 {{\n  {n}()\n}}\nw = 0\nwhile w < 1 {{\n  w = w + 1\n  {n}()\n}}\n", ["7", "7", "7"]),
    ("condition", "{n} = true\nif {n} {{\n  print 1\n}}\nwhile {n} {{\n  {n} = false\n}}\nprint {n}\n", ["1", "false"]),
    ("loop-bound", "{n} = 2\nfrom 0 to {n} {{\n  print 9\n}}\nfrom {n} through {n} step {n} {{\n  print 8\n}}\n", ["9", "9", "8"]),
    ("recursion", "{n} = fn(k: int) -> int {{\n  if k == 0 {{\n    return 0\n  }}\n  return self(k - 1) + 2\n}}\nprint {n}(3)\n", ["6"]),
    ("captured", "{n} = 1\ng = fn() -> int {{\n  modify {n} = {n} + 1\n  return {n}\n}}\nprint g()\nprint {n}\n", ["2", "2"]),
]


def name_programs():
    out = []
    for group, names in NAME_GROUPS:
        for n in names:
            for form, tmpl, exp in NAME_FORMS:
                out.append((group, n, form, tmpl.format(n=n), exp))
    return out


# ---- string literals: `\\` and `\"` are the escapes of a backslash and of a quote wherever they stand in the literal,
# also as its LAST character(s); the literal ends at the first quote that is not escaped
STRING_VALUES = ["\\", "end\\", "C:\\dir\\", "\\\\", "a\\b", "q\"", "\"", "\\\"", "a\"\\", "x y\\", "\u00e9\\", "\\ \\", ""]


def string_programs():
    out = []
    for v in STRING_VALUES:
        kind = "ends-with-escaped-backslash" if v.endswith("\\") else "escaped-quote" if '"' in v else "escaped-backslash" if "\\" in v else "plain"
        lit = '"%s"' % v.replace("\\", "\\\\").replace('"', '\\"')
        out.append((kind, "print", "print %s\nprint \"after\"\n" % lit, [v, "after"]))
        out.append((kind, "two-on-a-line", "print %s + \"x\" + %s\n" % (lit, lit), [v + "x" + v]))
        out.append((kind, "variable", "s = %s\nt = s + \"|\" + s\nprint t\nprint s == %s\n" % (lit, lit), [v + "|" + v, "true"]))
        out.append((kind, "argument", "f = fn(a: str, b: str) -> str {\n  return a + %s + b\n}\nprint f(%s, \"z\")\n" % (lit, lit), [v + v + "z"]))
        out.append((kind, "condition", "if %s == \"other\" {\n  print \"eq\"\n} else {\n  print \"ne\"\n}\n" % lit, ["ne"]))
    return out


def run(ctx):
    ok = core.coq_props(ctx, "Props/C01.v")
    binary = core.build_repo()
    depth = 2 if ctx.quick() else 3
    projs = []
    for i, tree in enumerate(coregen.skeleton_programs(depth)):
        tree = coregen.assign_spans(tree, "main.ms")
        projs.append({"name": "skeleton%d" % i, "files": {"main.ms": coregen.render_ms(tree)}, "entry": "main.ms", "tree": tree, "kind": "skeleton"})
    n_skel = len(projs)
    if ctx.quick():
        extra = coregen.skeleton_programs(3)
        ctx.rng.shuffle(extra)
        for i, tree in enumerate(extra[:20]):
            tree = coregen.assign_spans(tree, "main.ms")
            projs.append({"name": "skeleton3-%d" % i, "files": {"main.ms": coregen.render_ms(tree)}, "entry": "main.ms", "tree": tree, "kind": "skeleton"})
    # operator precedence / associativity / prefix operators: every ordered pair of operators, both tree shapes,
    # written with only the parentheses the precedence table requires
    n_prec = 0
    coregen.MINIMAL_PARENS = True
    try:
        for i, tree in enumerate(coregen.precedence_programs()):
            tree = coregen.assign_spans([coregen.Gen.norm_s(s) for s in tree], "main.ms")
            projs.append({"name": "precedence%d" % i, "files": {"main.ms": coregen.render_ms(tree)}, "entry": "main.ms", "tree": tree, "kind": "skeleton", "minimal_parens": True})
            n_prec += 1
    finally:
        coregen.MINIMAL_PARENS = False
    for i, tree in enumerate(coregen.boolean_chain_programs()):
        tree = coregen.assign_spans([coregen.Gen.norm_s(s) for s in tree], "main.ms")
        projs.append({"name": "boolchain%d" % i, "files": {"main.ms": coregen.render_ms(tree)}, "entry": "main.ms", "tree": tree, "kind": "skeleton"})
    projs += coretie.gen_programs(ctx, 220 if ctx.quick() else 4000, max_depth=3)
    projs += coretie.gen_programs(ctx, 40 if ctx.quick() else 800, max_depth=5, expr_depth=2)
    results = coretie.tie_all(ctx, binary, projs, "c01")
    st = coretie.report_results(ctx, binary, results, "c01")
    for r in results:
        if r["status"] == "rejected" and r["proj"].get("kind") == "skeleton":
            ctx.report("skeleton-rejected", "a skeleton program is rejected by the compiler: %s" % r.get("stderr", "")[-300:],
                       {"project": coretie.slim(r["proj"])}, found_input=False)
    # a generated program is a well-typed program of the core language: the compiler has to accept it
    for r in results:
        if r["status"] == "rejected" and r["proj"].get("kind") != "skeleton":
            ctx.report("valid-program-rejected", "a generated well-typed core program is rejected by the compiler: %s\n%s"
                       % (r.get("stderr", "")[-300:], r["proj"]["files"]["main.ms"][:500]),
                       {"program": r["proj"]["files"]["main.ms"], "stderr": r.get("stderr", ""), "how": "mscript run main.ms -q"})
    from . import programs
    cbase = ctx.mktemp()

    def one_src(src):
        d = programs.materialize({"files": {"main.ms": src}}, cbase)
        return programs.run_bin(binary, ["run", "main.ms", "-q"], d)
    nps = name_programs()
    n_names = 0
    for (group, n, form, src, exp), (rc, out, err) in zip(nps, programs.pmap(one_src, [c[3] for c in nps])):
        n_names += 1
        got = out.split("\n")[:-1]
        if rc == 0 and got == exp:
            continue
        refused = rc != 0 and "Did not compile" in (out + err)      # diagnostics only: nothing was run
        if group == "bigint-literal-shape" and refused:
            continue        # the name is a literal of the language: refusing it as a name, with a diagnostic, is in order
        ctx.report("identifier:" + group, "the identifier `%s` (%s) is %s: printed %r (exit %d), the language defines %r: %s"
                   % (n, form, "refused" if refused else "misread", [] if refused else got, rc, exp, (out + err)[-300:].replace("\n", " ")),
                   {"program": src, "expected": exp, "observed": got, "rc": rc, "stderr": err[-600:], "how": "mscript run main.ms -q"})
    sps = string_programs()
    n_strings = 0
    for (kind, form, src, exp), (rc, out, err) in zip(sps, programs.pmap(one_src, [c[2] for c in sps])):
        n_strings += 1
        got = out.split("\n")[:-1]
        if rc != 0 or got != exp:
            ctx.report("string-literal:" + kind, "a string literal with escaped backslashes / quotes (%s): printed %r (exit %d), the language defines %r: %s"
                       % (form, [] if "Did not compile" in (out + err) else got, rc, exp, (out + err)[-300:].replace("\n", " ")),
                       {"program": src, "expected": exp, "observed": got, "rc": rc, "stderr": err[-600:], "how": "mscript run main.ms -q"})
    ctx.cov["identifier_programs"] = n_names
    ctx.cov["string_literal_programs"] = n_strings
    cps = constant_programs(ctx.rng, 60 if ctx.quick() else 1500)

    def one_c(c):
        d = programs.materialize({"files": {"main.ms": c[0]}}, cbase)
        return programs.run_bin(binary, ["run", "main.ms", "-q"], d)
    n_const = 0
    for (src, exp), (rc, out, err) in zip(cps, programs.pmap(one_c, cps)):
        if "Did not compile" in err and "guaranteed to fail" in (out + err):
            continue
        n_const += 1
        got = out.split("\n")[:-1]
        if rc != 0 or got != exp:
            ctx.report("semantics:constant-expression", "literal-only expressions in value positions: printed %r (exit %d), the language defines %r: %s" % (got, rc, exp, (out + err)[-200:].replace("\n", " ")),
                       {"program": src, "expected": exp, "observed": got, "rc": rc, "how": "mscript run main.ms -q"})
    ctx.cov["constant_expression_programs"] = n_const
    ctx.cov["evaluations"] = st["programs"] + n_const + n_names + n_strings
    ctx.cov["distinct_nontrivial"] = len(set(r["proj"]["files"]["main.ms"] for r in results if r["status"] == "ran" and r.get("steps", 0) > 30))
    ctx.cov["rule"] = ("programs = all statement skeletons to nesting depth %d (each as a function body called with 3 data variants and at module level) "
                       "+ random well-typed Core programs (depth <= 3 and <= 5); non-trivial = distinct program whose real run executes > 30 instructions; "
                       "plus (Python oracle) identifiers that begin like a keyword / literal in 9 positions and string literals with escaped backslashes / quotes" % depth)
    ctx.cov["exhaustive"] = True
    ctx.cov["skeleton_programs"] = n_skel
    ctx.cov["precedence_programs"] = n_prec
    ctx.cov["statistics"] = st
    ctx.cov["traces_validated_against_impl"] = st["t2_agree"]
    ctx.sample({"program": projs[n_skel + 1]["files"]["main.ms"][:800]})
    ctx.cov["trusted_base"] = ["Coq 8.16.1 kernel; no axioms", "extraction ExtrOcamlBasic + extract/core_driver.ml, vm_driver.ml glue",
                               "hooks H1/H3", "generator vlib/coregen.py renders one tree as .ms text and as model input"]
    ctx.assumptions = ["the reference semantics Lang/Eval.v is the formal reading of the language semantics",
                       "simulation theorems cover the expression fragment; statement-level agreement is established by the T1/T2/T3 correspondences"]
    spec_failed = any(v[0].startswith(("semantics:", "identifier:", "string-literal:", "valid-program-rejected")) for v in ctx.viol)
    core.proof_or_search(ctx, ok, ["C01 obligations"], spec_failed)
