"""C01: core statements and control flow execute per the language semantics."""
from . import core, coregen, coretie


def run(ctx):
    ok = core.coq_props(ctx, "Props/C01.v")
    binary = core.build_repo()
    depth = 2 if ctx.quick() else 3
    projs = []
    for i, tree in enumerate(coregen.skeleton_programs(depth)):
        tree = coregen.assign_spans(tree, "main.ms")
        projs.append({"name": "skeleton%d" % i, "files": {"main.ms": coregen.render_ms(tree)}, "entry": "main.ms", "tree": tree, "kind": "skeleton"})
    n_skel = len(projs)
    if ctx.quick():
        extra = coregen.skeleton_programs(3)
        ctx.rng.shuffle(extra)
        for i, tree in enumerate(extra[:20]):
            tree = coregen.assign_spans(tree, "main.ms")
            projs.append({"name": "skeleton3-%d" % i, "files": {"main.ms": coregen.render_ms(tree)}, "entry": "main.ms", "tree": tree, "kind": "skeleton"})
    # operator precedence / associativity / prefix operators: every ordered pair of operators, both tree shapes,
    # written with only the parentheses the precedence table requires
    n_prec = 0
    coregen.MINIMAL_PARENS = True
    try:
        for i, tree in enumerate(coregen.precedence_programs()):
            tree = coregen.assign_spans([coregen.Gen.norm_s(s) for s in tree], "main.ms")
            projs.append({"name": "precedence%d" % i, "files": {"main.ms": coregen.render_ms(tree)}, "entry": "main.ms", "tree": tree, "kind": "skeleton", "minimal_parens": True})
            n_prec += 1
    finally:
        coregen.MINIMAL_PARENS = False
    for i, tree in enumerate(coregen.boolean_chain_programs()):
        tree = coregen.assign_spans([coregen.Gen.norm_s(s) for s in tree], "main.ms")
        projs.append({"name": "boolchain%d" % i, "files": {"main.ms": coregen.render_ms(tree)}, "entry": "main.ms", "tree": tree, "kind": "skeleton"})
    projs += coretie.gen_programs(ctx, 220 if ctx.quick() else 4000, max_depth=3)
    projs += coretie.gen_programs(ctx, 40 if ctx.quick() else 800, max_depth=5, expr_depth=2)
    results = coretie.tie_all(ctx, binary, projs, "c01")
    st = coretie.report_results(ctx, binary, results, "c01")
    for r in results:
        if r["status"] == "rejected" and r["proj"].get("kind") == "skeleton":
            ctx.report("skeleton-rejected", "a skeleton program is rejected by the compiler: %s" % r.get("stderr", "")[-300:],
                       {"project": coretie.slim(r["proj"])}, found_input=False)
    ctx.cov["evaluations"] = st["programs"]
    ctx.cov["distinct_nontrivial"] = len(set(r["proj"]["files"]["main.ms"] for r in results if r["status"] == "ran" and r.get("steps", 0) > 30))
    ctx.cov["rule"] = ("programs = all statement skeletons to nesting depth %d (each as a function body called with 3 data variants and at module level) "
                       "+ random well-typed Core programs (depth <= 3 and <= 5); non-trivial = distinct program whose real run executes > 30 instructions" % depth)
    ctx.cov["exhaustive"] = True
    ctx.cov["skeleton_programs"] = n_skel
    ctx.cov["precedence_programs"] = n_prec
    ctx.cov["statistics"] = st
    ctx.cov["traces_validated_against_impl"] = st["t2_agree"]
    ctx.sample({"program": projs[n_skel + 1]["files"]["main.ms"][:800]})
    ctx.cov["trusted_base"] = ["Coq 8.16.1 kernel; no axioms", "extraction ExtrOcamlBasic + extract/core_driver.ml, vm_driver.ml glue",
                               "hooks H1/H3", "generator vlib/coregen.py renders one tree as .ms text and as model input"]
    ctx.assumptions = ["the reference semantics Lang/Eval.v is the formal reading of the language semantics",
                       "simulation theorems cover the expression fragment; statement-level agreement is established by the T1/T2/T3 correspondences"]
    spec_failed = any(v[0].startswith("semantics:") for v in ctx.viol)
    core.proof_or_search(ctx, ok, ["C01 obligations"], spec_failed)
