"""C02 layer (c), Core-0 tie: random programs of the Core-0 fragment (Types/Core0.v), well typed and ill typed,
rendered both as .ms text and as Coq terms.  The compiler's accept / reject must equal `Core0.check_list`, and
for accepted programs the `typeof` string and the run-time kind tag of every top-level variable must equal the
kind the model's final environment gives it (theorem core0_sound says the store agrees with it on every run)."""
import re

from . import core, programs
from . import c02_common as cc
from .c02_optable import OPS, ASSIGN, KINDS

KCOQ = {"int": "KInt", "bigint": "KBigInt", "float": "KFloat", "byte": "KByte", "bool": "KBool", "str": "KStr"}
LIT = {"int": ["3", "7", "12"], "bigint": ["B4", "B9"], "float": ["1.5", "0.25"], "byte": ["0b1", "0b10"], "bool": ["true", "false"], "str": ['"s"', '"ab"']}
BASE_OPS = [(n, s) for n, s in OPS if n not in ASSIGN]
ASSIGN_OPS = [(n, s) for n, s in OPS if n in ASSIGN]
NONZERO_RHS = {"Div", "Mod", "Ls", "Rs", "DivA", "ModA"}
SMALL = {"int": "2", "bigint": "B2", "float": "2.0", "byte": "0b1", "bool": "true", "str": '"z"'}


class G:
    def __init__(self, rng, tab, un, p_good):
        self.r, self.tab, self.un, self.p_good = rng, tab, un, p_good
        self.nvars = 0

    # expression: returns (coq, ms, kind or None when ill typed / unknown)
    def expr(self, env, want, depth):
        r = self.r
        good = r.random() < self.p_good
        if depth <= 0 or r.random() < 0.3:
            # leaves are variables whenever one exists: an all-literal expression is evaluated at compile time
            # (C06's subject) and e.g. `0b1 - 0b10` is then a compile error, which Core-0 does not model
            vs = [x for x, k in env.items() if (k == want or not good)]
            if vs:
                x = r.choice(vs)
                return "(EVar %d)" % x, "v%d" % x, env[x]
            k = want if good else r.choice(KINDS)
            return "(ELit %s)" % KCOQ[k], r.choice(LIT[k]), k
        if r.random() < 0.12:
            o, sym = r.choice([("Neg", "-"), ("Not", "!")])
            ks = [k for k in KINDS if self.un[(o, k)][0] == want] if good else KINDS
            if ks:
                k = r.choice(ks)
                c, m, ak = self.expr(env, k, depth - 1)
                if o == "Neg" and not m.startswith("v"):
                    # a negated literal is folded by the compiler (C06); negate variables only
                    pass
                else:
                    return "(EUn %s %s)" % (o, c), "%s(%s)" % (sym, m), (self.un[(o, ak)][0] if ak else None)
        cells = [(o, s, a, b) for (o, s) in BASE_OPS for a in KINDS for b in KINDS if self.tab[(o, a, b)][0] == want]
        if not good or not cells:
            o, s = r.choice(BASE_OPS)
            a, b = r.choice(KINDS), r.choice(KINDS)
        else:
            o, s, a, b = r.choice(cells)
        ca, ma, ka = self.expr(env, a, depth - 1)
        if o in NONZERO_RHS or (o == "Mul" and "str" in (a, b)):
            cb, mb, kb = "(ELit %s)" % KCOQ[b], SMALL[b], b
        else:
            cb, mb, kb = self.expr(env, b, depth - 1)
        k = self.tab[(o, ka, kb)][0] if ka and kb else None
        return "(EBin %s %s %s)" % (o, ca, cb), "(%s) %s (%s)" % (ma, s, mb), k

    def block(self, env, depth, n, ind):
        env = dict(env)
        coq, ms = [], []
        for _ in range(n):
            c, m = self.stmt(env, depth, ind)
            coq.append(c)
            ms += m
        return "[" + "; ".join(coq) + "]", ms, env

    def stmt(self, env, depth, ind):
        r = self.r
        pad = "\t" * ind
        good = r.random() < self.p_good
        choice = r.random()
        if choice < 0.45 or not env:
            k = r.choice(KINDS)
            if env and r.random() < 0.35:
                x = r.choice(sorted(env))
                if good:
                    k = env[x]
            else:
                x = self.nvars
                self.nvars += 1
            c, m, ek = self.expr(env, k, 2)
            ann = r.random() < 0.5
            ak = k if good else r.choice(KINDS)
            if ek is not None and (not ann or ak == ek) and env.get(x, ek) == ek:
                env[x] = ek
            return ("(SDecl %d %s %s)" % (x, "(Some %s)" % KCOQ[ak] if ann else "None", c),
                    ["%sv%d%s = %s" % (pad, x, ": " + ak if ann else "", m)])
        if choice < 0.6:
            x = r.choice(sorted(env))
            cells = [(o, s, b) for (o, s) in ASSIGN_OPS for b in KINDS if self.tab[(o, env[x], b)][0] is not None]
            if good and cells:
                o, s, b = r.choice(cells)
            else:
                o, s = r.choice(ASSIGN_OPS)
                b = r.choice(KINDS)
            if o in NONZERO_RHS or (o == "MulA" and "str" in (env[x], b)):
                c, m = "(ELit %s)" % KCOQ[b], SMALL[b]
            else:
                c, m, _ = self.expr(env, b, 1)
            # `x op= e` is a binary operator of the precedence table, and `is` binds looser than it: without the parentheses
            # `v1 += (v0) is (v3)` is `(v1 += v0) is v3` (soak seed 94: a false alarm of the rendering, DESIGN 7B)
            return "(SOpAssign %s %d %s)" % (o, x, c), ["%sv%d %s (%s)" % (pad, x, s, m)]
        if choice < 0.8 and depth > 0:
            c, m, _ = self.expr(env, "bool", 2)
            tc, tm, _ = self.block(env, depth - 1, r.randint(0, 2), ind + 1)
            ec, em, _ = self.block(env, depth - 1, r.randint(0, 2), ind + 1)
            return "(SIf %s %s %s)" % (c, tc, ec), ["%sif %s {" % (pad, m)] + tm + ["%s} else {" % pad] + em + ["%s}" % pad]
        if choice < 0.9 and depth > 0:
            c, m, _ = self.expr(env, "bool", 1)
            bc, bm, _ = self.block(env, depth - 1, r.randint(1, 2), ind + 1)
            # the loop must not run (its condition is arbitrary): `&& false`; the checker still checks the body
            return "(SWhile (EBin And %s (ELit KBool)) %s)" % (c, bc), ["%swhile (%s) && false {" % (pad, m)] + bm + ["%s}" % pad]
        c, m, _ = self.expr(env, r.choice(KINDS), 2)
        return "(SPrint %s)" % c, ["%sprint %s" % (pad, m)]


def gen_program(rng, tab, un):
    g = G(rng, tab, un, rng.choice([1.0, 1.0, 0.97, 0.9]))
    seeds_c, seeds_m, env = [], [], {}
    for k in KINDS:
        x = g.nvars
        g.nvars += 1
        env[x] = k
        seeds_c.append("(SDecl %d (Some %s) (ELit %s))" % (x, KCOQ[k], KCOQ[k]))
        seeds_m.append("v%d: %s = %s" % (x, k, LIT[k][0]))
    coq, ms, env = g.block(env, 2, rng.randint(3, 9), 0)
    coq = "[" + "; ".join(seeds_c) + ("; " + coq[1:] if coq != "[]" else "]")
    return coq, "\n".join(seeds_m + ms) + "\n", [], g.nvars


def model_eval(cases):
    """[(coq program, nvars)] -> [None (rejected) | [kind or None per variable]]"""
    out = []
    shards = [cases[i:i + 400] for i in range(0, len(cases), 400)]

    def one(args):
        idx, shard = args
        body = ["Import ListNotations.", "Set Printing Depth 1000000.", "Open Scope list_scope.",
                "Definition kc (k : option kind) : nat := match k with None => 0 | Some KInt => 1 | Some KBigInt => 2 | Some KFloat => 3 | Some KByte => 4 | Some KBool => 5 | Some KStr => 6 end.",
                "Definition res (p : list stmt) (n : nat) : list nat := match check_list empty_env p with None => [9] | Some g => 8 :: map (fun x => kc (g x)) (seq 0 n) end."]
        body.append("Eval vm_compute in [" + ";\n ".join("res %s %d" % (c, n) for c, n in shard) + "].")
        rc, o, e = core.coq_eval("c02_core0_%d" % idx, "\n".join(body) + "\n", ["Coq.Lists.List", "MS.Types.OpTable", "MS.Types.Core0"])
        if rc != 0:
            raise RuntimeError("coq_eval of Core0 cases failed: " + (e or o)[-800:])
        txt = o.split("=", 1)[1].rsplit(":", 1)[0]
        lists = re.findall(r"\[([0-9;\s]*)\]", txt.strip()[1:-1] if False else txt)
        res = []
        for l in lists:
            nums = [int(x) for x in re.findall(r"\d+", l)]
            if not nums:
                continue
            res.append(None if nums[0] == 9 else [KINDS[n - 1] if n else None for n in nums[1:]])
        if len(res) != len(shard):
            raise RuntimeError("coq_eval returned %d results for %d Core0 cases" % (len(res), len(shard)))
        return res

    for r in programs.pmap(one, list(enumerate(shards)), workers=6):
        out += r
    return out


def run(ctx, binary, tab, un):
    n = 400 if ctx.quick() else 2400
    base = ctx.mktemp()
    progs = [gen_program(ctx.rng, tab, un) for _ in range(n)]
    model = model_eval([(c, nv) for c, _, _, nv in progs])
    # observe every variable the model's final environment knows (those declared at the top level)
    for p, m in zip(progs, model):
        if m is not None:
            for x, k in enumerate(m):
                if k is not None:
                    p[2].extend(['print "#o%d"' % x, "print typeof v%d" % x, "print v%d" % x])
    results = programs.pmap(lambda p: cc.run_src(binary, p[1] + ("\n".join(p[2]) + "\n" if p[2] else ""), base), progs)
    st = {"programs": n, "model_accepts": 0, "compiler_accepts": 0, "disagree": 0, "observations": 0, "skipped": 0}
    for (coq, ms, tail, nv), m, res in zip(progs, model, results):
        if res.verdict in ("timeout", "compiler-panic"):
            st["skipped"] += 1
            continue
        replay = {"program": ms + "\n".join(tail) + "\n", "coq": coq, "model": m, "observed": res.brief(),
                  "correspondence": "Core-0 checker (Types/Core0.v check_list) vs the compiler"}
        acc = res.verdict != "rejected"
        st["compiler_accepts"] += acc
        st["model_accepts"] += m is not None
        if acc != (m is not None):
            st["disagree"] += 1
            # the property itself: an accepted program must still be sound
            finds, _, _ = ([], 0, 0)
            ctx.report("correspondence:core0-verdict", "compiler %s a Core-0 program the model %s (%s)" % (
                "accepts" if acc else "rejects", "accepts" if m is not None else "rejects", res.diag[:120]), replay, found_input=False)
            continue
        if not acc:
            continue
        if res.verdict in ("rt-error", "panic"):
            allowed, fcls = cc.failure_class(res)
            if not allowed:
                ctx.report("rt:" + fcls, "accepted Core-0 program fails at run time with a type error: %s" % res.msg, replay)
            continue
        # observations: marker, typeof, value
        lines = res.lines
        i = 0
        while i + 2 < len(lines):
            tg, tx = lines[i]
            mm = re.match(r"^#o(\d+)$", tx) if tg == ("Str",) else None
            if not mm:
                i += 1
                continue
            x = int(mm.group(1))
            (ttags, ttext), (vtags, vtext) = lines[i + 1], lines[i + 2]
            i += 3
            st["observations"] += 1
            want = m[x] if x < len(m) else None
            if want is None:
                continue
            if ttext != want:
                ctx.report("correspondence:core0-type", "typeof v%d = %s, model environment says %s" % (x, ttext, want), replay, found_input=False)
            if vtags != (cc.TAG_OF[ttext],) if ttext in cc.TAG_OF else False:
                ctx.report("kind:core0:%s:%s" % (ttext, "-".join(vtags)), "Core-0 variable v%d: static type `%s`, run-time kind <%s>" % (x, ttext, "><".join(vtags)), replay)
    return st
