"""C11: modules initialise exactly once, in import order, completing before the importer continues; all
importers share one instance; only exported names are visible.

Tie T7+T3: generated multi-module projects are written to scratch directories and run in memory
(`mscript run m0.ms -q`) and from files (`mscript compile m0.ms --quick`, `mscript execute m0.mmm`); the
stdout lines are compared (a) with the prediction of the Coq loader model (Modules.Model.run, evaluated by
coqc on the same project) and (b) with an independent Python statement of the property (each module's top
level exactly once, at its first import, depth first; one instance per module)."""
import ast
import itertools
import os
import shutil

from . import core, programs

FORMS = ["whole", "names", "both"]
PLACES = ["before", "between", "after"]
# module kinds: "full" exports a list, a counter closure, a scalar and a type alias; "effects" has NO export statement
# at all (imported for its side effects only); "types" exports only a type alias (nothing at run time)
KINDS = ["full", "effects", "types"]
# import forms that are legal for a target of each kind
#   type   : import type T_j from mj                      (names form with no value name)
#   tnames : import type T_j, log_j, tick_j, val_j from mj (mixed)
#   wtype  : import mj ; import type T_j from mj           (the same module imported twice by one importer)
LEGAL = {"full": ["whole", "names", "both", "type", "tnames", "wtype"], "effects": ["whole"], "types": ["whole", "type", "wtype"]}


# ---------------------------------------------------------------- projects
# a project: {"n": modules m0..m(n-1), "imports": {k: [(j, form, place, spelling)] in statement order}, "dirs": {k: ""|"lib"},
#             "kinds": {k: kind}}   (module 0, the entry, is always "full")

def kind_of(proj, k):
    return proj.get("kinds", {}).get(k, "full")


def uses(k, j, form, jkind="full"):
    """(source lines, model actions) observing module j from module k through `form`"""
    log, tick, val = "log_%d" % j, "tick_%d" % j, "val_%d" % j
    L, T, V = 10 * j + 1, 10 * j + 2, 10 * j + 3
    tvar = ["tv_%d_%d: T_%d = %d" % (k, j, j, j), 'print "m%d:%d"' % (k, 50 + j)]      # uses the imported type; prints a marker
    tact = ["Effect %d" % (50 + j)]
    if form == "whole" and jkind != "full":
        return ['print "m%d:%d"' % (k, 60 + j)], ["Effect %d" % (60 + j)]
    if form == "type":
        return tvar, tact
    if form == "wtype" and jkind != "full":
        return tvar + ['print "m%d:%d"' % (k, 60 + j)], tact + ["Effect %d" % (60 + j)]
    if form in ("whole", "wtype"):
        src = ['m%d.%s.push("m%d")' % (j, log, k), "print m%d.%s" % (j, log), "print m%d.%s()" % (j, tick), "print m%d.%s" % (j, val)]
        act = ["Push (ViaModule %d) %d %d" % (j, L, k), "ShowList (ViaModule %d) %d" % (j, L), "Call (ViaModule %d) %d" % (j, T), "ShowInt (ViaModule %d) %d" % (j, V)]
        if form == "wtype":
            src, act = src + tvar, act + tact
    elif form in ("names", "tnames"):
        src = ['%s.push("m%d")' % (log, k), "print %s" % log, "print %s()" % tick, "print %s" % val]
        act = ["Push ViaLocal %d %d" % (L, k), "ShowList ViaLocal %d" % L, "Call ViaLocal %d" % T, "ShowInt ViaLocal %d" % V]
        if form == "tnames":
            src, act = src + tvar, act + tact
    else:
        src = ['m%d.%s.push("m%d")' % (j, log, k), "print %s" % log, "print %s()" % tick, "print m%d.%s()" % (j, tick),
               '%s.push("m%d")' % (log, k), "print m%d.%s" % (j, log), "print %s" % val]
        act = ["Push (ViaModule %d) %d %d" % (j, L, k), "ShowList ViaLocal %d" % L, "Call ViaLocal %d" % T, "Call (ViaModule %d) %d" % (j, T),
               "Push ViaLocal %d %d" % (L, k), "ShowList (ViaModule %d) %d" % (j, L), "ShowInt ViaLocal %d" % V]
    return src, act


def import_stmts(j, form, spelling):
    """(source lines, model actions) of the import statement(s); a type name binds nothing at run time, so
    `import type T from m` is the names form with an empty list of value names - it still executes module_entry"""
    names = "log_%d, tick_%d, val_%d" % (j, j, j)
    nm = "Names [%d; %d; %d]" % (10 * j + 1, 10 * j + 2, 10 * j + 3)
    if form == "whole":
        return ["import %s" % spelling], ["Import %d Whole" % j]
    if form == "names":
        return ["import %s from %s" % (names, spelling)], ["Import %d (%s)" % (j, nm)]
    if form == "type":
        return ["import type T_%d from %s" % (j, spelling)], ["Import %d (Names [])" % j]
    if form == "tnames":
        return ["import type T_%d, %s from %s" % (j, names, spelling)], ["Import %d (%s)" % (j, nm)]
    if form == "wtype":
        return ["import %s" % spelling, "import type T_%d from %s" % (j, spelling)], ["Import %d Whole" % j, "Import %d (Names [])" % j]
    return ["import %s" % spelling, "import %s from %s" % (names, spelling)], ["Import %d Whole" % j, "Import %d (%s)" % (j, nm)]


def module_text(proj, k):
    """source text and model action list of module k"""
    src, act = [], []
    imps = proj["imports"].get(k, [])
    kind = kind_of(proj, k)

    def place(p):
        for (j, form, pl, sp) in imps:
            if pl != p:
                continue
            s, a = import_stmts(j, form, sp)
            src.extend(s)
            act.extend(a)
            if p != "before":
                s, a = uses(k, j, form, kind_of(proj, j))
                src.extend(s)
                act.extend(a)

    place("before")
    src.append('print "m%d:1"' % k)
    act.append("Effect 1")
    if kind == "full":
        src.append('export log_%d: [str...] = ["m%d"]' % (k, k))
        act.append("ExportList %d %d" % (10 * k + 1, k))
        # the counter is named per module: a same-named variable of the CALLING module would be found first by `load`
        # (dynamic scoping, finding F1 of C01/C07) and confound what this check observes
        src += ["counter_%d = 0" % k, "export tick_%d: fn() -> int = fn() -> int {" % k, "\tmodify counter_%d = counter_%d + 1" % (k, k), "\treturn counter_%d" % k, "}"]
        act.append("ExportCounter %d" % (10 * k + 2))
        src.append("export val_%d: int = %d" % (k, 100 + k))
        act.append("ExportInt %d %d" % (10 * k + 3, 100 + k))
    if kind in ("full", "types"):
        src.append("export type T_%d int" % k)          # compile-time only: no run-time export, no model action
    for (j, form, pl, sp) in imps:
        if pl == "before":
            s, a = uses(k, j, form, kind_of(proj, j))
            src.extend(s)
            act.extend(a)
    place("between")
    src.append('print "m%d:2"' % k)
    act.append("Effect 2")
    src.append('print "m%d:3"' % k)
    act.append("Effect 3")
    place("after")
    return "\n".join(src) + "\n", "[" + "; ".join(act) + "]"


def rel_path(proj, k):
    d = proj["dirs"].get(k, "")
    return (d + "/" if d else "") + "m%d.ms" % k


def materialize(proj):
    files, mods = {}, []
    for k in range(proj["n"]):
        txt, act = module_text(proj, k)
        files[rel_path(proj, k)] = txt
        mods.append("(%d, %s)" % (k, act))
    coq = "{| entry := 0; modules := [" + "; ".join(mods) + "] |}"
    return files, coq


# the property, stated independently of the Coq model: one instance per module, initialised when the first import
# statement naming it executes - whatever that statement imports (a module value, values, only types)
def spec_output(proj):
    out = []
    inst = {}

    def init(k):
        if k in inst:
            return
        me = {"log": None, "tick": 0}
        inst[k] = me
        imps = proj["imports"].get(k, [])

        def use(j, form):
            o = inst[j]
            full = kind_of(proj, j) == "full"

            def push_show_tick(n_ticks=1):
                o["log"].append("m%d" % k)
                out.append(fmt_list(o["log"]))
                for _ in range(n_ticks):
                    o["tick"] += 1
                    out.append(str(o["tick"]))

            if form == "whole" and not full:
                out.append("m%d:%d" % (k, 60 + j))
            elif form == "type":
                out.append("m%d:%d" % (k, 50 + j))
            elif form == "wtype" and not full:
                out.append("m%d:%d" % (k, 50 + j))
                out.append("m%d:%d" % (k, 60 + j))
            elif form in ("whole", "names", "tnames", "wtype"):
                push_show_tick()
                out.append(str(100 + j))
                if form in ("tnames", "wtype"):
                    out.append("m%d:%d" % (k, 50 + j))
            else:
                push_show_tick(2)
                o["log"].append("m%d" % k)
                out.append(fmt_list(o["log"]))
                out.append(str(100 + j))

        for (j, form, pl, sp) in imps:
            if pl == "before":
                init(j)
        out.append("m%d:1" % k)
        me["log"] = ["m%d" % k]
        for (j, form, pl, sp) in imps:
            if pl == "before":
                use(j, form)
        for (j, form, pl, sp) in imps:
            if pl == "between":
                init(j)
                use(j, form)
        out.append("m%d:2" % k)
        out.append("m%d:3" % k)
        for (j, form, pl, sp) in imps:
            if pl == "after":
                init(j)
                use(j, form)

    init(0)
    return out, list(inst)


def fmt_list(l):
    return "[" + ", ".join('"%s"' % x for x in l) + "]"


def render(lines):
    out = []
    for me, l in lines:
        if l[0] == 0:
            out.append("m%d:%d" % (me, l[1]))
        elif l[0] == 1:
            out.append(fmt_list(["m%d" % t for t in l[1:]]))
        else:
            out.append(str(l[1]))
    return out


def gen_projects(ctx):
    rng = ctx.rng
    projs = []

    def add(n, edges, stream, spell=False):
        imports = {}
        for (i, j, form, pl) in edges:
            imports.setdefault(i, []).append((j, form, pl, "m%d" % j))
        projs.append({"n": n, "imports": imports, "dirs": {}, "kinds": {}, "stream": stream, "entry_spelling": "m0.ms"})

    # ---- exhaustive: 3 modules, every DAG x form x placement per edge, both orders of m0's two imports
    pairs3 = [(0, 1), (0, 2), (1, 2)]
    opts = [None] + [(f, p) for f in FORMS for p in PLACES]
    for choice in itertools.product(opts, repeat=3):
        edges = [(i, j, c[0], c[1]) for (i, j), c in zip(pairs3, choice) if c]
        add(3, edges, "exhaustive-3")
        if choice[0] and choice[1]:
            e2 = [edges[1], edges[0]] + edges[2:]
            add(3, e2, "exhaustive-3")
    if not ctx.quick():
        # ---- exhaustive: 4 modules, every DAG x form per edge; placement and statement order drawn at random
        pairs4 = [(i, j) for i in range(4) for j in range(i + 1, 4)]
        for choice in itertools.product([None] + FORMS, repeat=6):
            edges = [(i, j, c, rng.choice(PLACES)) for (i, j), c in zip(pairs4, choice) if c]
            rng.shuffle(edges)
            add(4, edges, "exhaustive-4")
    # ---- module kinds x import forms, 3 modules: every kind of m1, m2 x every DAG x every LEGAL form per edge
    #      (export-less and type-only modules in diamonds; type-only / mixed / repeated imports); placement random
    for k1, k2 in itertools.product(KINDS, repeat=2):
        kinds = {0: "full", 1: k1, 2: k2}
        per_edge = [[None] + LEGAL[kinds[j]] for (i, j) in pairs3]
        for choice in itertools.product(*per_edge):
            if (k1, k2) == ("full", "full") and all(c in (None, "whole", "names", "both") for c in choice):
                continue                      # already in exhaustive-3
            edges = [(i, j, c, rng.choice(PLACES)) for (i, j), c in zip(pairs3, choice) if c]
            rng.shuffle(edges)
            add(3, edges, "kinds-3")
            projs[-1]["kinds"] = kinds
    # ---- random: 4-5 modules, random kinds, legal forms
    for _ in range(300 if ctx.quick() else 1500):
        n = rng.choice([4, 5, 5])
        kinds = {k: ("full" if k == 0 else rng.choice(["full", "full", "effects", "types"])) for k in range(n)}
        edges = [(i, j, rng.choice(LEGAL[kinds[j]]), rng.choice(PLACES)) for i in range(n) for j in range(i + 1, n) if rng.random() < 0.6]
        rng.shuffle(edges)
        add(n, edges, "random-5")
        projs[-1]["kinds"] = kinds
    # ---- path spellings: the same module spelled differently by different importers; sub-directory modules
    n_main = len(projs)
    for _ in range(60 if ctx.quick() else 400):
        n = rng.choice([3, 4, 5])
        # modules >= cut live in lib/ ; an importer in lib/ can only import lib/ modules (the grammar has no usable `..`)
        cut = rng.choice([n, n, max(2, n - 1), max(2, n - 2)])
        dirs = {k: ("lib" if k >= cut else "") for k in range(n)}
        imports = {}
        for i in range(n):
            for j in range(i + 1, n):
                if rng.random() < 0.6:
                    if dirs[i] == dirs[j]:
                        sp = rng.choice(["m%d", "./m%d", "././m%d", "m%d.ms", "./m%d.ms"]) % j
                    elif dirs[i] == "":
                        sp = rng.choice(["lib/m%d", "./lib/m%d", "lib/./m%d", "lib/m%d.ms"]) % j
                    else:
                        continue
                    imports.setdefault(i, []).append((j, rng.choice(FORMS), rng.choice(PLACES), sp))
        for i in imports:
            rng.shuffle(imports[i])
        projs.append({"n": n, "imports": imports, "dirs": dirs, "kinds": {}, "stream": "spelling",
                      "entry_spelling": rng.choice(["m0.ms", "./m0.ms"])})
    return projs, n_main


NEGATIVE = [
    ("import-unexported-name", ['print "m0:1"', "import hidden_1 from m1"]),
    ("read-unexported-member", ['print "m0:1"', "import m1", "print m1.hidden_1"]),
    ("assign-exported-member", ['print "m0:1"', "import m1", "m1.val_1 = 7", "print m1.val_1"]),
    ("assign-exported-list-member", ['print "m0:1"', "import m1", 'm1.log_1 = ["x"]']),
    ("assign-module-variable", ['print "m0:1"', "import m1", "m1 = 5"]),
    # a module is a value: a copy of it has a name that is not const, the members stay the module's own
    ("assign-exported-member-through-copy", ['print "m0:1"', "import m1", "m = m1", "m.val_1 = 7", "print m1.val_1"]),
    ("assign-exported-member-through-copy", ['print "m0:1"', "import m1", "m = m1", "m.val_1 += 7", "print m1.val_1"]),
    ("assign-exported-member-through-copy", ['print "m0:1"', "import m1", "m = m1", 'm.log_1 = ["x"]']),
    ("assign-exported-member-through-copy", ['print "m0:1"', "import m1", "const h = [m1]", "m = h[0]", "m.val_1 = 7", "print m1.val_1"]),
    ("assign-exported-member-through-copy", ['print "m0:1"', "import m1", "f = fn() {", "  m = m1", "  m.val_1 *= 2", "}", "f()", "print m1.val_1"]),
    ("declared-type-whole", ['print "m0:1"', "import m1", "x: str = m1.val_1"]),
    ("declared-type-names", ['print "m0:1"', "import val_1 from m1", "x: str = val_1"]),
]
NEG_M1 = 'print "m1:1"\nhidden_1 = 5\nexport val_1: int = 1\nexport log_1: [str...] = ["m1"]\n'


def model_eval(shard_id, coqs, fuel):
    body = "Open Scope N_scope.\nEval vm_compute in (map (fun g => summary (run %d g)) [\n" % fuel + ";\n".join(coqs) + "]).\n"
    rc, out, err = core.coq_eval("c11_%d" % shard_id, body, ["MS.Base.Str", "MS.Modules.Model"], timeout=900)
    if rc != 0:
        raise RuntimeError("coqc failed on C11 model cases: " + (out + err)[-1500:])
    txt = out[out.index("=") + 1:]
    txt = txt[:txt.rindex(": list")]
    txt = txt.replace("%N", "").replace("%nat", "").replace(";", ",")
    res = ast.literal_eval(txt.strip())
    return [(int(a[0]), [(int(me), [int(x) for x in l]) for me, l in a[1]], [int(x) for x in a[2]]) for a in res]


# ---- one shared instance means one set of variables: an exported VARIABLE that changes after its export statement
# (top-level re-assignment, `modify` from an exported function) is seen changed by every importer (Python statement)
def live_export_cases(rng, n):
    out = []
    for _ in range(n):
        a, b = rng.randint(0, 5), rng.randint(2, 30)
        calls = [rng.choice(["direct", "worker", "peek", "read"]) for _ in range(rng.randint(3, 7))]
        counter = ("print \"init counter\"\nexport hits: int = %d\nexport bump: fn() -> int = fn() -> int {\n\tmodify hits = hits + 1\n\treturn hits\n}\n"
                   "hits = hits + %d\nexport peek: fn() -> int = fn() -> int {\n\treturn hits\n}\nsecret: int = 42\nhidden = 7\nconst sec2: int = 1\n" % (a, b))
        worker = "print \"init worker\"\nimport counter\nexport work: fn() -> int = fn() -> int {\n\treturn counter.bump()\n}\nexport see: fn() -> int = fn() -> int {\n\treturn counter.hits\n}\n"
        first = rng.choice(["counter", "worker"])
        main = "import %s\nimport %s\n" % (first, "worker" if first == "counter" else "counter")
        exp = ["init counter", "init worker"] if first == "counter" else ["init worker", "init counter"]
        cur = a + b
        for c in calls:
            if c == "direct":
                cur += 1
                main += "print counter.bump()\n"
            elif c == "worker":
                cur += 1
                main += "print worker.work()\n"
            elif c == "peek":
                main += "print counter.peek()\n"
            else:
                main += "print counter.hits\nprint worker.see()\n"
                exp.append(str(cur))
            exp.append(str(cur))
        out.append(({"main.ms": main, "counter.ms": counter, "worker.ms": worker}, exp))
    return out


HIDDEN_ACCESS = ["import counter\nprint counter.secret\n", "import counter\nprint counter.hidden\n", "import counter\nprint counter.sec2\n",
                 "import secret from counter\nprint secret\n", "import hidden from counter\nprint hidden\n", "import sec2 from counter\nprint sec2\n",
                 "import counter\nx = counter.secret + 1\nprint x\n", "import hits, secret from counter\nprint hits\n"]


def run_live_exports(ctx, binary):
    base = ctx.mktemp()
    cases = live_export_cases(ctx.rng, 30 if ctx.quick() else 300)

    def one(c):
        files, exp = c
        d = programs.materialize({"files": files}, base)
        r1 = programs.run_bin(binary, ["run", "main.ms", "-q"], d)
        cc = programs.run_bin(binary, ["compile", "main.ms", "--quick"], d)
        r2 = programs.run_bin(binary, ["execute", "main.mmm"], d) if cc[0] == 0 else None
        shutil.rmtree(d, ignore_errors=True)
        return r1, r2
    n = 0
    for (files, exp), (r1, r2) in zip(cases, programs.pmap(one, cases)):
        for how, r in (("run", r1), ("compile+execute", r2)):
            if r is None:
                continue
            n += 1
            got = r[1].split("\n")[:-1]
            if r[0] != 0 or got != exp:
                ctx.report("shared-instance:exported-variable-not-live", "%s: importers do not see the current value of an exported variable: printed %r (exit %d), one shared instance prints %r" % (how, got[-6:], r[0], exp[-6:]),
                           {"files": files, "expected": exp, "observed": got, "rc": r[0], "stderr": r[2][-300:], "how": "mscript run main.ms -q / compile + execute"})
    files0 = cases[0][0]

    def neg(text):
        d = programs.materialize({"files": dict(files0, **{"main.ms": text})}, base)
        r = programs.run_bin(binary, ["run", "main.ms", "-q"], d)
        shutil.rmtree(d, ignore_errors=True)
        return r
    for text, r in zip(HIDDEN_ACCESS, programs.pmap(neg, HIDDEN_ACCESS)):
        n += 1
        if "Did not compile successfully" not in r[2] or "init counter" in r[1]:
            ctx.report("hidden-name-visible", "a name the module does not export is reachable from an importer (`%s`): exit %d, stdout %r" % (text.replace("\n", "; "), r[0], r[1][-120:]),
                       {"files": dict(files0, **{"main.ms": text}), "rc": r[0], "stdout": r[1][-300:], "stderr": r[2][-300:]})
    ctx.cov["live_export_and_hidden_name_cases"] = n
    return n


# ---- an import statement INSIDE a function / method body: the module initialises the first time that statement is
# EXECUTED (the first call), once, however many functions import it and however often they are called; the names the
# import binds are locals of that function.  Python statement of the property.
def import_in_function_cases(rng, n):
    def lib(k):
        return ('print "init lib%d"\ncounter_%d = 0\nexport bump_%d: fn() -> int = fn() -> int {\n\tmodify counter_%d = counter_%d + 1\n\treturn counter_%d\n}\n'
                'export val_%d: int = %d\n' % (k, k, k, k, k, k, k, 100 * (k + 1)))
    out = []
    wheres = ["top", "block", "after-print", "nested-fn", "method", "other-module", "captured-by-inner"]
    for idx in range(n):
        nl = rng.choice([1, 2])
        files = {"lib%d.ms" % k: lib(k) for k in range(nl)}
        main = 'print "start"\n'
        fns = []
        kinds = [(wheres[idx % len(wheres)], ["whole", "names"][(idx // len(wheres)) % 2])] + \
                [(rng.choice(wheres), rng.choice(["whole", "names"])) for _ in range(rng.randint(0, 2))]
        helper = ""
        for i, (where, form) in enumerate(kinds):
            k = rng.randrange(nl)
            imp = "import lib%d" % k if form == "whole" else "import bump_%d, val_%d from lib%d" % (k, k, k)
            use = "lib%d.bump_%d() * 1000 + lib%d.val_%d" % (k, k, k, k) if form == "whole" else "bump_%d() * 1000 + val_%d" % (k, k)
            call = "f%d()" % i
            if where == "top":
                main += "f%d = fn() -> int {\n\t%s\n\treturn %s\n}\n" % (i, imp, use)
            elif where == "block":
                main += "f%d = fn() -> int {\n\tif true {\n\t\t%s\n\t\treturn %s\n\t}\n\treturn 0 - 1\n}\n" % (i, imp, use)
            elif where == "after-print":
                main += "f%d = fn() -> int {\n\tprint \"in f%d\"\n\t%s\n\treturn %s\n}\n" % (i, i, imp, use)
            elif where == "nested-fn":
                main += "f%d = fn() -> int {\n\tg = fn() -> int {\n\t\t%s\n\t\treturn %s\n\t}\n\treturn g()\n}\n" % (i, imp, use)
            elif where == "captured-by-inner":
                # the imported name is a local of f: an inner function captures it from THERE
                main += "f%d = fn() -> int {\n\t%s\n\tg = fn() -> int {\n\t\treturn %s\n\t}\n\treturn g()\n}\n" % (i, imp, use)
            elif where == "method":
                main += "class C%d {\n\tconstructor(self) {}\n\tfn go(self) -> int {\n\t\t%s\n\t\treturn %s\n\t}\n}\nc%d = C%d()\n" % (i, imp, use, i, i)
                call = "c%d.go()" % i
            else:
                # the function lives in another module, which is imported (and initialised) by the entry module first
                helper += "export h%d: fn() -> int = fn() -> int {\n\t%s\n\treturn %s\n}\n" % (i, imp, use)
                call = "helper.h%d()" % i
            fns.append((i, where, k, call))
        exp = ["start"]
        if helper:
            files["helper.ms"] = 'print "init helper"\n' + helper
            main += "import helper\n"
            exp.append("init helper")
        main += 'print "defined"\n'
        exp.append("defined")
        inited, count = set(), {}
        for _ in range(rng.randint(2, 6)):
            i, where, k, call = rng.choice(fns)
            main += "print %s\n" % call
            if where == "after-print":
                exp.append("in f%d" % i)
            if k not in inited:
                inited.add(k)
                exp.append("init lib%d" % k)
            count[k] = count.get(k, 0) + 1
            exp.append(str(count[k] * 1000 + 100 * (k + 1)))
        files["main.ms"] = main
        out.append((files, exp))
    return out


# ---- "visible to importers, with their declared types": every kind of exported member, reached by name and through
# the module value, has the type its `export` declaration states - an exported INSTANCE of an exported class included
DT_LIB = ("export class Box {\n\tv: int\n\tconstructor(self, v: int) {\n\t\tself.v = v\n\t}\n\tfn peek(self) -> int {\n\t\treturn self.v\n\t}\n}\n"
          "export n: int = 5\nexport s: str = \"x\"\nexport l: [int...] = [1, 2]\nexport f: fn(int) -> int = fn(a: int) -> int {\n\treturn a + 1\n}\n"
          "export shared: Box = Box(100)\nexport maybe: Box? = Box(7)\nexport boxes: [Box...] = [Box(1), Box(2)]\n"
          "export mk: fn() -> Box = fn() -> Box {\n\treturn Box(3)\n}\nexport const kept: Box = Box(9)\n"
          # round 7 (seed C11-r7-1): members whose DECLARED type is a type alias - private alias of a native type, private alias
          # of a structural type, exported alias, alias over an alias - are exported like any other
          "type Id int\ntype History [int...]\nexport type Label str\ntype Ids [Id...]\n"
          "export next_id: Id = 41\nexport log: History = [41, 42]\nexport title: Label = \"shapes\"\nexport ids: Ids = [7, 8]\n"
          "export bump: fn() -> Id = fn() -> Id {\n\treturn 43\n}\n")
# (member, kind, declared type, expression showing a value X of that type, expected line)
DT_MEMBERS = [("n", "int", "int", "X + 1", "6"), ("s", "str", "str", 'X + "!"', "x!"), ("l", "list", "[int...]", "X[1]", "2"),
              ("f", "function", "fn(int) -> int", "X(1)", "2"), ("shared", "instance", "Box", "X.v + X.peek()", "200"),
              ("maybe", "optional-instance", "Box?", "(get X).v", "7"), ("boxes", "list-of-instances", "[Box...]", "(X[1]).v", "2"),
              ("mk", "function-returning-instance", "fn() -> Box", "(X()).v", "3"), ("kept", "const-instance", "Box", "X.peek()", "9"),
              ("next_id", "private-alias-of-int", "int", "X + 1", "42"), ("log", "private-alias-of-list", "[int...]", "X[1]", "42"),
              ("title", "exported-alias", "str", 'X + "!"', "shapes!"), ("ids", "private-alias-of-list-of-alias", "[int...]", "X[0]", "7"),
              ("bump", "function-returning-alias", "fn() -> int", "X() + 1", "44")]
DT_NEGATIVE = [
    ("call-imported-instance", "import shared from lib\nprint \"MARK\"\ny = shared(5)\n"),
    ("call-imported-instance-through-module", "import lib\nprint \"MARK\"\ny = lib.shared(5)\n"),
    ("instance-as-int", "import shared from lib\nprint \"MARK\"\ny: int = shared\n"),
    ("instance-as-function", "import Box, shared from lib\nprint \"MARK\"\ny: fn(int) -> Box = shared\n"),
    ("class-as-instance", "import Box from lib\nprint \"MARK\"\ny: Box = Box\n"),
]


def declared_type_cases():
    """-> [(id, class, main.ms text, expected stdout lines or None when the program must be rejected)]"""
    out = []
    for name, kind, ty, show, exp in DT_MEMBERS:
        forms = {
            "names-annotated": "import Box, %s from lib\nx: %s = %s\nprint %s\n" % (name, ty, name, show.replace("X", "x")),
            "names-direct": "import %s from lib\nprint %s\n" % (name, show.replace("X", name)),
            "whole-annotated": "import lib\nimport Box from lib\nx: %s = lib.%s\nprint %s\n" % (ty, name, show.replace("X", "x")),
            "whole-inferred": "import lib\nx = lib.%s\nprint %s\n" % (name, show.replace("X", "x")),
        }
        for form, text in sorted(forms.items()):
            out.append(("%s/%s" % (name, form), "imported-member-type:" + kind, text, [exp]))
    for cid, text in DT_NEGATIVE:
        out.append((cid, "visibility:" + cid, text, None))
    return out


CHAIN_SHAPES = ("print \"init shapes\"\nexport made: int = 0\nexport class Box {\n  side: int\n  constructor(self, side: int) {\n    self.side = side\n  }\n  fn area(self) -> int {\n    return self.side * self.side\n  }\n}\n"
                "export class Tag {\n  t: str\n  constructor(self, t: str) {\n    self.t = t\n  }\n}\n"
                "export count_up: fn() -> int = fn() -> int {\n  modify made = made + 1\n  return made\n}\nexport limit: int = 9\n")
CHAIN_FACTORY = ("print \"init factory\"\n%s"
                 "export unit: fn() -> Box = fn() -> Box {\n  count_up()\n  return Box(1)\n}\nexport grow: fn(Box) -> Box = fn(b: Box) -> Box {\n  count_up()\n  return Box(b.side + 1)\n}\n"
                 "export tag: fn() -> Tag = fn() -> Tag {\n  return Tag(\"t\" + limit)\n}\nexport label: str = \"factory\"\n")
CHAIN_MAIN = "print \"main start\"\nimport factory\nimport shapes\nb = factory.grow(factory.unit())\nprint factory.label\nprint b.area()\nprint shapes.made\nprint factory.tag().t\n"


def chain_cases():
    """a middle module imports names from a third one -- in every order of class and non-class names, in one statement or
    several -- and exports members whose declared types mention the imported classes: the importer sees all of them"""
    import itertools
    names = ["count_up", "Box", "Tag", "limit"]
    out = []
    for perm in itertools.permutations(names):
        out.append(("one statement: " + ", ".join(perm), "import %s from shapes\n" % ", ".join(perm)))
    out.append(("one statement per name", "".join("import %s from shapes\n" % n for n in names)))
    out.append(("two statements, non-class names first", "import count_up, limit from shapes\nimport Box, Tag from shapes\n"))
    out.append(("whole module plus names", "import shapes\nimport limit, Tag, count_up, Box from shapes\n"))
    return [(cid, {"main.ms": CHAIN_MAIN, "factory.ms": CHAIN_FACTORY % imp, "shapes.ms": CHAIN_SHAPES}) for cid, imp in out]


def run_chains(ctx, binary, base):
    cases = chain_cases()
    exp = ["main start", "init factory", "init shapes", "factory", "4", "2", "t9"]

    def one(c):
        d = programs.materialize({"files": c[1]}, base)
        r = programs.run_bin(binary, ["run", "main.ms", "-q"], d)
        shutil.rmtree(d, ignore_errors=True)
        return r
    for (cid, files), r in zip(cases, programs.pmap(one, cases)):
        got = r[1].split("\n")[:-1]
        if r[0] != 0 or got != exp:
            why = [l.strip() for l in (r[1] + r[2]).splitlines() if l.strip().startswith("=")]
            ctx.report("re-export-through-middle-module", "a module that imports `%s` and exports members typed with the imported classes: exit %d, printed %r %s, expected %r"
                       % (cid, r[0], got[-4:], why[:1], exp), {"case": cid, "files": files, "expected": exp, "observed": got, "rc": r[0], "stderr": r[2][-500:], "how": "mscript run main.ms -q"})
    ctx.cov["middle_module_import_order_cases"] = len(cases)
    # a class (stored as a function named after it) whose name is one the compiler deals out itself: `__module__` is the
    # module's own top-level code, `__fn<N>` the N-th function literal.  Either the name is refused, or everything works;
    # the module's top-level code runs ONCE either way
    body = "  v: int\n  constructor(self) {\n    self.v = 5\n  }\n}\n"
    gcs = [("single module, class __module__", {"main.ms": "print \"top\"\nclass __module__ {\n" + body + "k = __module__()\nprint k.v\nprint \"end\"\n"}, ["top", "5", "end"]),
           ("imported module, class __module__", {"main.ms": "print \"main\"\nimport lib\nk = lib.__module__()\nprint k.v\nprint \"end\"\n",
                                                  "lib.ms": "print \"init lib\"\nexport class __module__ {\n" + body}, ["main", "init lib", "5", "end"]),
           ("class __fn0 next to a function literal", {"main.ms": "f = fn() -> int {\n  return 1\n}\nclass __fn0 {\n" + body + "print f()\nk = __fn0()\nprint k.v\n"}, ["1", "5"]),
           ("class __fn1 before two function literals", {"main.ms": "class __fn1 {\n" + body + "f = fn() -> int {\n  return 1\n}\ng = fn() -> int {\n  return 2\n}\nprint f() + g()\nk = __fn1()\nprint k.v\n"}, ["3", "5"])]
    for (cid, files), r, exp in zip([(g[0], g[1]) for g in gcs], programs.pmap(one, [(g[0], g[1]) for g in gcs]), [g[2] for g in gcs]):
        got = r[1].split("\n")[:-1]
        refused = "Did not compile successfully" in r[2] and not any(l in ("top", "main", "init lib") for l in got)
        if not refused and (r[0] != 0 or got != exp):
            ctx.report("class-named-like-a-generated-function", "%s: exit %d, printed %r, expected %r (or a compile-time refusal of the name): %s"
                       % (cid, r[0], got[-5:], exp, r[2][-200:].replace("\n", " ")), {"case": cid, "files": files, "expected": exp, "observed": got, "rc": r[0], "stderr": r[2][-500:], "how": "mscript run main.ms -q"})
    ctx.cov["generated_name_cases"] = len(gcs)
    # two different modules that share a FILE NAME (util.ms and lib/util.ms), each imported by a sibling-relative `import util`:
    # each is its own module, initialised once; in every order of first use; through `run` and through compile + execute
    def util(tag, start):
        return ("print \"init %s\"\nexport name: str = \"%s\"\nexport calls: [int...] = [%d]\nexport touch: fn() -> int = fn() -> int {\n  calls[0] = calls[0] + 1\n  return calls[0]\n}\n" % (tag, tag, start))
    report = ("print \"init lib/report\"\nimport util\nprint \"lib/report continues\"\nexport describe: fn() -> str = fn() -> str {\n  return util.name\n}\n"
              "export poke: fn() -> int = fn() -> int {\n  return util.touch()\n}\n")
    sn = [("top-level util first", {"main.ms": "print \"main start\"\nimport util\nprint util.name\nprint util.touch()\nimport lib/report\nprint report.describe()\nprint report.poke()\nprint util.touch()\n",
                                    "util.ms": util("util", 0), "lib/util.ms": util("lib/util", 100), "lib/report.ms": report},
           ["main start", "init util", "util", "1", "init lib/report", "init lib/util", "lib/report continues", "lib/util", "101", "2"]),
          ("nested util first", {"main.ms": "print \"main start\"\nimport lib/report\nprint report.describe()\nprint report.poke()\nimport util\nprint util.name\nprint util.touch()\nprint report.poke()\n",
                                 "util.ms": util("util", 0), "lib/util.ms": util("lib/util", 100), "lib/report.ms": report},
           ["main start", "init lib/report", "init lib/util", "lib/report continues", "lib/util", "101", "init util", "util", "1", "102"]),
          ("three levels", {"main.ms": "print \"main start\"\nimport util\nimport a/util\nimport a/b/util\nprint util.touch()\nprint util.touch()\n",
                            "util.ms": util("util", 0), "a/util.ms": util("a/util", 10), "a/b/util.ms": util("a/b/util", 20)},
           ["main start", "init util", "init a/util", "init a/b/util", "21", "22"])]

    def one_sn(c):
        d = programs.materialize({"files": c[1]}, base)
        r1 = programs.run_bin(binary, ["run", "main.ms", "-q"], d)
        d2 = programs.materialize({"files": c[1]}, base)
        cc = programs.run_bin(binary, ["compile", "main.ms", "--quick"], d2)
        r2 = programs.run_bin(binary, ["execute", "main.mmm"], d2) if cc[0] == 0 else None
        shutil.rmtree(d, ignore_errors=True)
        shutil.rmtree(d2, ignore_errors=True)
        return r1, r2
    for (cid, files, exp), (r1, r2) in zip(sn, programs.pmap(one_sn, sn)):
        for how, r in (("run", r1), ("compile + execute", r2)):
            if r is None:
                continue
            got = r[1].split("\n")[:-1]
            if cid == "three levels" and r[0] != 0 and "Did not compile" in r[2]:
                continue           # `import a/util` binds the name util a second time: refusing that is allowed
            if r[0] != 0 or got != exp:
                ctx.report("same-file-name-in-two-directories", "%s (%s): exit %d, printed %r, expected %r: %s" % (cid, how, r[0], got[-6:], exp[-6:], r[2][-200:].replace("\n", " ")),
                           {"case": cid, "files": files, "expected": exp, "observed": got, "rc": r[0], "stderr": r[2][-500:], "how": "mscript run main.ms -q  /  mscript compile main.ms --quick; mscript execute main.mmm"})
    ctx.cov["same_file_name_cases"] = len(sn)
    return len(cases) + len(gcs)


def run_function_imports_and_types(ctx, binary):
    base = ctx.mktemp()
    fcases = import_in_function_cases(ctx.rng, 42 if ctx.quick() else 420)

    def one(c):
        files = c[0]
        d = programs.materialize({"files": files}, base)
        r1 = programs.run_bin(binary, ["run", "main.ms", "-q"], d)
        cc = programs.run_bin(binary, ["compile", "main.ms", "--quick"], d)
        r2 = programs.run_bin(binary, ["execute", "main.mmm"], d) if cc[0] == 0 else None
        shutil.rmtree(d, ignore_errors=True)
        return r1, r2
    n = 0
    for (files, exp), (r1, r2) in zip(fcases, programs.pmap(one, fcases)):
        for how, r in (("run", r1), ("compile+execute", r2)):
            if r is None:
                continue
            n += 1
            got = r[1].split("\n")[:-1]
            if r[0] != 0 or got != exp:
                why = [l.strip() for l in (r[1] + r[2]).splitlines() if l.strip().startswith("=") or "is not in scope" in l]
                ctx.report("import-in-function-body", "%s: an import statement inside a function / method body: printed %r (exit %d) %s; the module initialises once, when the import is first executed: %r"
                           % (how, got[-5:], r[0], why[:1], exp[-5:]),
                           {"files": files, "expected": exp, "observed": got, "rc": r[0], "stderr": r[2][-500:], "how": "mscript run main.ms -q / compile main.ms --quick + execute main.mmm"})
    tcases = declared_type_cases()

    def one_t(c):
        d = programs.materialize({"files": {"main.ms": c[2], "lib.ms": DT_LIB}}, base)
        r = programs.run_bin(binary, ["run", "main.ms", "-q"], d)
        shutil.rmtree(d, ignore_errors=True)
        return r
    for (cid, cls, text, exp), r in zip(tcases, programs.pmap(one_t, tcases)):
        n += 1
        got = r[1].split("\n")[:-1]
        replay = {"case": cid, "files": {"main.ms": text, "lib.ms": DT_LIB}, "expected": exp if exp is not None else "rejected at compile time, nothing runs",
                  "observed": got[-6:], "rc": r[0], "stderr": r[2][-500:], "how": "mscript run main.ms -q"}
        if exp is None:
            if "Did not compile successfully" not in r[2] or "MARK" in r[1]:
                ctx.report(cls, "a use of an imported member against its declared type (%s) is not rejected at compile time: exit %d, %r" % (cid, r[0], (r[1] + r[2])[-200:]), replay)
        elif r[0] != 0 or got != exp:
            why = [l.strip() for l in r[1].splitlines() if l.strip().startswith("=")]
            ctx.report(cls, "an exported member used with its declared type (%s): exit %d, printed %r %s, expected %r" % (cid, r[0], got[-3:], why[:1], exp), replay)
    ctx.cov["import_in_function_body_cases"] = len(fcases)
    ctx.cov["declared_type_cases"] = len(tcases)
    n += run_chains(ctx, binary, base)
    return n


def run(ctx):
    ok = core.coq_props(ctx, "Props/C11.v")
    binary = core.build_repo()
    base = ctx.mktemp()
    projs, n_main = gen_projects(ctx)
    mats = [materialize(p) for p in projs]

    def one(a):
        p, (files, _) = a
        d = programs.materialize({"files": files}, base)
        e = p["entry_spelling"]
        r1 = programs.run_bin(binary, ["run", e, "-q"], d)
        for root, _, fs in os.walk(d):
            for f in fs:
                if f.endswith(".mmm"):
                    os.remove(os.path.join(root, f))
        c = programs.run_bin(binary, ["compile", e, "--quick"], d)
        r2 = programs.run_bin(binary, ["execute", e[:-3] + ".mmm"], d) if c[0] == 0 else None
        shutil.rmtree(d, ignore_errors=True)
        return r1, c, r2

    results = programs.pmap(one, list(zip(projs, mats)))
    coqs = [m[1] for m in mats]
    shards = [coqs[i:i + 400] for i in range(0, len(coqs), 400)]
    preds = [x for sh in programs.pmap(lambda a: model_eval(a[0], a[1], 7), list(enumerate(shards))) for x in sh]

    spec_fail = dis = nontrivial = 0
    dist = {"stream": {}, "modules_reached": {}, "edges": {}, "form": {}, "place": {}, "diamonds": 0,
            "shared_target_kind": {}, "projects_with_type_only_import": 0}
    for idx, (p, (files, coq), (r1, c, r2), pred) in enumerate(zip(projs, mats, results, preds)):
        exp, reached = spec_output(p)
        dist["stream"][p["stream"]] = dist["stream"].get(p["stream"], 0) + 1
        dist["modules_reached"][len(reached)] = dist["modules_reached"].get(len(reached), 0) + 1
        ne = sum(len(v) for k, v in p["imports"].items() if k in reached)
        dist["edges"][ne] = dist["edges"].get(ne, 0) + 1
        indeg = {}
        for k, v in p["imports"].items():
            if k in reached:
                for (j, form, pl, sp) in v:
                    indeg[j] = indeg.get(j, 0) + 1
                    dist["form"][form] = dist["form"].get(form, 0) + 1
                    dist["place"][pl] = dist["place"].get(pl, 0) + 1
        shared = any(v >= 2 for v in indeg.values())
        if any(form == "type" for k, v in p["imports"].items() if k in reached for (j, form, pl, sp) in v):
            dist["projects_with_type_only_import"] += 1
        for j, v in indeg.items():
            if v >= 2:
                kd = kind_of(p, j)
                dist["shared_target_kind"][kd] = dist["shared_target_kind"].get(kd, 0) + 1
        if shared:
            dist["diamonds"] += 1
            nontrivial += 1
        replay = {"project": {k: p[k] for k in ("n", "imports", "dirs", "kinds", "stream", "entry_spelling")}, "files": files,
                  "expected_stdout": exp, "how": "write the files, `mscript run <entry> -q` / `mscript compile <entry> --quick; mscript execute <entry>.mmm`"}
        spell = p["stream"] == "spelling"
        modes = [("run", r1)] + ([("execute", r2)] if r2 is not None else [])
        if c[0] != 0:
            spec_fail += 1
            ctx.report("module-project-does-not-compile", "a generated module project is rejected by `compile`: %s" % (c[1] + c[2])[-400:],
                       dict(replay, compile={"rc": c[0], "out": (c[1] + c[2])[-1500:]}))
        bad_spec = False
        for mode, r in modes:
            got = r[1].splitlines()
            if r[0] != 0 or got != exp:
                bad_spec = True
                spec_fail += 1
                twice = sorted(set(l for l in got if l.endswith(":1") and got.count(l) > 1))
                if twice and spell:
                    cls = "module-path-spelling"
                    what = "module initialised more than once when importers spell its path differently (%s): %s" % (mode, ", ".join(twice))
                elif twice:
                    cls = "module-initialised-twice"
                    what = "top level ran more than once (%s): %s" % (mode, ", ".join(twice))
                elif any(l.endswith(":1") and l not in got for l in exp):
                    cls = "module-not-initialised-by-import"
                    what = "an executed import statement did not run the module's top level (%s): missing %s" % (
                        mode, ", ".join(l for l in exp if l.endswith(":1") and l not in got))
                elif r[0] != 0:
                    cls = "module-project-fails:" + mode
                    what = "exit %s under %s: %s" % (r[0], mode, r[2][-300:])
                elif sorted(got) != sorted(exp):
                    cls = "module-state-not-shared-or-order:" + mode
                    what = "stdout differs from the specification under %s" % mode
                else:
                    cls = "module-init-order:" + mode
                    what = "same lines in a different order under %s" % mode
                first = next((i for i, (a, b) in enumerate(zip(got, exp)) if a != b), min(len(got), len(exp)))
                ctx.report(cls, what + "; first difference at line %d: got %r expected %r" % (first, got[first:first + 1], exp[first:first + 1]),
                           dict(replay, mode=mode, rc=r[0], stdout=r[1][-3000:], stderr=r[2][-800:]))
        # model vs implementation
        st, lines, inits = pred
        mlines = render(lines)
        if st != 0 or mlines != exp or inits != reached:
            # the model disagrees with the independent statement of the property: the machinery is inconsistent
            dis += 1
            ctx.report("model-vs-spec", "Modules.Model.run and the Python statement of the property disagree (status %s)" % st,
                       dict(replay, model_lines=mlines, model_inits=inits), found_input=False)
        for mode, r in modes:
            if r[1].splitlines() != mlines or (r[0] == 0) != (st == 0):
                dis += 1
                if not bad_spec:
                    ctx.report("correspondence:modules-model", "loader model and implementation disagree under %s" % mode,
                               dict(replay, mode=mode, stdout=r[1][-3000:], model_lines=mlines,
                                    correspondence="T7 modules (Modules/Model.v vs interpreter.rs/instruction.rs)"), found_input=False)
        if idx in (5, n_main - 1, len(projs) - 1):
            ctx.sample({"project": replay["project"], "files": files, "stdout_run": r1[1].splitlines(), "model": mlines, "init_order": inits})

    # ---- visibility / reassignment (compiler side; specification only)
    neg = 0
    for cls, lines in NEGATIVE:
        d = programs.materialize({"files": {"m0.ms": "\n".join(lines) + "\n", "m1.ms": NEG_M1}}, base)
        r = programs.run_bin(binary, ["run", "m0.ms", "-q"], d)
        neg += 1
        if r[0] == 0 or "m0:1" in r[1] or "m1:1" in r[1]:
            spec_fail += 1
            ctx.report("visibility:" + cls, "a program that must be rejected before running was accepted or ran: rc=%s stdout=%r" % (r[0], r[1][-200:]),
                       {"files": {"m0.ms": lines, "m1.ms": NEG_M1}, "rc": r[0], "stdout": r[1][-500:], "stderr": r[2][-500:]})
        shutil.rmtree(d, ignore_errors=True)

    nlive = run_live_exports(ctx, binary)
    before = len(ctx.viol)
    nlive += run_function_imports_and_types(ctx, binary)
    nlive += run_double_exports(ctx, binary)
    nlive += run_identity_and_parent_imports(ctx, binary)
    nlive += run_rebinds(ctx, binary)
    spec_fail += len(ctx.viol) - before
    ctx.cov["evaluations"] = len(projs) + neg + nlive
    ctx.cov["distinct_nontrivial"] = nontrivial
    ctx.cov["exhaustive"] = True
    ctx.cov["exhaustive_part"] = ("3 modules: every DAG x {whole,names,both} x {before,between,after} per edge, both statement orders of the entry's two imports; "
                                  "3 modules: every kind {full, no export at all, type alias only} of m1,m2 x every DAG x every legal form "
                                  "{import m, names, both, import type T, import type T + names, import m + import type T} per edge"
                                  + ("" if ctx.quick() else "; 4 modules: every DAG x form per edge (placement/order random)"))
    ctx.cov["rule"] = ("a case = one project run twice (in memory, from files); streams: exhaustive-3, kinds-3, exhaustive-4 (thorough), random 4-5-module DAGs with random module kinds, "
                       "path spellings (./m, ././m, m.ms, lib/./m, entry as ./m0.ms), 7 rejected visibility programs; import statements inside function / method bodies "
                       "(first executed at the first call; top of the body, nested block, after an effect, inner function, captured by an inner function, method, function of another module; both forms; both modes); "
                       "every kind of exported member (int, str, list, function, instance, optional instance, list of instances, function returning an instance, const instance) "
                       "used with its declared type by name and through the module, and 5 programs that contradict the declared type; "
                       "non-trivial = a reached module is imported by at least two import sites (once-only / sharing is exercised)")
    ctx.cov["distribution"] = dist
    ctx.cov["model_impl_disagreements"] = dis
    ctx.cov["spec_failures"] = spec_fail
    ctx.cov["traces_validated_against_impl"] = 2 * len(projs)
    ctx.cov["trusted_base"] = ["Coq 8.16.1 kernel (coqc; vm_compute for model evaluation and the Example)",
                               "no axioms (Print Assumptions: closed under the global context)",
                               "generator emitting the .ms text and the Coq action list of a module from one description (vlib/c11.py module_text)",
                               "the rest of the interpreter and compiler executing prints, pushes and calls as the action semantics says (observed through stdout)"]
    ctx.assumptions = ["Modules/Model.v is hand-written; tied to the binary by this run's comparison of stdout in both execution modes",
                       "module identity = normalised path (fixes/import-path-normalise.diff); the grammar admits no usable `..` component",
                       "declared types / non-reassignability of imports are compiler checks outside the loader model: observed on 7 fixed programs only"]
    core.proof_or_search(ctx, ok, ["C11_init_once_in_order", "C11_shared_instance", "C11_exports_write_once"], spec_fail > 0)


# ---- (round 6) "importers cannot reassign them": a name bound by `import a from m` is a variable OF THE IMPORTER that starts
# with the exported value.  Giving that variable another value (assignment, compound assignment, `modify` from a function, in a
# block) changes nothing for the module's own code, for an importer that goes through the module value and for a later
# `import a from m`.  Changing the exported OBJECT in place (element, push, field, map slot) is state of the one shared
# instance and is seen by all (the rule the generated projects already use for `log_j.push`).
BOX = "export class Box {\n\tv: int\n\tconstructor(self, v: int) {\n\t\tself.v = v\n\t}\n}\n"
# kind -> (name, declared type, initial value, result type of the views, the value as an expression over X, text printed at first,
#          [(action, statements, printed by the importer afterwards, printed by everybody else afterwards)])
REBIND_KINDS = {
    "int": ("n", "int", "1", "int", "X", "1", [("rebind", "n = 50", "50", "1"), ("compound", "n += 5", "6", "1"), ("compound-times", "n *= 7", "7", "1")]),
    "str": ("s", "str", '"a"', "str", "X", "a", [("rebind", 's = "zz"', "zz", "a"), ("compound", 's += "!"', "a!", "a")]),
    "float": ("f", "float", "0.5", "float", "X", "0.5", [("rebind", "f = 2.5", "2.5", "0.5"), ("compound", "f += 2.0", "2.5", "0.5")]),
    "bool": ("b", "bool", "true", "bool", "X", "true", [("rebind", "b = false", "false", "true")]),
    "bigint": ("g", "bigint", "B5", "bigint", "X", "5", [("rebind", "g = B77", "77", "5"), ("compound", "g += B1", "6", "5")]),
    "optional": ("o", "int?", "5", "bool", "X == nil", "false", [("rebind", "none: int? = nil\no = none", "true", "false")]),
    "list": ("l", "[int...]", "[1, 2]", "int", "X[0] * 100 + X.len()", "102",
             [("rebind", "fresh: [int...] = [7, 8, 9]\nl = fresh", "703", "102"), ("element", "l[0] = 9", "902", "902"), ("push", "l.push(3)", "103", "103"),
              ("rebind-then-element", "fresh: [int...] = [7, 8, 9]\nl = fresh\nl[0] = 4", "403", "102")]),
    "map": ("m", "map[str, int]", 'map[str, int]{"k": 1}', "int", "X.len()", "1",
            [("rebind", 'm = map[str, int]{"a": 1, "b": 2, "c": 3}', "3", "1"), ("slot", 'm["k2"] = 9', "2", "2")]),
    "function": ("step", "fn() -> int", "fn() -> int {\n\treturn 10\n}", "int", "X()", "10",
                 [("rebind", "step = fn() -> int {\n\treturn 99\n}", "99", "10"),
                  ("wrap", "plain = step\nstep = fn() -> int {\n\treturn plain() + 1000\n}", "1010", "10")]),
    "closure": ("tick", "fn() -> int", "fn() -> int {\n\tmodify hits = hits + 1\n\treturn hits\n}", "int", "X()", None,
                [("rebind", "tick = fn() -> int {\n\treturn 0 - 1\n}", None, None)]),
    "instance": ("box", "Box", "Box(1)", "int", "X.v", "1", [("rebind", "box = Box(50)", "50", "1"), ("field", "box.v = 9", "9", "9"),
                                                              ("rebind-then-field", "box = Box(50)\nbox.v = 60", "60", "1")]),
}


def rebind_cases():
    """-> [(id, files, expected stdout lines)]"""
    out = []
    for kind, (name, ty, init, vty, expr, first, actions) in sorted(REBIND_KINDS.items()):
        e = lambda x: expr.replace("X", x)
        counter = 'print "init counter"\n' + (BOX if kind == "instance" else "") + ("hits = 0\n" if kind == "closure" else "")
        counter += "export %s: %s = %s\nexport view: fn() -> %s = fn() -> %s {\n\treturn %s\n}\n" % (name, ty, init, vty, vty, e(name))
        other = 'print "init other"\nimport counter\nexport see: fn() -> %s = fn() -> %s {\n\tt = counter.%s\n\treturn %s\n}\n' % (vty, vty, name, e("t"))
        if kind in ("function", "closure"):
            other = 'print "init other"\nimport counter\nexport see: fn() -> %s = fn() -> %s {\n\treturn counter.%s()\n}\n' % (vty, vty, name)
        third = 'print "init third"\nimport %s from counter\nexport see3: fn() -> %s = fn() -> %s {\n\treturn %s\n}\n' % (name, vty, vty, e(name))
        for aname, stmts, mine, theirs in actions:
            wrappers = [("at module level", stmts)]
            wrappers.append(("inside a block", "if true {\n" + "".join("\t" + l + "\n" for l in stmts.split("\n")) + "}"))
            if aname == "rebind":
                ls = stmts.split("\n")          # the last statement is the assignment to the imported name
                k = max(i for i, l in enumerate(ls) if l.startswith(name + " = "))
                wrappers.append(("by `modify` from a function", "change = fn() {\n" + "".join("\t" + ("modify " if i == k else "") + l + "\n" for i, l in enumerate(ls)) + "}\nchange()"))
                wrappers.append(("inside a loop body", "from 0 to 2 {\n" + "".join("\t" + l + "\n" for l in stmts.split("\n")) + "}"))
            for wname, code in wrappers:
                names = ("Box, " if kind == "instance" else "") + name
                for form, imp, view in (("names", "import %s, view from counter\n" % names, "view()"), ("module and names", "import counter\nimport %s from counter\n" % names, "counter.view()"),
                                        ("names, one statement each", "import view from counter\nimport %s from counter\n" % names, "view()")):
                    main = 'print "main start"\n' + imp + "import other\nprint %s\n" % e(name) + code + "\nprint %s\nprint %s\nprint other.see()\nimport third\nprint third.see3()\nprint %s\n" % (e(name), view, e(name))
                    if kind == "closure":
                        # the exported function counts its calls in the module's own variable: 1 (importer, before), then the module's
                        # view, the second importer and the third one keep counting 2 3 4; the importer's replacement answers -1
                        exp = ["main start", "init counter", "init other", "1", "-1", "2", "3", "init third", "4", "-1"]
                    else:
                        exp = ["main start", "init counter", "init other", first, mine, theirs, theirs, "init third", theirs, mine]
                    out.append(("%s export, %s %s, imported as %s" % (kind, aname, wname, form), {"main.ms": main, "counter.ms": counter, "other.ms": other, "third.ms": third}, exp))
    return out


def run_rebinds(ctx, binary):
    base = ctx.mktemp()
    cases = rebind_cases()

    def one(c):
        d = programs.materialize({"files": c[1]}, base)
        r1 = programs.run_bin(binary, ["run", "main.ms", "-q"], d)
        d2 = programs.materialize({"files": c[1]}, base)
        cc = programs.run_bin(binary, ["compile", "main.ms", "--quick"], d2)
        r2 = programs.run_bin(binary, ["execute", "main.mmm"], d2) if cc[0] == 0 else None
        shutil.rmtree(d, ignore_errors=True)
        shutil.rmtree(d2, ignore_errors=True)
        return r1, cc, r2
    n = rejected = failing = 0
    for (cid, files, exp), (r1, cc, r2) in zip(cases, programs.pmap(one, cases)):
        if cc[0] != 0:
            rejected += 1
            why = [l.strip() for l in (cc[1] + cc[2]).splitlines() if l.strip().startswith("=")]
            ctx.report("generator:rejected", "a fixed program of the rebinding family is refused by the compiler and so checks nothing: %s: %s" % (cid, why[:1]),
                       {"case": cid, "files": files, "rc": cc[0], "output": (cc[1] + cc[2])[-800:]})
            continue
        for how, r in (("run", r1), ("compile + execute", r2)):
            n += 1
            got = r[1].split("\n")[:-1]
            if r[0] == 0 and got == exp:
                continue
            others = [i for i in (5, 6, 8) if i < len(got) and got[i] != exp[i]]
            cls = "importer-reassigns-export" if others else "imported-name-not-a-variable-of-the-importer"
            failing += 1
            if failing > 6:
                continue              # one cause fails a whole row of these programs: six are written out, the rest counted
            ctx.report(cls, "%s (%s): exit %d, printed %r, expected %r%s" % (
                cid, how, r[0], got, exp, "; the module's own view / another importer's view of the export changed with the importer's variable" if others else ""),
                {"case": cid, "files": files, "expected": exp, "observed": got, "rc": r[0], "stderr": r[2][-500:],
                 "lines": "main start, init counter, init other, importer's value before, importer's value after, the module's own view, a second importer's view (through the module value), init third, a later names-importer's view, importer's value again",
                 "how": "mscript run main.ms -q   /   mscript compile main.ms --quick; mscript execute main.mmm"})
    ctx.cov["rebinding_imported_names"] = {"programs": len(cases), "rejected": rejected, "failing_runs": failing, "kinds": sorted(REBIND_KINDS),
                                           "rule": "export kind x (rebind / compound assignment / in-place change) x (module level, block, loop body, `modify` from a function) x 3 import forms; both modes"}
    return n


def run_double_exports(ctx, binary):
    """(hunt D9) a module that marks ONE name `export` twice with the same type.  The compiler compares the two declarations
    (a different type is a diagnostic), so the pair is either refused before anything runs, or it is an ordinary program whose
    top level runs to its end before the importer continues.  What may not happen is the third thing: the module starts, and
    its initialisation is cut short by the interpreter's internal write-once check on the export table."""
    base = ctx.mktemp()
    decls = [("int", "1", "2"), ("str", '"a"', '"b"'), ("[int...]", "[1]", "[2]"), ("fn() -> int", "fn() -> int {\n  return 1\n}", "fn() -> int {\n  return 2\n}")]
    cases = []
    for ty, v1, v2 in decls:
        for middle in ("", 'print "m middle"\n', 'other: int = 5\n'):
            m = 'print "m init"\nexport level: %s = %s\n%sexport level: %s = %s\nprint "m end"\n' % (ty, v1, middle, ty, v2)
            for form, imp in (("import m", "import m\n"), ("import level from m", "import level from m\n"), ("import m twice", "import m\nimport level from m\n")):
                cases.append(("%s / %s / %r" % (ty, form, middle), "main.ms", {"main.ms": 'print "main start"\n%sprint "main after import"\n' % imp, "m.ms": m},
                              ["main start", "m init", "m end", "main after import"]))
            cases.append(("%s / the module is the entry / %r" % (ty, middle), "m.ms", {"m.ms": m}, ["m init", "m end"]))

    def one(case):
        name, entry, files, must = case
        d = programs.materialize({"files": files}, base)
        r1 = programs.run_bin(binary, ["run", entry, "-q"], d)
        c = programs.run_bin(binary, ["compile", entry, "--quick"], d)
        r2 = programs.run_bin(binary, ["execute", entry[:-3] + ".mmm"], d) if c[0] == 0 else None
        shutil.rmtree(d, ignore_errors=True)
        return r1, c, r2

    n = 0
    for (name, entry, files, must), (r1, c, r2) in zip(cases, programs.pmap(one, cases)):
        for mode, r in (("run", r1), ("execute", r2)):
            if r is None:
                continue
            n += 1
            got = r[1].splitlines()
            printed = [l for l in got if l in must or l == "m middle"]
            completed = r[0] == 0 and [l for l in got if l in must] == must
            refused = r[0] != 0 and not printed and "MSCRIPT INTERPRETER" not in r[2]
            if not (completed or refused):
                ctx.report("double-export-aborts-module-initialisation",
                           "a module that exports one name twice (%s) is accepted by the compiler, starts, and does not finish its top level under %s: exit %s, printed %r, %s" % (
                               name, mode, r[0], printed, (r[2].strip().splitlines() or [""])[-1][:120] if "Double export" not in r[2] else "Double export: name is already exported"),
                           {"files": files, "entry": entry, "mode": mode, "rc": r[0], "stdout": r[1][-800:], "stderr": r[2][-800:],
                            "expected": "a diagnostic before anything runs, or %r printed in this order and exit 0" % must,
                            "how": "mscript run %s -q   /   mscript compile %s --quick; mscript execute %s.mmm" % (entry, entry, entry[:-3])})
    return n


def run_identity_and_parent_imports(ctx, binary):
    """(hunt2 D6, D9) two more observations of "one instance per module, shared by all importers".
    D6: the language's identity operator `is` on module values: a module is itself under every name that refers to it, and two
        modules are two instances even when they export equal values (changing one never changes the other).
    D9: an import edge that goes UP a directory (`import ../m`, `a/../m`): the grammar has a rule for `..`; the module reached
        that way is the one instance every other spelling reaches (initialised once, state shared, its classes one type)."""
    base = ctx.mktemp()
    cases = []          # (class, name, entry, files, expected stdout lines)
    # ---- D6
    exports = {"int": "export n: int = 0\n", "map": 'export n: int = 0\nexport table: map[str, int] = map[str, int]{"k": 1}\n',
               "list": "export n: int = 0\nexport l: [int...] = [1, 2]\n", "float": "export x: float = 0.5\n",
               "function": "export f: fn() -> int = fn() -> int {\n\treturn 1\n}\n",
               "object": "export class K {\n\tv: int\n\tconstructor(self) {\n\t\tself.v = 1\n\t}\n}\nexport k: K = K()\n",
               "nothing": "hidden = 1\n"}
    for kind, text in sorted(exports.items()):
        files = {"a.ms": 'print "init a"\n' + text, "b.ms": 'print "init b"\n' + text}
        same = ('import a\nimport b\nagain = a\nprint a is a\nprint again is a\nprint a is again\n'
                'same = fn() -> bool {\n\tother = a\n\treturn other is a\n}\nprint same()\n')
        cases.append(("module-identity:module-is-not-itself", "exports " + kind, "main.ms", dict(files, **{"main.ms": same}),
                      ["init a", "init b", "true", "true", "true", "true"]))
        diff = 'import a\nimport b\nagain = b\nprint a is b\nprint b is a\nprint again is a\n'
        cases.append(("module-identity:two-modules-are-one", "exports " + kind, "main.ms", dict(files, **{"main.ms": diff}),
                      ["init a", "init b", "false", "false", "false"]))
    # ---- D9
    counter = ('print "init counter"\nn = 0\nexport bump: fn() = fn() {\n\tmodify n = n + 1\n}\nexport peek: fn() -> int = fn() -> int {\n\treturn n\n}\n'
               'export class Box {\n\tv: int\n\tconstructor(self, v: int) {\n\t\tself.v = v\n\t}\n}\n')
    up_forms = {"whole": ("import %s\n", "counter.bump()"), "names": ("import bump, peek from %s\n", "bump()")}
    for form, (imp, bump) in sorted(up_forms.items()):
        for sub, up in (("sub", "../counter"), ("sub", "./../counter"), ("sub", "../counter.ms"), ("sub/deep", "../../counter"), ("sub/deep", "../deep/../../counter")):
            worker = 'print "init worker"\n' + imp % up + 'export work: fn() = fn() {\n\t%s\n}\n' % bump
            for first in ("counter", "worker"):
                imports = ["import counter\n", "import %s/worker\n" % sub]
                exp = ["start", "init counter", "init worker"] if first == "counter" else ["start", "init worker", "init counter"]
                if first == "worker":
                    imports.reverse()
                main = 'print "start"\n' + "".join(imports) + 'worker.work()\nprint counter.peek()\ncounter.bump()\nworker.work()\nprint counter.peek()\n'
                cases.append(("parent-directory-import", "%s `%s` from %s/worker.ms, entry imports %s first" % (form, up, sub, first), "main.ms",
                              {"main.ms": main, "counter.ms": counter, sub + "/worker.ms": worker}, exp + ["1", "3"]))
    # a `..` in the middle of a path written in the entry module; the entry module itself in a sub-directory
    cases.append(("parent-directory-import", "entry imports counter and sub/../counter", "main.ms",
                  {"main.ms": 'print "start"\nimport counter\nimport bump from sub/../counter\nbump()\nprint counter.peek()\n', "counter.ms": counter,
                   "sub/unused.ms": "x = 1\n"}, ["start", "init counter", "1"]))
    cases.append(("parent-directory-import", "entry app/main.ms imports ../counter and ../lib/user (which imports ../counter)", "app/main.ms",
                  {"app/main.ms": 'print "start"\nimport ../counter\nimport ../lib/user\nuser.work()\ncounter.bump()\nprint counter.peek()\n', "counter.ms": counter,
                   "lib/user.ms": 'print "init user"\nimport bump from ../counter\nexport work: fn() = fn() {\n\tbump()\n}\n'},
                  ["start", "init counter", "init user", "2"]))
    # a class of the parent module is ONE type whichever way it is reached
    cases.append(("parent-directory-import", "a class exported by the parent module, reached as counter and as ../counter", "main.ms",
                  {"main.ms": 'print "start"\nimport Box from counter\nimport sub/maker\nb: Box = maker.mk()\nprint b.v\n', "counter.ms": counter,
                   "sub/maker.ms": 'print "init maker"\nimport Box from ../counter\nexport mk: fn() -> Box = fn() -> Box {\n\treturn Box(7)\n}\n'},
                  ["start", "init counter", "init maker", "7"]))

    def one(case):
        cls, name, entry, files, exp = case
        d = programs.materialize({"files": files}, base)
        r1 = programs.run_bin(binary, ["run", entry, "-q"], d)
        c = programs.run_bin(binary, ["compile", entry, "--quick"], d)
        r2 = programs.run_bin(binary, ["execute", entry[:-3] + ".mmm"], d) if c[0] == 0 else None
        shutil.rmtree(d, ignore_errors=True)
        return r1, r2

    n = 0
    for (cls, name, entry, files, exp), (r1, r2) in zip(cases, programs.pmap(one, cases)):
        for mode, r in (("run", r1), ("compile+execute", r2)):
            if r is None:
                continue
            n += 1
            got = r[1].splitlines()
            if r[0] == 0 and got == exp:
                continue
            if cls == "parent-directory-import":
                inits = [l for l in got if l.startswith("init ")]
                if "Did not compile successfully" in r[2]:
                    sub = "rejected"
                elif len(inits) != len(set(inits)):
                    sub = "initialised-twice"
                elif r[0] != 0:
                    sub = "fails"
                else:
                    sub = "state-not-shared-or-order"
                klass = cls + ":" + sub
            else:
                klass = cls
            why = [l.strip() for l in (r[1] + r[2]).splitlines() if l.strip().startswith("=")]
            ctx.report(klass, "%s (%s): exit %d, printed %r %s; one instance per module means %r" % (name, mode, r[0], got[-5:], why[:1], exp),
                       {"files": files, "entry": entry, "mode": mode, "expected": exp, "observed": got, "rc": r[0], "stderr": r[2][-600:],
                        "how": "mscript run %s -q   /   mscript compile %s --quick; mscript execute %s.mmm" % (entry, entry, entry[:-3])})
    ctx.cov["module_identity_and_parent_import_cases"] = len(cases)
    return n
