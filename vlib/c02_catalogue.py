"""C02: catalogue of boundary cases of each typing rule (fixed programs).

Every entry is a program in which `OBS <expr>` lines stand for the observation protocol of the generator
(bind to a constant, print a marker, the compiler's `typeof`, the kind-tagged value).  The judge is the same
as for generated programs: an entry the compiler REJECTS is fine for C02 (nothing ran); an entry it ACCEPTS
must run without a type-error-like failure and every observed value must have the kind `typeof` promises.
`expect` records what the compiler is expected to do (accept / reject) so that a change of verdict shows up
in the evidence even when it is not a violation.
An entry is (name, expect, source) or (name, expect, source, {file name: text}) when the program imports other files;
`finding_class` maps the entries that are witnesses of one defect to one class string.
"""

SHAPES_LIB = {"shapes.ms": """export class Dog {
	name: str
	constructor(self, name: str) {
		self.name = name
	}
	fn speak(self) -> str {
		return self.name + " says woof"
	}
}
export rex: Dog = Dog("Rex")
"""}

CATALOGUE = [
    # ---- a condition that happens to be a constant does not make its branch "always taken" (seed C02-2)
    ("return-only-under-constant-false-condition", "reject", """
f = fn(v: [int...]) -> int {
	if !true {
		return v[0]
	}
}
OBS f([4, 5])
"""),
    ("return-only-under-literal-false", "reject", """
f = fn(v: int) -> int {
	if false {
		return v
	}
}
OBS f(4)
"""),
    ("return-only-under-constant-true-condition-is-still-conditional", "reject", """
f = fn(v: int) -> str {
	if true {
		return "t"
	}
}
OBS f(4)
"""),
    ("return-only-in-else-of-constant-condition", "reject", """
f = fn(v: int) -> int {
	if true {
		print "t"
	} else {
		return v
	}
}
OBS f(4)
"""),
    ("return-only-in-while-false", "reject", """
f = fn(v: int) -> int {
	while false {
		return v
	}
}
OBS f(4)
"""),
    # ---- the list methods that need ONE element type are not offered on a fixed-shape list (seed C02-1)
    ("mixed-list-remove", "reject", """
const row = [10, 20, "total"]
last = row.remove(2)
OBS last
"""),
    ("mixed-list-reverse-then-index", "reject", """
const row = [10, "mid", 30]
row.reverse()
OBS row[0]
"""),
    ("mixed-list-map", "reject", """
const row = [1, "a"]
r = row.map(fn(x: int) -> int { return x + 1 })
OBS r
"""),
    ("mixed-list-of-equal-kinds-is-open", "accept", """
const row = [10, 20, 30]
last = row.remove(2)
OBS last
"""),
    # ---- a fixed-shape list whose slots are only COMPATIBLE with one another (`[int?, int]` reads as `[int?...]`) must not
    #      get the open-list methods that move values between slots (reverse, remove) or hand the list out under the
    #      wider element type (join returns the receiver): a nil would land in the slot typed `int` (hunt 4 B/1 = C/4)
    ("slot-shuffle-reverse", "reject", """
const x: [int?, int] = [nil, 5]
x.reverse()
OBS x[1]
"""),
    ("slot-shuffle-remove", "reject", """
const x: [int?, int, int?] = [1, 2, nil]
x.remove(0)
OBS x[1]
"""),
    ("slot-shuffle-join-hands-out-the-receiver", "reject", """
const c: [int?, int] = [nil, 2]
e: [int?...] = []
d = c.join(e)
d[1] = nil
OBS c[1]
"""),
    ("slot-shuffle-reverse-through-a-parameter", "reject", """
f = fn(p: [int?, int]) -> int {
	p.reverse()
	return p[1]
}
a: int? = nil
OBS f([a, 5])
"""),
    ("slot-shuffle-reverse-str-slots", "reject", """
const x: [str?, str, str] = [nil, "a", "b"]
x.reverse()
OBS x[2]
"""),
    ("slot-shuffle-reverse-in-a-field", "reject", """
class Box {
	v: [int?, int]
	constructor(self) {
		self.v = [nil, 7]
	}
	fn flip(self) -> int {
		const w = self.v
		w.reverse()
		return w[1]
	}
}
bx = Box()
OBS bx.flip()
"""),
    ("slot-shuffle-controls-all-slots-alike", "accept", """
const u: [int?, int?] = [nil, 5]
u.reverse()
OBS u[1]
const v: [int, int, int] = [1, 2, 3]
v.reverse()
OBS v[0]
OBS v.remove(0)
const w: [int?, int?] = [nil, 4]
e: [int?...] = [6]
j = w.join(e)
OBS j
"""),
    # ---- list types are covariant in the optional-ness of their element although lists are shared by reference
    #      (hunt 4 B/2 = C/5; the repository's own test class::field_of_self relies on the widening: KNOWN finding)
    ("covariant-list-initializer", "accept", """
a: [int...] = [1, 2]
b: [int?...] = a
b[0] = nil
OBS a[0]
"""),
    ("covariant-list-argument", "accept", """
a: [int...] = [1, 2]
f = fn(b: [int?...]) {
	b.push(nil)
}
f(a)
OBS a[2]
"""),
    ("covariant-list-nested", "accept", """
a: [[int...]...] = [[1, 2]]
b: [[int?...]...] = a
b[0][0] = nil
OBS a[0][0]
"""),
    ("covariant-list-fixed-shape-as-open", "accept", """
const x: [int, int] = [1, 2]
y: [int?...] = x
y[0] = nil
OBS x[0]
"""),
    # ---- all-paths-return analysis (function.rs / if_statement.rs / scope.rs)
    ("if-returns-else-does-not", "reject", """
f = fn(x: int) -> int {
	if x > 0 {
		return 1
	} else {
		print "no"
	}
}
OBS f(-1)
"""),
    ("else-returns-if-does-not", "reject", """
f = fn(x: int) -> int {
	if x > 0 {
		print "yes"
	} else {
		return 2
	}
}
OBS f(1)
"""),
    ("else-if-chain-without-else", "reject", """
f = fn(x: int) -> int {
	if x > 0 {
		return 1
	} else if x < 0 {
		return 2
	}
}
OBS f(0)
"""),
    ("else-if-chain-complete", "accept", """
f = fn(x: int) -> int {
	if x > 0 {
		return 1
	} else if x < 0 {
		return 2
	} else {
		return 3
	}
}
OBS f(0)
OBS f(1)
OBS f(-1)
"""),
    ("nested-if-all-paths", "accept", """
f = fn(x: int, y: bool) -> str {
	if x > 0 {
		if y {
			return "a"
		} else {
			return "b"
		}
	} else {
		return "c"
	}
}
OBS f(1, true)
OBS f(1, false)
OBS f(0, true)
"""),
    ("nested-if-inner-else-missing-return", "reject", """
f = fn(x: int, y: bool) -> str {
	if x > 0 {
		if y {
			return "a"
		} else {
			print "b"
		}
	} else {
		return "c"
	}
}
OBS f(1, false)
"""),
    ("return-only-inside-while", "reject", """
f = fn(x: int) -> int {
	while x > 0 {
		return 1
	}
}
OBS f(0)
"""),
    ("return-only-inside-from", "reject", """
f = fn(x: int) -> int {
	from 0 to x {
		return 1
	}
}
OBS f(0)
"""),
    ("return-after-loop", "accept", """
f = fn(x: int) -> int {
	from 0 to x, i {
		if i == 2 {
			return i
		}
	}
	return -x
}
OBS f(5)
OBS f(1)
"""),
    ("void-function-returns-value", "reject", """
f = fn() {
	return 1
}
f()
"""),
    ("value-function-bare-return", "reject", """
f = fn() -> int {
	return
}
OBS f()
"""),
    ("store-void-call", "reject", """
f = fn() {
	print "x"
}
x = f()
"""),
    # ---- a str has no element to replace, whichever scope it lives in (captured by a function / a method)
    ("captured-str-element-assignment-in-closure", "reject", """
title = "abc"
f = fn() {
	title[0] = "C"
}
f()
OBS title
"""),
    ("captured-str-element-assignment-in-method", "reject", """
title = "abc"
class K {
	constructor(self) {}
	fn set(self) {
		title[0] = "C"
	}
}
k = K()
k.set()
OBS title
"""),
    ("captured-str-element-assignment-depth-2", "reject", """
mk = fn() -> fn() {
	word = "abc"
	g = fn() {
		h = fn() {
			word[1] = "x"
		}
		h()
	}
	return g
}
r = mk()
r()
"""),
    # ---- optionals across positions: a `T?` may be nil, so it is not a value for a slot typed `T` (element, field, map
    #      value, result): the program is ill-typed and must be refused, like `x: int = o` (fixed in /repo 85544e6)
    ("optional-into-element-by-reassignment", "reject", """
l: [int...] = [1, 2]
o: int? = nil
l[0] = o
OBS l[0]
OBS l[1]
"""),
    ("builtin-optional-into-element", "reject", """
l: [int...] = [1, 2]
l[0] = "5".parse_int()
OBS l[0]
x = l[0] + 1
OBS x
"""),
    # (a `T?` is not a return value of `-> T`: rejected since the return check stopped unwrapping the supplied type)
    ("optional-returned-as-base-type", "reject", """
f = fn(s: str) -> int {
	return s.parse_int()
}
OBS f("12")
y = f("7") + 1
OBS y
"""),
    ("or-leaves-value-usable", "accept", """
x = (("5".parse_int()) or 0) + 1
OBS x
p = "5".parse_int()
OBS p
q = p + 1
OBS q
r = ("zz".parse_int()) or 3
OBS r
"""),
    ("optional-arithmetic-present", "accept", """
a = 5
b: int? = nil
b ?= 10
OBS a + b
c: float? = 2.5
OBS c * 2
"""),
    ("optional-argument-needs-unwrap", "reject", """
f = fn(a: int) -> int {
	return a + 1
}
o: int? = 5
OBS f(o)
"""),
    ("optional-initializer-needs-unwrap", "reject", """
o: int? = 5
x: int = o
OBS x
"""),
    ("get-on-present-and-or", "accept", """
o: str? = "abc"
OBS get o
OBS o or "zz"
n: str? = nil
OBS n or "zz"
OBS n == nil
OBS o == nil
"""),
    ("unwrap-into-if-and-while", "accept", """
src: int? = 4
a: int? = nil
if a ?= src {
	OBS a
	OBS get a
}
k = 0
nxt: int? = nil
gen = fn(i: int) -> int? {
	if i > 2 {
		return nil
	}
	return i * 10
}
while nxt ?= gen(k) {
	OBS nxt
	k = k + 1
}
OBS k
"""),
    ("nil-where-base-type-expected", "reject", """
x: int = nil
OBS x
"""),
    ("optional-of-class-field-access", "accept", """
class P {
	v: int
	constructor(self, v: int) {
		self.v = v
	}
}
o: P? = P(3)
OBS o
OBS (get o).v
"""),
    # ---- fixed-shape and open lists
    ("fixed-list-longer-value", "reject", """
const a: [int] = [1, "x"]
f = fn(l: [int...]) -> int {
	return l[1]
}
OBS f(a)
"""),
    ("fixed-list-shorter-value", "reject", """
const a: [int, int, int] = [1, 2]
OBS a[2]
"""),
    ("fixed-list-argument-length", "reject", """
f = fn(p: [int, str]) -> str {
	return p[1]
}
OBS f([1, "a", 2.5])
"""),
    ("fixed-list-exact", "accept", """
const a: [int, str, float] = [1, "a", 2.5]
OBS a[0]
OBS a[1]
OBS a[2]
f = fn(p: [int, str, float]) -> str {
	return p[1] + p[0]
}
OBS f(a)
"""),
    ("fixed-list-into-open-parameter", "accept", """
const a = [1, 2, 3]
f = fn(l: [int...]) -> int {
	return l[2] + l.len()
}
OBS f(a)
g = fn(l: [int?...]) -> int? {
	return l[0]
}
OBS g([1, nil])
OBS g([nil, 1])
"""),
    ("heterogeneous-fixed-list-into-open-parameter", "reject", """
f = fn(l: [int...]) -> int {
	return l[1]
}
OBS f([1, "x"])
"""),
    ("empty-list-type-launders", "reject", """
l: [str...] = ["a", "b"]
const e: [] = l
m: [int...] = e
x = m[0]
OBS x
OBS x + 1
"""),
    ("empty-list-type-parameter", "reject", """
f = fn(e: []) -> [int...] {
	m: [int...] = e
	return m
}
OBS (f(["a"]))[0]
"""),
    ("empty-literal-into-open-list", "accept", """
x: [int...] = []
x.push(4)
OBS x
OBS x[0]
"""),
    ("open-list-of-lists", "accept", """
l: [[int...]...] = [[1, 2], [3]]
OBS l[0][1]
l[1] = [7, 8, 9]
OBS l[1][2]
l[0][0] = 5
OBS l[0][0]
"""),
    ("push-wrong-element-type", "reject", """
l: [int...] = [1]
l.push("a")
OBS l[1]
"""),
    ("index-with-non-index", "reject", """
l: [int...] = [1]
OBS l["a"]
"""),
    ("index-with-float", "reject", """
l: [int...] = [1]
i = 0.0
OBS l[i]
"""),
    ("string-index", "accept", """
s = "hello"
OBS s[1]
t: str = s + "x"
i = 2
OBS t[i]
"""),
    ("unpack-fixed-list", "accept", """
const p = ["a", 1, 2.5]
[x, y, z] = p
OBS x
OBS y
OBS z
"""),
    # ---- maps
    ("map-value-types", "accept", """
m: map[str, int] = map[str, int] { "a": 1 }
OBS m["a"]
m["b"] = 2
OBS m["b"]
OBS m["zz"]
OBS m.len()
OBS m.contains_key("a")
OBS (m.keys())[0]
OBS (m.values())[0]
"""),
    ("map-wrong-value-type", "reject", """
m: map[str, int] = map[str, int] { "a": 1 }
m["b"] = "x"
OBS m["b"]
"""),
    ("map-wrong-key-type", "reject", """
m: map[str, int] = map[str, int] { "a": 1 }
OBS m[1]
"""),
    ("map-of-lists", "accept", """
m: map[int, [str...]] = map[int, [str...]] { 1: ["a"] }
OBS m[1]
OBS m[1][0]
"""),
    # ---- operators (the exhaustive table is layer (a); here: in composite positions)
    ("bool-with-byte", "reject", """
a = true
b = 0b1
OBS a + b
"""),
    ("bitwise-byte-bigint", "accept", """
a: byte = 0b101
b: bigint = B6
c: int = 3
OBS a & a
OBS a & b
OBS c & b
OBS a | c
OBS b xor a
OBS a << 0b1
OBS c >> a
"""),
    ("op-assign-keeps-variable-type", "reject", """
a: int = 1
a += 2.5
OBS a
"""),
    ("op-assign-element-and-field", "accept", """
class P {
	v: float
	constructor(self) {
		self.v = 1.5
	}
}
l: [int...] = [1, 2]
l[0] += 4
OBS l[0]
p = P()
p.v *= 2
OBS p.v
s = "a"
s += 1
OBS s
"""),
    ("op-assign-element-kind-change", "reject", """
l: [int...] = [1, 2]
l[0] += 2.5
OBS l[0]
"""),
    ("negate-bool", "reject", """
b = true
OBS -b
"""),
    ("is-on-unrelated-kinds", "accept", """
a = 1
b = "x"
OBS a is b
l: [int...] = [1]
OBS l is l
OBS a is 1
"""),
    ("compare-str-with-int", "reject", """
OBS "a" < 1
"""),
    ("condition-not-bool", "reject", """
x = 1
if x {
	print "y"
}
"""),
    ("while-condition-not-bool", "reject", """
x = 1
while x {
	x = 0
}
"""),
    ("element-and-field-as-condition", "accept", """
class A {
	x: bool
	constructor(self) {
		self.x = true
	}
}
l: [bool...] = [true, false]
a = A()
if l[0] {
	OBS l[0]
}
if a.x {
	OBS a.x
}
OBS !l[1]
OBS l[0] && a.x
OBS l[1] || a.x
n: [int...] = [4]
OBS -n[0]
assert l[0]
k = 0
while l[0] {
	l[0] = false
	k += 1
}
OBS k
m: map[str, bool] = map[str, bool] { "k": true }
if m["k"] {
	OBS m["k"]
}
"""),
    # ---- loops
    ("loop-counter-kinds", "accept", """
from 1.0 to 2.0 step 0.5, n {
	OBS n
}
from B1 to B3, m {
	OBS m
}
from 0b0 to 0b10 step 0b1, k {
	OBS k
}
from 0 through 2, i {
	OBS i
}
"""),
    ("loop-counter-int-start-float-step", "reject", """
from 0 to 2 step 0.5, j {
	OBS j
}
"""),
    ("loop-bound-not-numeric", "reject", """
from "a" to 3, i {
	OBS i
}
"""),
    ("loop-counter-collides-with-other-type", "reject", """
n = "s"
from 0 to 3, n {
	OBS n
}
"""),
    # ---- functions as values
    ("function-value-wrong-arity", "reject", """
f: fn(int) -> int = fn(a: int, b: int) -> int {
	return a + b
}
OBS f(1)
"""),
    ("function-argument-wrong-arity", "reject", """
g = fn(h: fn(int) -> int) -> int {
	return h(1)
}
h0 = fn() -> int {
	return 1
}
OBS g(h0)
"""),
    ("too-few-arguments", "reject", """
f = fn(a: int, b: int) -> int {
	return a + b
}
OBS f(1)
"""),
    ("too-many-arguments", "reject", """
f = fn(a: int, b: int) -> int {
	return a + b
}
OBS f(1, 2, 3)
"""),
    ("call-non-function", "reject", """
x = 5
OBS x(1)
"""),
    ("function-parameter-optional-mismatch", "reject", """
f: fn(int?) -> int = fn(a: int) -> int {
	return a + 1
}
OBS f(nil)
"""),
    ("function-return-covariance", "accept", """
f: fn() -> int? = fn() -> int {
	return 1
}
OBS f()
"""),
    ("higher-order-and-closures", "accept", """
apply = fn(h: fn(int) -> int, x: int) -> int {
	return h(x)
}
k = 10
add_k = fn(a: int) -> int {
	return a + k
}
OBS apply(add_k, 1)
mk = fn(n: int) -> fn(int) -> int {
	return fn(a: int) -> int {
		return a * n
	}
}
triple = mk(3)
OBS triple(4)
OBS apply(triple, 2)
"""),
    ("captured-variable-in-method-argument", "accept", """
a = "y"
s = "x"
f = fn() -> str {
	return s.replace("x", a)
}
OBS f()
n = 5
l: [int...] = [1, 2]
g = fn() -> [int...] {
	return l.map(fn(x: int) -> int {
		return n + x
	})
}
OBS g()
OBS (g())[0]
"""),
    ("captured-variable-as-reassignment-target", "accept", """
l: [int...] = [1]
f = fn() {
	l[0] = 5
}
f()
OBS l[0]
"""),
    ("modify-captured-variable", "accept", """
c = 0
inc = fn() {
	modify c = c + 1
}
inc()
inc()
OBS c
"""),
    ("recursion-through-self", "accept", """
fact = fn(n: int) -> bigint {
	if n <= 1 {
		return B1
	}
	return self(n - 1) * n
}
OBS fact(5)
"""),
    ("self-call-wrong-argument", "reject", """
f = fn(s: str) -> int {
	if s == "" {
		return 0
	}
	return self(1)
}
OBS f("a")
"""),
    # ---- classes
    ("class-fields-and-methods", "accept", """
class Acc {
	total: bigint
	name: str
	last: int?
	constructor(self, name: str) {
		self.total = B0
		self.name = name
		self.last = nil
	}
	fn add(self, x: int) -> bigint {
		self.total = self.total + x
		self.last = x
		return self.total
	}
	fn label(self) -> str {
		return self.name + ":" + self.total
	}
}
a = Acc("t")
OBS a.add(4)
OBS a.add(5)
OBS a.total
OBS a.last
OBS a.label()
OBS a
"""),
    ("unset-field-reads-nil", "accept", """
class A {
	x: int
	constructor(self) {
	}
}
a = A()
OBS a.x
"""),
    ("unknown-field", "reject", """
class A {
	x: int
	constructor(self) {
		self.x = 1
	}
}
a = A()
OBS a.y
"""),
    ("field-wrong-type", "reject", """
class A {
	x: int
	constructor(self) {
		self.x = "s"
	}
}
a = A()
OBS a.x
"""),
    ("method-wrong-argument", "reject", """
class A {
	x: int
	constructor(self) {
		self.x = 1
	}
	fn add(self, y: int) -> int {
		return self.x + y
	}
}
a = A()
OBS a.add("s")
"""),
    ("field-holding-a-function", "accept", """
class A {
	f: fn(int) -> int
	k: int
	constructor(self) {
		self.k = 10
		self.f = fn(a: int) -> int {
			return a + 1
		}
	}
	fn twice(self, x: int) -> int {
		return self.f(self.f(x)) + self.k
	}
}
a = A()
OBS a.f
OBS a.f(2)
OBS a.twice(1)
g = a.f
OBS g(5)
"""),
    ("class-names-itself-in-method", "accept", """
class K {
	v: int
	constructor(self, v: int) {
		self.v = v
	}
	fn twin(self) -> Self {
		return K(self.v + 1)
	}
	fn other(self) -> Self {
		return Self(self.v + 2)
	}
}
a = K(1)
b = a.twin()
OBS b
OBS b.v
c = a.other()
OBS c.v
"""),
    ("self-typed-parameter", "accept", """
class D {
	name: str
	constructor(self, name: str) {
		self.name = name
	}
	fn with(self, other: Self) -> str {
		return self.name + other.name
	}
}
x = D("a")
y = D("b")
OBS x.with(y)
"""),
    ("objects-in-lists-and-maps", "accept", """
class D {
	v: int
	constructor(self, v: int) {
		self.v = v
	}
}
l: [D...] = [D(1), D(2)]
OBS l[1]
OBS (l[1]).v
m: map[str, D] = map[str, D] { "a": D(3) }
OBS (m["a"]).v
"""),
    # ---- aliases
    ("alias-chain", "accept", """
type A int
type B A
x: B = 5
y: int = x
OBS x
OBS y
OBS x + y
f = fn(a: A) -> B {
	return a * 2
}
OBS f(y)
"""),
    ("alias-mismatch", "reject", """
type S str
x: S = 5
OBS x
"""),
    # ---- unpacking: every name receives ONE element, also when the pattern has a single name
    #      (a line starting with `[` continues the previous expression, hence the separating `if true {}`)
    ("unpack-single-name", "accept", """
l: [int...] = [5, 6]
if true {}
[a] = l
OBS a
OBS a + 1
const p = ["s", 1, 2.5]
if true {}
[q] = p
OBS q
OBS q + "x"
f = fn(xs: [int...]) -> int {
	[h] = xs
	return h + 1
}
OBS f([7, 8])
"""),
    ("unpack-prefix-of-the-elements", "accept", """
const p = ["s", 1, 2.5]
if true {}
[x, y] = p
OBS x
OBS y
OBS y + 1
l: [bool...] = [true, false, true]
if true {}
[b0, b1] = l
OBS b0
OBS b1 && b0
"""),
    # ---- only a LIST is unpacked (`v[0]`, `v[1]`, ... are its elements): a map whose key type merely ACCEPTS an int
    #      (`int?`, an alias of int) is not a list -- accepted, it reaches `vec_op` with a map (hunt3 B/1)
    ("unpack-map-keyed-by-alias-of-int", "reject", """
type K int
m = map[K, str] { 0: "a", 1: "b" }
if true {}
[a, b] = m
OBS a
OBS b
"""),
    ("unpack-map-keyed-by-optional-int", "reject", """
m = map[int?, str] { }
if true {}
[a, b] = m
OBS a
"""),
    ("unpack-map-keyed-by-optional-int-single-name", "reject", """
m = map[int?, str] { }
if true {}
[a] = m
OBS a
"""),
    ("unpack-map-keyed-by-int", "reject", """
m = map[int, str] { 0: "a", 1: "b" }
if true {}
[a, b] = m
OBS a
"""),
    ("unpack-map-keyed-by-alias-of-int-in-function", "reject", """
type K int
f = fn(m: map[K, str]) -> str {
	[a, b] = m
	return a + b
}
OBS f(map[K, str] { 0: "a", 1: "b" })
"""),
    # ---- a value that may be nil does not reach a position typed as plain (hunt3 B/2 .. B/6): accepted, the plain
    #      variable holds nil and the first operator applied to it fails
    ("optional-returned-from-a-plain-result-type", "reject", """
f = fn(o: int?) -> int {
	return o
}
x = f(nil)
OBS x + 1
"""),
    ("optional-entry-in-a-map-literal-with-plain-values", "reject", """
oi: int? = nil
m = map[str, int] { "a": oi }
v = m["a"]
OBS v + 1
"""),
    ("or-fallback-optional-through-captured-variables", "reject", """
x: int? = nil
y: int? = nil
f = fn() -> int {
	r = (x) or y
	return r
}
OBS f() + 1
"""),
    ("map-result-of-optionals-into-a-plain-list", "reject", """
l: [int...] = [1, 2, 3]
q = fn(x: int) -> int? {
	if x == 2 {
		return nil
	}
	return x
}
s: [int...] = l.map(q)
OBS s[1] + 1
"""),
    ("map-result-of-optionals-unwrapped-is-plain", "accept", """
l: [int...] = [1, 2, 3]
q = fn(x: int) -> int? {
	if x == 2 {
		return nil
	}
	return x
}
r = l.map(q)
d = get r[0]
OBS d + 1
OBS (r[1]) or 7
OBS r
"""),
    ("open-list-of-optionals-into-a-fixed-shape-of-plain", "reject", """
b: [int?...] = [1, nil]
const a: [int, int] = b
z: int = a[1]
OBS z + 1
"""),
    # ---- KNOWN FINDING `catalogue:field-never-assigned-by-constructor`: a field of a plain (non-optional) type that
    #      the constructor does not assign on every path reads as nil; its static type promises a value.  All entries of
    #      this group report that one class (UNASSIGNED_FIELD); a tree that rejects such classes reports nothing here.
    ("field-unassigned-empty-constructor", "accept", """
class E {
	x: int
	constructor(self) {
	}
}
e = E()
OBS e.x + 1
"""),
    ("field-unassigned-no-constructor", "accept", """
class E {
	x: int
}
e = E()
OBS e.x + 1
"""),
    ("field-unassigned-on-one-branch", "accept", """
class E {
	x: int
	constructor(self, c: bool) {
		if c {
			self.x = 1
		}
	}
}
e = E(false)
OBS e.x + 1
"""),
    ("field-unassigned-assigned-only-in-a-method", "accept", """
class E {
	x: int
	constructor(self) {
	}
	fn init(self) {
		self.x = 1
	}
}
e = E()
OBS e.x + 1
"""),
    ("field-unassigned-str-field-method-call", "accept", """
class E {
	s: str
	constructor(self) {
	}
}
e = E()
OBS e.s.len()
"""),
    ("field-assigned-on-every-branch", "accept", """
class E {
	x: int
	constructor(self, c: bool) {
		if c {
			self.x = 1
		} else {
			self.x = 2
		}
	}
}
e = E(false)
OBS e.x + 1
"""),
    ("unpack-single-name-existing-variable", "reject", """
l: [int...] = [5, 6]
a = 1
if true {}
[a] = l
OBS a
OBS a + 1
"""),
    # ---- class declarations below module level.  KNOWN FINDING `catalogue:class-declared-below-module-level`: the
    #      compiler accepts them, but a class is registered once per module under its bare name -- a second execution of
    #      the declaration stops with `Double export`, two classes of one name share code and type.  All entries of this
    #      group report that one class (NESTED_CLASS); a tree that rejects such declarations reports nothing here.
    ("class-declared-in-function", "accept", """
f = fn(n: int) -> int {
	class B {
		v: int
		constructor(self, v: int) {
			self.v = v
		}
	}
	b = B(n)
	return b.v + 1
}
OBS f(1)
OBS f(2)
"""),
    ("class-declared-in-loop", "accept", """
from 0 to 2, i {
	class B {
		v: int
		constructor(self, v: int) {
			self.v = v
		}
	}
	b = B(i)
	OBS b.v
}
"""),
    ("class-declared-in-while-with-methods", "accept", """
k = 0
while k < 2 {
	class W {
		fn val(self) -> int {
			return 1
		}
	}
	w = W()
	OBS w.val()
	k += 1
}
"""),
    ("class-in-function-named-like-a-module-class", "accept", """
class A {
	v: str
	constructor(self, v: str) {
		self.v = v
	}
}
h: A? = nil
f = fn() {
	class A {
		v: int
		constructor(self, v: int) {
			self.v = v
		}
	}
	modify h = A(5)
}
f()
OBS (get h).v
"""),
    ("two-functions-each-with-a-class-of-one-name", "accept", """
f = fn() -> int {
	class Helper {
		fn val(self) -> int {
			return 1
		}
	}
	return (Helper()).val()
}
g = fn() -> str {
	class Helper {
		fn val(self) -> str {
			return "two"
		}
	}
	return (Helper()).val()
}
OBS f()
OBS g()
"""),
    # ---- `Self` in a member's signature is the class the member belongs to, wherever it is looked up
    ("self-nested-in-signature", "accept", """
class A {
	v: int
	constructor(self, v: int) {
		self.v = v
	}
	fn all(self) -> [Self...] {
		r: [Self...] = [self]
		return r
	}
	fn maybe(self) -> Self? {
		return self
	}
	fn table(self) -> map[str, Self] {
		return map[str, Self] { "me": self }
	}
	fn pick(self, others: [Self...]) -> Self {
		return others[0]
	}
	fn me(self) -> Self {
		return self
	}
}
class B {
	v: str
	w: str
	constructor(self) {
		self.v = "bee"
		self.w = "w"
	}
	fn first(self, a: A) -> int {
		l = a.all()
		x = l[0]
		OBS x
		OBS x.v
		m = a.maybe()
		OBS (get m).v
		t = a.table()
		OBS (t["me"]).v
		OBS (a.pick(l)).v
		y = a.me().me()
		OBS y.v
		OBS self.v
		return 1
	}
}
a = A(1)
OBS ((a.all())[0]).v
OBS (B()).first(a)
"""),
    ("self-in-list-return-field-kind", "accept", """
class A {
	v: int
	constructor(self, v: int) {
		self.v = v
	}
	fn all(self) -> [Self...] {
		r: [Self...] = [self]
		return r
	}
}
class B {
	v: str
	constructor(self) {
		self.v = "bee"
	}
	fn first(self, a: A) -> int {
		l = a.all()
		x = l[0]
		OBS x.v
		return 1
	}
}
OBS (B()).first(A(1))
"""),
    ("self-in-list-return-seen-from-another-class", "reject", """
class A {
	v: int
	constructor(self, v: int) {
		self.v = v
	}
	fn all(self) -> [Self...] {
		r: [Self...] = [self]
		return r
	}
}
class B {
	v: str
	w: str
	constructor(self, w: str) {
		self.v = w
		self.w = w
	}
	fn steal(self, a: A) -> str {
		l = a.all()
		x = l[0]
		return x.w
	}
}
OBS (B("bee")).steal(A(1))
"""),
    ("self-optional-return-of-a-class-declared-later", "accept", """
holder: C? = nil
class D {
	w: str
	constructor(self) {
		self.w = "dee"
	}
	fn peek(self) -> int {
		c = get holder
		m = c.maybe()
		OBS m
		g = get m
		OBS g
		OBS g.v
		n = c.next
		OBS n
		return g.v
	}
}
class C {
	v: int
	next: Self?
	constructor(self) {
		self.v = 1
		self.next = nil
	}
	fn maybe(self) -> Self? {
		return self
	}
}
holder = C()
OBS (D()).peek()
"""),
    ("self-optional-return-of-a-class-declared-later-foreign-field", "reject", """
holder: C? = nil
class D {
	w: str
	constructor(self) {
		self.w = "dee"
	}
	fn peek(self) -> str {
		c = get holder
		g = get c.maybe()
		return g.w
	}
}
class C {
	v: int
	constructor(self) {
		self.v = 1
	}
	fn maybe(self) -> Self? {
		return self
	}
}
holder = C()
OBS (D()).peek()
"""),
    # ---- equality: objects cannot be compared, also not inside an optional
    ("optional-object-equality", "reject", """
class C {
	v: int
	constructor(self, v: int) {
		self.v = v
	}
}
a: C? = C(1)
b: C? = C(1)
OBS a == b
"""),
    ("optional-object-inequality-in-condition", "reject", """
class C {
	v: int
	constructor(self, v: int) {
		self.v = v
	}
}
a: C? = C(1)
b: C? = a
if a != b {
	print "differ"
}
"""),
    ("optional-object-compared-with-nil", "accept", """
class C {
	v: int
	constructor(self, v: int) {
		self.v = v
	}
}
a: C? = C(1)
n: C? = nil
OBS a == nil
OBS n == nil
OBS nil != a
"""),
    # ---- a type alias names a type, not a variable
    ("alias-of-class-used-as-a-value", "reject", """
class Dog {
	n: str
	constructor(self, n: str) {
		self.n = n
	}
}
type Floof Dog
x = Floof
OBS x.n
"""),
    ("alias-of-class-leaves-a-variable-of-that-name-alone", "accept", """
class Dog {
	n: str
	constructor(self, n: str) {
		self.n = n
	}
}
Floof = 5
type Floof Dog
OBS Floof
d: Floof = Dog("rex")
OBS d
OBS d.n
"""),
    ("alias-of-class-leaves-a-variable-of-that-name-usable", "accept", """
class Dog {
	n: str
	constructor(self, n: str) {
		self.n = n
	}
}
Floof = 5
type Floof Dog
OBS Floof + 1
Floof = 7
OBS Floof
"""),
    ("alias-of-class-retyped-variable-field", "reject", """
class Dog {
	n: str
	constructor(self, n: str) {
		self.n = n
	}
}
Floof = 5
type Floof Dog
OBS Floof.n
"""),
    # ---- a method is reached through `self`; its bare name is not a variable of the class body
    ("bare-method-name-inside-a-method", "reject", """
class C {
	x: int
	constructor(self) {
		self.x = 5
	}
	fn a(self, k: int) -> int {
		return self.x + k
	}
	fn b(self) -> int {
		return a(1)
	}
}
c = C()
OBS c.b()
"""),
    ("bare-method-name-is-the-outer-variable", "accept", """
a = "hello"
class C {
	x: int
	constructor(self) {
		self.x = 5
	}
	fn a(self, k: int) -> int {
		return self.x + k
	}
	fn b(self) -> int {
		OBS a
		return self.a(1)
	}
}
c = C()
OBS c.b()
"""),
    ("bare-method-name-is-the-outer-variable-in-an-expression", "accept", """
a = "hello"
class C {
	x: int
	constructor(self) {
		self.x = 5
	}
	fn a(self, k: int) -> int {
		return self.x + k
	}
	fn b(self) -> str {
		return a + "!"
	}
}
c = C()
OBS c.b()
"""),
    ("bare-method-name-called-is-the-outer-variable", "reject", """
a = "hello"
class C {
	x: int
	constructor(self) {
		self.x = 5
	}
	fn a(self, k: int) -> int {
		return self.x + k
	}
	fn b(self) -> int {
		return a(1)
	}
}
c = C()
OBS c.b()
"""),
    ("duplicate-method-names", "reject", """
class C {
	fn m(self) -> str {
		return "first"
	}
	fn m(self) -> int {
		return 2
	}
}
c = C()
OBS c.m()
s: str = c.m()
OBS s.len()
"""),
    ("field-and-method-of-one-name", "reject", """
class C {
	m: str
	constructor(self) {
		self.m = "field"
	}
	fn m(self) -> int {
		return 2
	}
}
c = C()
OBS c.m
"""),
    # ---- the result of a call that returns nothing is not a value
    ("void-call-as-list-element", "reject", """
f = fn() {
}
const l = [f()]
print l
"""),
    ("void-call-as-later-list-element", "reject", """
f = fn() {
}
const l = [1, f()]
print l
"""),
    ("void-method-call-as-list-element", "reject", """
class K {
	fn m(self) {
	}
}
k = K()
const l = [k.m()]
print l
"""),
    ("void-call-compared-with-nil", "reject", """
f = fn() {
}
OBS f() == nil
"""),
    ("nil-compared-with-void-call", "reject", """
f = fn() {
}
if nil != f() {
	print "x"
}
"""),
    ("void-call-unwrapped", "reject", """
f = fn() {
}
print get f()
"""),
    ("void-calls-identity", "reject", """
f = fn() {
}
OBS f() is f()
"""),
    ("void-call-to-str", "reject", """
f = fn() {
}
OBS (f()).to_str()
"""),
    ("void-call-as-statement-and-printed", "accept", """
f = fn() {
}
f()
print f()
g = fn() {
	return f()
}
g()
OBS 1
"""),
    # ---- a value whose type leaves a kind open (`[]`, `nil`, also nested) cannot be reached under a NAME: the type is
    #      compatible with every list / optional type, so one object was handed out as `[int...]` here and `[str...]` there (hunt2 B/1)
    ("empty-list-under-a-name-as-two-element-types", "reject", """
const e = []
f = fn(l: [int...]) {
	l.push(1)
}
g = fn(l: [str...]) -> str {
	return l[0]
}
f(e)
OBS g(e)
"""),
    ("empty-list-under-a-name-bound-to-two-annotated-names", "reject", """
const e = []
a: [int...] = e
b: [str...] = e
a.push(7)
OBS b[0]
"""),
    ("list-of-nil-under-a-name-as-two-optional-element-types", "reject", """
const p = [nil]
f = fn(l: [int?...]) {
	l[0] = 1
}
g = fn(l: [str?...]) -> str {
	return get l[0]
}
f(p)
OBS g(p)
"""),
    ("open-list-of-nils-under-a-name", "reject", """
const p = [nil, nil]
f = fn(l: [int?...]) {
	l[1] = 1
}
g = fn(l: [str?...]) -> str {
	return get l[1]
}
f(p)
OBS g(p)
"""),
    ("nested-empty-list-under-a-name", "reject", """
const p = [[]]
f = fn(l: [int...]) {
	l.push(1)
}
g = fn(l: [str...]) -> str {
	return l[0]
}
f(p[0])
OBS g(p[0])
"""),
    ("nested-empty-list-handed-out-whole", "reject", """
const p = [[], 1]
f = fn(l: [[int...], int]) {
	const inner = l[0]
	inner.push(1)
}
g = fn(l: [[str...], int]) -> str {
	const inner = l[0]
	return inner[0]
}
f(p)
OBS g(p)
"""),
    ("empty-list-unpacked-into-a-name", "reject", """
const [a, b] = [[], 1]
f = fn(l: [int...]) {
	l.push(b)
}
g = fn(l: [str...]) -> str {
	return l[0]
}
f(a)
OBS g(a)
"""),
    ("clone-of-empty-list-under-a-name", "reject", """
const e = [].clone()
f = fn(l: [float...]) {
	l.push(1.5)
}
g = fn(l: [bool...]) -> bool {
	return l[0]
}
f(e)
OBS g(e)
"""),
    ("nil-or-empty-list-under-a-name", "reject", """
const e = nil or []
f = fn(l: [int...]) {
	l.push(1)
}
g = fn(l: [str...]) -> str {
	return l[0]
}
f(e)
OBS g(e)
"""),
    ("nil-slot-of-fixed-list-under-a-name", "reject", """
const t = [nil, 1]
f = fn(l: [int?, int]) {
	l[0] = 5
}
g = fn(l: [str?, int]) -> str {
	return get l[0]
}
f(t)
OBS g(t)
"""),
    ("empty-list-under-a-name-inside-a-function", "reject", """
h = fn() -> str {
	const e = []
	a: [int...] = e
	b: [str...] = e
	a.push(7)
	return b[0]
}
OBS h()
"""),
    ("empty-list-and-nil-with-annotation", "accept", """
a: [int...] = []
a.push(1)
OBS a[0]
b: [int?...] = [nil]
b.push(2)
OBS b[1]
const d: [int?, str] = [nil, "s"]
OBS d[1]
e: [[int...]...] = [[], [1]]
OBS e.len()
f = fn(l: [int...]) -> int {
	l.push(1)
	return l[0]
}
OBS f([])
g = fn() -> [str...] {
	return []
}
gl = g()
OBS gl.len()
o: int? = nil
OBS (o) or 4
"""),
    # ---- a fixed-shape list gets the growable list's methods only when EVERY element fits one definite element type:
    #      compatibility is not transitive (`int?` accepts `nil`, `nil` accepts `str?`) (hunt2 B/2)
    ("nil-between-two-optional-kinds-remove", "reject", """
x: int? = 1
y: str? = "s"
r = [x, nil, y].remove(2)
OBS (r) or 0
"""),
    ("nil-between-two-optional-kinds-reverse", "reject", """
x: int? = 1
y: str? = "s"
const p = [x, nil, y]
p.reverse()
OBS get p[0]
"""),
    ("nil-between-two-optional-kinds-map", "reject", """
x: int? = 1
y: str? = "s"
r = [x, nil, y].map(fn(v: int?) -> int {
	return (v) or 0
})
OBS r[2]
"""),
    ("nil-between-two-optional-kinds-filter", "reject", """
x: int? = 1
y: str? = "s"
r = [x, nil, y].filter(fn(v: int?) -> bool {
	return v != nil
})
OBS get r[1]
"""),
    ("nil-first-then-two-optional-kinds", "reject", """
x: int? = 1
y: str? = "s"
r = [nil, x, y].remove(2)
OBS r
"""),
    ("empty-list-between-two-list-kinds-remove", "reject", """
a: [int...] = [1]
b: [str...] = ["s"]
r = [a, [], b].remove(2)
OBS r[0]
"""),
    ("empty-list-between-two-list-kinds-reverse", "reject", """
a: [int...] = [1]
b: [str...] = ["s"]
const p = [a, [], b]
p.reverse()
const q = p[0]
OBS q[0]
"""),
    ("nil-slots-hide-two-optional-kinds-one-level-down", "reject", """
x: int? = 1
y: str? = "s"
f = fn(p: [int?, int?]) -> int {
	return get p[1]
}
OBS f([[x, nil], [nil, y]].remove(1))
"""),
    ("optional-then-values-of-its-kind-is-open", "accept", """
x: int? = 1
const p = [x, 2, 3]
r = p.remove(0)
OBS (r) or 9
p.reverse()
OBS p[0]
s = [nil, x, 5].remove(2)
OBS (s) or 8
"""),
    # ---- a class read through its module WITHOUT a call is the constructor (a function), not an instance (hunt2 B/5)
    ("module-class-read-without-call-field", "reject", """
import shapes
K = shapes.Dog
OBS K.name
""", SHAPES_LIB),
    ("module-class-read-without-call-method", "reject", """
import shapes
OBS shapes.Dog.speak()
""", SHAPES_LIB),
    ("module-class-passed-as-an-instance", "reject", """
import shapes
import Dog from shapes
greet = fn(d: Dog) -> str {
	return d.speak()
}
OBS greet(shapes.rex)
OBS greet(shapes.Dog)
""", SHAPES_LIB),
    ("module-class-stored-as-an-instance", "reject", """
import shapes
import Dog from shapes
d: Dog = shapes.Dog
OBS d.name
""", SHAPES_LIB),
    ("module-class-as-list-element-of-instances", "reject", """
import shapes
const l = [shapes.rex, shapes.Dog]
const d = l[1]
OBS d.name
""", SHAPES_LIB),
    ("module-class-returned-as-an-instance", "reject", """
import shapes
import Dog from shapes
mk = fn() -> Dog {
	return shapes.Dog
}
d = mk()
OBS d.speak()
""", SHAPES_LIB),
    ("module-class-read-then-called", "accept", """
import shapes
K = shapes.Dog
d = K("Bo")
OBS d.speak()
OBS shapes.rex.speak()
OBS shapes.Dog("Al").name
e = shapes.rex
OBS e.name
""", SHAPES_LIB),
    # ---- the language's own dynamic failures stay allowed
    ("allowed-get-nil", "accept", """
e: int? = nil
OBS get e
"""),
    ("allowed-index-out-of-range", "accept", """
l: [int...] = [1]
i = 3
OBS l[i]
"""),
    ("allowed-division-by-zero", "accept", """
a = 1
b = 0
OBS a / b
"""),
    ("allowed-assertion", "accept", """
a = 1
assert a == 2
"""),
    ("allowed-overflow", "accept", """
a = 2147483647
b = 1
OBS a + b
"""),
    ("allowed-nil-operand", "accept", """
o: int? = nil
OBS o + 1
"""),
]


def loop_counter_collisions():
    """an EXISTING variable reused as the named counter of a `from` loop, for every (variable kind, bounds kind,
    step: none or each numeric kind).  The loop stores start, start+step, ... into the variable, so this is only
    sound when the variable's kind is the kind of start+step (and that is the kind of start)."""
    nums = ["int", "bigint", "float", "byte"]
    lit = {"int": ("0", "3", "1", "7"), "bigint": ("B0", "B3", "B1", "B7"), "float": ("0.5", "3.0", "1.0", "7.5"), "byte": ("0b0", "0b11", "0b1", "0b101")}
    rank = {"byte": 0, "int": 1, "bigint": 2, "float": 3}

    def arith(a, b):
        if a == b:
            return a
        if "byte" in (a, b):
            return b if a == "byte" else a
        return a if rank[a] > rank[b] else b

    out = []
    for kv in nums:
        for kb in nums:
            for ks in [None] + nums:
                stepk = ks or "int"
                produced = arith(kb, stepk)
                ok = produced == kb and kv == kb
                step = "" if ks is None else " step %s" % lit[ks][2]
                src = "count: %s = %s\nxs: [int...] = [10, 20, 30, 40, 50]\nfrom %s to %s%s, count {\n\tOBS count\n}\nOBS count\n" % (
                    kv, lit[kv][3], lit[kb][0], lit[kb][1], step)
                if kv == "int":
                    src += "OBS xs[count]\nOBS count << 1\n"
                else:
                    src += "OBS count + count\n"
                out.append(("loop-counter-reuses-%s-variable:%s-bounds:%s-step" % (kv, kb, ks or "no"), "accept" if ok else "reject", src))
    return out


CATALOGUE += loop_counter_collisions()


def expand(src):
    """replace `OBS <expr>` lines by the observation protocol"""
    out = []
    n = 0
    for line in src.strip("\n").split("\n"):
        stripped = line.lstrip("\t")
        ind = line[:len(line) - len(stripped)]
        if stripped.startswith("OBS "):
            n += 1
            e = stripped[4:]
            out += ["%sconst o%d = %s" % (ind, n, e), '%sprint "#o%d"' % (ind, n), "%sprint typeof o%d" % (ind, n), "%sprint o%d" % (ind, n)]
        else:
            out.append(line)
    # an OBS spanning several lines (function literal argument): join is not needed, the expression keeps going
    return "\n".join(out) + "\n", n


NESTED_CLASS = {"class-declared-in-function", "class-declared-in-loop", "class-declared-in-while-with-methods",
                "class-in-function-named-like-a-module-class", "two-functions-each-with-a-class-of-one-name"}
NESTED_CLASS_FINDING = "catalogue:class-declared-below-module-level"

# entries that are witnesses of ONE defect report under one class string
UNDETERMINED_NAME_FINDING = "catalogue:undetermined-literal-type-under-a-name"
NEIGHBOUR_COERCION_FINDING = "catalogue:fixed-list-coerced-to-open-by-neighbour-comparison"
MODULE_CLASS_FINDING = "catalogue:module-class-read-without-call-typed-as-instance"
UNASSIGNED_FIELD_FINDING = "catalogue:field-never-assigned-by-constructor"
SLOT_SHUFFLE_FINDING = "catalogue:fixed-list-slots-shuffled-by-open-list-method"
COVARIANT_LIST_FINDING = "catalogue:list-element-optionality-is-covariant"
# entries whose observations have a PLAIN static type by construction: a nil there is the defect (the general judge is
# silent about nil because nil is admissible wherever an optional may flow)
PLAIN_OBSERVATIONS = (SLOT_SHUFFLE_FINDING, COVARIANT_LIST_FINDING)


def finding_class(name):
    if name in NESTED_CLASS:
        return NESTED_CLASS_FINDING
    if name.endswith("-under-a-name") or name.startswith(("empty-list-under-a-name", "list-of-nil-under-a-name")) or name in (
            "nested-empty-list-handed-out-whole", "empty-list-unpacked-into-a-name"):
        return UNDETERMINED_NAME_FINDING
    if "-between-two-" in name or name in ("nil-first-then-two-optional-kinds", "nil-slots-hide-two-optional-kinds-one-level-down"):
        return NEIGHBOUR_COERCION_FINDING
    if name.startswith("module-class-"):
        return MODULE_CLASS_FINDING
    if name.startswith("field-unassigned-"):
        return UNASSIGNED_FIELD_FINDING
    if name.startswith("slot-shuffle-"):
        return SLOT_SHUFFLE_FINDING
    if name.startswith("covariant-list-"):
        return COVARIANT_LIST_FINDING
    if name.startswith("unpack-map-keyed-by-"):
        return "catalogue:unpack-of-a-map"
    return "catalogue:" + name


def entries():
    res = []
    for ent in CATALOGUE:
        name, expect, src = ent[:3]
        files = dict(ent[3]) if len(ent) > 3 and ent[3] else {}
        text, n = expand(src)
        decls = src.split("\n") + [l for t in files.values() for l in t.split("\n")]
        res.append({"name": name, "expect": expect, "src": text, "nobs": n, "files": files,
                    "cls": finding_class(name),
                    "meta": {"obs": {i: ("catalogue:" + name, None) for i in range(1, n + 1)},
                             "classes": sorted(set(l.split()[2 if l.startswith("export ") else 1] for l in decls if l.startswith(("class ", "export class ")))),
                             "aliases": {l.split()[1]: l.split()[2] for l in src.split("\n") if l.startswith("type ")}}})
    return res
