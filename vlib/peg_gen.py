"""Input generators for C16, working on the AST gen/pest2coq.py produces from the CURRENT grammar.pest:
  * grammar-directed derivation (depth-bounded, alternative coverage measured and steered),
  * token-level mutation (delete / insert / duplicate / replace / swap / splice) of given texts,
  * delta-debugging minimiser (lines, then tokens)."""
import re


def byte_len(s):
    return len(s.encode("utf8"))


class Grammar:
    def __init__(self, rules):
        self.rules = rules
        self.by = {n: (m, e) for n, m, e, _ in rules}
        self.names = [n for n, _, _, _ in rules]
        # choice nodes flattened into alternative lists, identified by (rule, path)
        self.alts = {}      # (rule, nodeid) -> number of alternatives
        self.nodes = {}     # id(expr) -> (rule, nodeid)
        for n, m, e, _ in rules:
            self._index(n, e, [0])
        self.min_depth = self._min_depths()
        self.reach = self._reach()
        self.literals = sorted({x[1] for _, _, e, _ in rules for x in self._walk(e) if x[0] == "str" and x[1].strip()})

    def _walk(self, e):
        yield e
        for x in e[1:]:
            if isinstance(x, tuple):
                yield from self._walk(x)

    @staticmethod
    def flat_choice(e):
        out = []
        while e[0] == "choice":
            out.append(e[1])
            e = e[2]
        out.append(e)
        return out

    def _index(self, rule, e, ctr):
        if e[0] == "choice":
            al = self.flat_choice(e)
            nid = ctr[0]
            ctr[0] += 1
            self.nodes[id(e)] = (rule, nid)
            self.alts[(rule, nid)] = len(al)
            for a in al:
                self._index(rule, a, ctr)
            return
        if e[0] in ("opt", "star", "plus"):
            nid = ctr[0]
            ctr[0] += 1
            self.nodes[id(e)] = (rule, nid)
            self.alts[(rule, nid)] = 2      # taken / not taken (plus: one / several)
        for x in e[1:]:
            if isinstance(x, tuple):
                self._index(rule, x, ctr)

    def _min_depths(self):
        INF = 10 ** 6
        d = {n: INF for n in self.names}

        def ed(e):
            k = e[0]
            if k in ("str", "insens", "range", "any", "soi", "eoiprim"):
                return 0
            if k == "ident":
                return d[e[1]] + 1 if d[e[1]] < INF else INF
            if k == "seq":
                return max(ed(e[1]), ed(e[2]))
            if k == "choice":
                return min(ed(e[1]), ed(e[2]))
            if k in ("opt", "star", "pos", "neg"):
                return 0
            if k == "plus":
                return ed(e[1])
            raise ValueError(k)
        self.expr_depth = ed
        for _ in range(len(self.names) + 2):
            ch = False
            for n in self.names:
                v = ed(self.by[n][1])
                if v < d[n]:
                    d[n] = v
                    ch = True
            if not ch:
                break
        return d

    def _reach(self):
        direct = {n: set(x[1] for x in self._walk(self.by[n][1]) if x[0] == "ident") for n in self.names}
        reach = {n: set(direct[n]) for n in self.names}
        ch = True
        while ch:
            ch = False
            for n in self.names:
                new = set(reach[n])
                for m in list(reach[n]):
                    new |= reach[m]
                if new != reach[n]:
                    reach[n] = new
                    ch = True
        return reach

    def expr_reaches(self, e, target):
        for x in self._walk(e):
            if x[0] == "ident" and (x[1] == target or target in self.reach[x[1]]):
                return True
        return False


IDENT_POOL = ["a", "b", "c", "x", "y", "f", "g", "i", "n", "s", "int", "str", "bool", "float", "bigint", "byte",
              "self", "len", "push", "A", "B", "true", "false", "list", "to_str", "k", "v"]


class Deriver:
    """random derivation of a text from a rule; records which alternatives were taken"""

    def __init__(self, gr, rng, max_depth=14, size_budget=600):
        self.g, self.rng = gr, rng
        self.max_depth = max_depth
        self.size_budget = size_budget
        self.covered = set()

    def uncovered(self):
        out = []
        for (rule, nid), k in self.g.alts.items():
            for a in range(k):
                if (rule, nid, a) not in self.covered:
                    out.append((rule, nid, a))
        return out

    def derive(self, start, target=None, budget=None):
        self.out = []
        self.size = 0
        self.target = target      # (rule, nid, alt) to steer to, or None
        self.budget = budget or self.size_budget
        self._rule(start, 0, "nonatomic")
        return "".join(self.out)

    def emit(self, s):
        self.out.append(s)
        self.size += len(s)

    def _sep(self, mode):
        if mode != "nonatomic":
            return
        r = self.rng.random()
        if r < 0.86:
            self.emit(" ")
        elif r < 0.92:
            self.emit("\n")
        elif r < 0.95:
            self.emit("")
        elif r < 0.985 and "COMMENT" in self.g.by and "WHITESPACE" in self.g.by:
            # a comment derived from the grammar's own COMMENT rule (line comments are closed by a newline)
            self.emit(" ")
            n0 = len(self.out)
            self._rule("COMMENT", self.max_depth - 2, "atomic")
            c = "".join(self.out[n0:])
            self.emit("\n" if "\n" not in c[-1:] else "")
        else:
            self.emit("\t")

    def _rule(self, name, depth, mode):
        m, e = self.g.by[name]
        if name in ("WHITESPACE", "COMMENT"):
            inner = "atomic"
        else:
            inner = {"normal": mode, "silent": mode, "atomic": "atomic", "compound": "compound", "nonatomic": "nonatomic"}[m]
        if name == "ident" and self.rng.random() < 0.85:
            self.emit(self.rng.choice(IDENT_POOL))
            return
        self._exp(e, depth + 1, inner, name)

    def _tight(self, depth):
        return depth >= self.max_depth or self.size >= self.budget

    def _exp(self, e, depth, mode, rule):
        k = e[0]
        rng = self.rng
        if k == "str":
            self.emit(e[1])
        elif k == "insens":
            self.emit("".join(c.upper() if rng.random() < 0.5 else c.lower() for c in e[1]))
        elif k == "range":
            lo, hi = ord(e[1]), ord(e[2])
            c = rng.randint(lo, hi)
            if 0xD800 <= c <= 0xDFFF:
                c = lo
            self.emit(chr(c))
        elif k == "any":
            self.emit(rng.choice("abz09_ \n\t\"\\#.,()[]{}é\u4e2d\U0001F600-+*/=<>!?:&|^%"))
        elif k in ("soi", "eoiprim"):
            pass
        elif k == "ident":
            self._rule(e[1], depth, mode)
        elif k == "seq":
            self._exp(e[1], depth, mode, rule)
            self._sep(mode)
            self._exp(e[2], depth, mode, rule)
        elif k == "choice":
            al = Grammar.flat_choice(e)
            key = self.g.nodes[id(e)]
            pick = None
            if self.target is not None:
                trule, tnid, talt = self.target
                if key == (trule, tnid):
                    pick = talt
                    self.target = None
                elif not self._tight(depth):
                    cands = [i for i, a in enumerate(al) if (rule != trule and self.g.expr_reaches(a, trule))
                             or (rule == trule and self._contains_node(a, trule, tnid))]
                    if cands:
                        pick = rng.choice(cands)
            if pick is None:
                if self._tight(depth):
                    ds = [self.g.expr_depth(a) for a in al]
                    best = min(ds)
                    pick = rng.choice([i for i, d in enumerate(ds) if d == best])
                else:
                    pick = rng.randrange(len(al))
            self.covered.add(key + (pick,))
            self._exp(al[pick], depth, mode, rule)
        elif k in ("opt", "star", "plus"):
            key = self.g.nodes[id(e)]
            want = None
            if self.target is not None:
                trule, tnid, talt = self.target
                if key == (trule, tnid):
                    want = talt
                    self.target = None
                elif not self._tight(depth) and ((rule != trule and self.g.expr_reaches(e[1], trule)) or (rule == trule and self._contains_node(e[1], trule, tnid))):
                    want = 1
            tight = self._tight(depth)
            if want is None:
                want = 0 if tight else (1 if rng.random() < (0.5 if k == "opt" else (0.95 if depth <= 2 else 0.6)) else 0)
            self.covered.add(key + (want,))
            if k == "opt":
                n = want
            elif k == "star":
                n = 0 if not want else (1 if tight else rng.choice([1, 2, 3, 4, 6] if depth <= 2 else [1, 1, 2, 3]))
            else:
                n = 1 if not want else (2 if tight else rng.choice([2, 2, 3]))
            for i in range(n):
                if i and mode == "nonatomic":
                    self._sep(mode)
                self._exp(e[1], depth, mode, rule)
        elif k in ("pos", "neg"):
            pass
        else:
            raise ValueError(k)

    def _contains_node(self, e, rule, nid):
        for x in self.g._walk(e):
            if self.g.nodes.get(id(x)) == (rule, nid):
                return True
        return False


# ------------------------------------------------------------------------------ token-level mutation

TOKEN_RE = re.compile(r'''
    "(?:\\.|[^"\\])*"?          # string (possibly unterminated)
  | \#\#\#.*?(?:\#\#\#|\Z)      # block comment
  | \#[^\n]*                    # line comment
  | 0x[0-9A-Fa-f_]+ | 0b[01_]+ | B?\d[\d_]*(?:\.\d[\d_]*)?[fF]?
  | [A-Za-z_][A-Za-z_0-9]*
  | \.\.\.|\.\.|<<|>>|<=|>=|==|!=|&&|\|\||\?=|->|\+=|-=|\*=|/=|%=
  | \r\n | \n | [ \t]+
  | .
''', re.X | re.S)


def tokenize(text):
    return TOKEN_RE.findall(text)


EXTRA_TOKENS = ["0", "1", "-1", "2147483647", "2147483648", "0b11111111", "0b111111111", "0xFFFFFFFFF", "B99999999999999999999",
                "1.5", "1f", "nil", "\"s\"", "\"\"", "[]", "()", "{}", "self", "true", "false", "x", "a", "int", "str",
                "?", "...", "..", ".", ",", ":", ";", "\n", " ", "(", ")", "[", "]", "{", "}", "fn", "fn()", "map[str, int]",
                "\"", "\\", "#", "###", "é", "\U0001F600", "\x00", "\ufeff", "\r", "_", "__", "A()", ".len()", "[0]", "[-1]"]


def mutate(rng, text, pool, n_ops=None, fragment=None):
    toks = tokenize(text)
    if not toks:
        toks = [""]
    n_ops = n_ops or rng.choice([1, 1, 1, 2, 2, 3, 5])
    sig = [i for i, t in enumerate(toks) if t.strip()] or [0]
    ops = []
    for _ in range(n_ops):
        sig = [i for i, t in enumerate(toks) if t.strip()] or [0]
        i = rng.choice(sig)
        op = rng.choice(["delete", "insert", "duplicate", "replace", "swap", "splice", "delete-range", "replace-same-kind"])
        ops.append(op)
        if op == "delete":
            del toks[i]
        elif op == "insert":
            toks.insert(i, rng.choice(pool))
            if rng.random() < 0.5:
                toks.insert(i + 1, " ")
        elif op == "duplicate":
            toks.insert(i, toks[i])
            if rng.random() < 0.3:
                toks.insert(i + 1, " ")
        elif op == "replace":
            toks[i] = rng.choice(pool)
        elif op == "swap":
            j = rng.choice(sig)
            toks[i], toks[j] = toks[j], toks[i]
        elif op == "splice" and fragment is not None:
            toks[i] = fragment()
        elif op == "delete-range":
            j = min(len(toks), i + rng.randint(1, 6))
            del toks[i:j]
        elif op == "replace-same-kind":
            t = toks[i]
            if re.fullmatch(r"[A-Za-z_]\w*", t):
                others = [x for x in toks if re.fullmatch(r"[A-Za-z_]\w*", x)]
                toks[i] = rng.choice(others + IDENT_POOL)
            elif t[:1].isdigit():
                toks[i] = rng.choice(["0", "1", "-1", "255", "256", "2147483647", "2147483648", "99999999999999999999", "0b1", "0b100000000", "0x0", "1.0", "B1", "1f", "3000000000.5"])
            else:
                toks[i] = rng.choice(pool)
        if not toks:
            toks = [""]
    return "".join(toks), ops


# ------------------------------------------------------------------------------ delta debugging

def ddmin(items, test, max_tests=400):
    """classic ddmin over a list; test(list) -> True when the failure is still present"""
    n = 2
    tests = [0]

    def t(x):
        tests[0] += 1
        return test(x)
    while len(items) >= 2 and tests[0] < max_tests:
        chunk = max(1, len(items) // n)
        subsets = [items[i:i + chunk] for i in range(0, len(items), chunk)]
        reduced = False
        for i in range(len(subsets)):
            comp = [x for j, s in enumerate(subsets) if j != i for x in s]
            if comp and t(comp):
                items = comp
                n = max(n - 1, 2)
                reduced = True
                break
            if tests[0] >= max_tests:
                break
        if not reduced:
            if n >= len(items):
                break
            n = min(len(items), n * 2)
    return items


def minimise(text, still_fails, max_tests=400):
    lines = text.splitlines(keepends=True)
    if len(lines) > 1:
        lines = ddmin(lines, lambda ls: still_fails("".join(ls)), max_tests // 2)
    text = "".join(lines)
    toks = tokenize(text)
    if len(toks) > 1:
        toks = ddmin(toks, lambda ts: still_fails("".join(ts)), max_tests)
    return "".join(toks)


# ------------------------------------------------------------------------------ typed construct grid
# Hand-written complement to the grammar-directed stream: every statement / expression form with its operand
# slots filled by atoms of EVERY type (so mostly type-incorrect combinations), behind a prelude that declares
# one variable per type.  This reaches the checks behind the parser that random derivations rarely pass.

PRELUDE = '''class A {
	x: int
	constructor(self) { self.x = 1 }
	fn getx(self) -> int { return self.x }
	fn setx(self, v: int) { self.x = v }
}
i = 1
f = 1.5
s = "a"
b = true
by = 0b1
big = B5
l: [int...] = [1, 2]
const ml = [1, "a"]
m = map[str, int]{"k": 1}
o: int? = nil
fnv = fn(x: int) -> int { return x }
cb = fn() { }
ob = A()
'''

ATOMS = ["i", "f", "s", "b", "by", "big", "l", "ml", "m", "o", "fnv", "cb", "ob", "A", "self", "nil", "nosuch",
         "1", "0", "-1", "2147483647", "2147483648", "1.5", "1f", "\"a\"", "\"\"", "true", "false", "0b1", "B5", "0x1F",
         "[]", "[1]", "[1, \"a\"]", "[[1]]", "map[str, int]{}", "fnv(1)", "cb()", "ob.x", "ob.getx()", "ob.nosuch", "l[0]", "ml[1]",
         "m[\"k\"]", "s[0]", "s.len()", "l.len()", "i + 1", "(i)", "typeof i", "get o", "o or 1", "fn() -> int { return 1 }",
         "fn(x: int) { }", "A()", "l.map(fnv)", "i == 1", "!b", "-i", "-f", "s + s", "i.to_str()"]

TYPES = ["int", "float", "str", "bool", "byte", "bigint", "[int...]", "[int, str]", "[]", "map[str, int]", "int?", "str?",
         "fn(int) -> int", "fn()", "A", "Self", "nosuch", "[[int...]...]", "map[int, [str...]]", "fn(fn() -> int) -> fn()", "A?"]

BINOPS = ["+", "-", "*", "/", "%", "<<", ">>", "<", ">", "<=", ">=", "==", "!=", "&&", "||", "^", "&", "|", "xor ", "?=", "is ",
          "+=", "-=", "*=", "/=", "%="]

TEMPLATES = [
    "print {e}", "assert {e}", "return {e}", "return", "break", "continue", "{e}", "typeof {e}",
    "v = {e}", "v: {t} = {e}", "const v = {e}", "modify i = {e}", "export v: {t} = {e}", "const v: {t} = {e}", "i = {e}", "s = {e}", "l = {e}", "o = {e}", "ob = {e}", "fnv = {e}",
    "[p, q] = {e}", "[p, q,] = {e}", "const [p, q] = {e}",
    "{e}[{e}] = {e}", "l[{e}] = {e}", "m[{e}] = {e}", "ml[{e}] = {e}", "s[{e}] = {e}", "{e}.x = {e}", "ob.x = {e}", "ob.nosuch = {e}", "ob.getx = {e}", "self.x = {e}", "({e}).x = {e}",
    "if {e} {{ }}", "if {e} {{ print 1 }} else {{ print 2 }}", "if {e} {{ }} else if {e} {{ }} else {{ }}", "while {e} {{ break }}", "while {e} {{ continue }}",
    "from {e} to {e} {{ }}", "from {e} through {e} {{ }}", "from {e} to {e} step {e} {{ }}", "from {e} to {e}, k {{ print k }}", "from {e} to {e} step {e}, i {{ }}",
    "from {e} to {e}, s {{ }}", "from 0 to 3, nosuch2 {{ print nosuch2 }}",
    "print {e} {op} {e}", "v = {e} {op} {e}", "i {op} {e}", "v = {e} {op} {e} {op} {e}", "print -{e}", "print !{e}", "print get {e}", "print {e} or {e}", "print typeof {e}",
    "if {e} ?= {e} {{ }}", "print {e} is {t}", "print ({e})", "print {e}[{e}]", "print {e}[{e}][{e}]", "print {e}.len()", "print {e}.x", "print {e}.getx()", "print {e}.nosuch()",
    "print {e}({e})", "print {e}()", "print {e}({e}, {e})", "print fnv({e})", "print cb({e})", "print ob.setx({e})", "print A({e})", "print self({e})",
    "print [{e}, {e}]", "print [{e}, {e},]", "v: [{t}...] = [{e}]", "v: [{t}, {t}] = [{e}, {e}]", "print map[{t}, {t}]{{ {e}: {e} }}", "v = map[str, {t}]{{ \"k\": {e}, }}",
    "v = fn(p: {t}) -> {t} {{ return {e} }}", "v = fn(p: {t}) {{ print p }}", "v = fn(p: {t}, q: {t}) -> {t} {{ return p }}", "v = fn() -> {t} {{ }}", "v = fn() {{ return {e} }}",
    "v = fn(n: int) -> int {{ return self({e}) }}", "v = fn(n: int, k: {t}) -> int {{ return self(n, {e}) }}", "v = fn(p) {{ }}", "v = fn(p: {t}, p: {t}) {{ }}",
    "type T {t}", "export type T {t}", "type T {t}\nv: T = {e}", "type int {t}",
    "class C {{ y: {t} constructor(self, y: {t}) {{ self.y = y }} }}\nprint C({e}).y", "class C {{ fn f(self) -> {t} {{ return {e} }} }}", "class C {{ y: {t} }}\nprint C()",
    "class C {{ constructor(self) {{ }} constructor(self) {{ }} }}", "class C {{ fn f() {{ }} }}", "class A {{ }}", "export class C {{ z: {t} fn g(self, q: {t}) -> Self {{ return self }} }}",
    "class C {{ y: {t} fn f(self) {{ self.y = {e} }} }}", "class C {{ fn f(self) {{ return {e} }} }}",
    "import nosuchfile", "import a, b from nosuchfile", "import type T from nosuchfile", "import ./x/../y",
    "print {e}.to_str()", "print {e}.push({e})", "print {e}.map({e})", "print {e}.contains_key({e})", "print {e}.join({e})", "print {e}.pow({e})", "print {e}.index_of({e})",
    "print {e}.remove({e})", "print {e}.substring({e}, {e})", "print {e}.parse_int()", "print {e}.keys()", "print {e}.reverse()", "print {e}.filter({e})", "print {e}.replace({e}, {e})",
]

CONTEXTS = ["{s}", "{s}", "{s}", "if b {{\n{s}\n}}", "while b {{\n{s}\nbreak\n}}", "from 0 to 2 {{\n{s}\n}}", "w = fn(a: int) -> int {{\n{s}\nreturn a\n}}",
            "w = fn() {{\n{s}\n}}\nw()", "class K {{ fn h(self) {{\n{s}\n}} }}", "class K {{ constructor(self) {{\n{s}\n}} }}",
            "class K {{ fn h(self, a: int) -> int {{\n{s}\nreturn a\n}} }}", "if b {{ if b {{\n{s}\n}} }}", "w = fn() {{ w2 = fn() {{\n{s}\n}} }}"]


def typed_grid_case(rng):
    n = rng.choice([1, 1, 1, 2, 3])
    stmts = []
    for _ in range(n):
        t = rng.choice(TEMPLATES)
        out = []
        i = 0
        while i < len(t):
            if t.startswith("{e}", i):
                out.append(rng.choice(ATOMS))
                i += 3
            elif t.startswith("{t}", i):
                out.append(rng.choice(TYPES))
                i += 3
            elif t.startswith("{op}", i):
                out.append(rng.choice(BINOPS))
                i += 4
            elif t.startswith("{{", i):
                out.append("{")
                i += 2
            elif t.startswith("}}", i):
                out.append("}")
                i += 2
            else:
                out.append(t[i])
                i += 1
        stmts.append("".join(out))
    body = "\n".join(stmts)
    ctx = rng.choice(CONTEXTS).replace("{{", "\x01").replace("}}", "\x02").replace("{s}", body).replace("\x01", "{").replace("\x02", "}")
    return PRELUDE + ctx + "\n"


# ------------------------------------------------------------------------------ control statements x enclosing constructs
# break / continue / return (with and without value) placed in EVERY combination of enclosing constructs up to a
# given depth (module level, function literal, callback argument, method, constructor, if / else / else-if, while
# body, from body, class body).  Exhaustive, not sampled: e.g. `while { fn() { break } }`, loop in function in loop,
# return in loop in function, break in if in function in loop.  Expected verdict: accepted or diagnosed, never a crash.

CONTROL_STMTS = ["break", "continue", "return", "return 1", "return b", "return nil",
                 "if b { break }", "if b { continue } else { return }", "while b { break }\nbreak", "from 0 to 2 { continue }\ncontinue"]

# {s} = the nested text, {d} = depth (keeps names unique)
CONTROL_WRAPPERS = {
    "fnlit": "w{d} = fn() {{\n{s}\n}}\nw{d}()",
    "fnlit-int": "v{d} = fn(a{d}: int) -> int {{\n{s}\nreturn a{d}\n}}\nprint v{d}(1)",
    "fnarg": "print l.map(fn(x{d}: int) -> int {{\n{s}\nreturn x{d}\n}})",
    "method": "class K{d} {{\n\tfn h(self) {{\n{s}\n\t}}\n}}\nK{d}().h()",
    "constructor": "class C{d} {{\n\tconstructor(self) {{\n{s}\n\t}}\n}}\nC{d}()",
    "classbody": "class B{d} {{\n{s}\n}}",
    "if": "if b {{\n{s}\n}}",
    "else": "if b {{ }} else {{\n{s}\n}}",
    "elseif": "if b {{ }} else if b {{\n{s}\n}}",
    "while": "while b {{\n{s}\nb = false\n}}",
    "from": "from 0 to 3, k{d} {{\n{s}\n}}",
}
CONTROL_PRELUDE = "b = true\nl: [int...] = [1, 2]\n"


def control_nesting_cases(max_depth=3, stmts=None):
    """-> list of (name, text): every statement x every wrapper chain (outermost first) of length 0..max_depth"""
    import itertools
    stmts = CONTROL_STMTS if stmts is None else stmts
    names = list(CONTROL_WRAPPERS)
    out = []
    for depth in range(0, max_depth + 1):
        for chain in itertools.product(names, repeat=depth):
            for st in stmts:
                text = st
                for d, w in reversed(list(enumerate(chain))):
                    text = CONTROL_WRAPPERS[w].format(s=text, d=d)
                out.append(("%s@%s" % (st.split("\n")[0], ">".join(chain) or "module"), CONTROL_PRELUDE + text + "\n"))
    return out
