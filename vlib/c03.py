"""C03: ill-typed programs are rejected with a diagnostic before anything runs.

Tie T5 (the bug finder): a generator of well-typed programs built from statement templates nested in
syntactic contexts; every template knows its typed positions and the catalogue faults applicable there.
One fault per mutant.  Every mutant is run through `mscript run main.ms -q`:
   exit status 1, "Did not compile successfully", NO program output (the first statement prints MARK),
   a diagnostic ` --> <file>:<line>:<col>` naming the mutated file with the line inside the mutated statement.
The unmutated program must be accepted and run to completion (else discarded and counted).
A small typed core fragment is additionally rendered as a term of Reject/Typing.v and the Coq checker's
verdict is compared with the compiler's (correspondence).
"""
import os
import re
import shutil

from . import core, programs

TYPES = ["int", "str", "bool", "float"]

PREAMBLE = '''print "MARK"
type Miles int
gi = 3
gs = "s"
gb = true
gf = 1.5
goi: int? = 3
gob: bool? = true
gos: str? = "o"
gof: float? = 2.5
gl: [int...] = [1, 2, 3]
gsl: [str...] = ["a", "b"]
gm = map[str, int] { "a": 1, "b": 2 }
class Pt {
  x: int
  s: str
  constructor(self, x: int, s: str) {
    self.x = x
    self.s = s
  }
  fn getx(self) -> int {
    return self.x
  }
  fn name(self) -> str {
    return self.s
  }
  fn add(self, d: int) -> int {
    return self.x + d
  }
}
gp = Pt(4, "p")
gop: Pt? = gp
fi = fn(a: int) -> int {
  return a + 1
}
fs = fn(a: str) -> str {
  return a + "!"
}
fb = fn(a: int) -> bool {
  return a > 0
}
ff = fn(a: float) -> float {
  return a * 2.0
}
f2 = fn(a: int, b: str) -> str {
  return b + a
}
'''
LIB = '''export lv: int = 4
export ls: str = "lib"
export lf: fn(int) -> int = fn(a: int) -> int {
  return a * 2
}
export class Lk {
  v: int
  constructor(self, v: int) {
    self.v = v
  }
  fn getv(self) -> int {
    return self.v
  }
}
export lk: Lk = Lk(5)
export lshow: fn(Lk) -> int = fn(k: Lk) -> int {
  return k.v
}
'''

POOL = {
    "int": ["7", "gi", "(gi + 2)", "fi(2)", "gp.x", "gp.getx()", "gl[0]", 'gm["a"]', "gl.len()", "gp.add(1)"],
    "str": ['"t"', "gs", '(gs + "u")', 'fs("q")', "gp.s", "gp.name()", "gsl[1]", 'f2(1, "z")'],
    "bool": ["true", "gb", "(gi > 2)", "fb(1)", "(gb && true)", '(gs == "s")', "(!gb)"],
    "float": ["2.5", "gf", "(gf * 2.0)", "ff(1.5)"],
}
FN_OF = {"int": "fi", "str": "fs", "float": "ff"}
OPT_OF = {"int": "goi", "bool": "gob", "str": "gos", "float": "gof"}       # a `T?` is not a `T` (it may be nil)
# (lhs type, operator, rhs type) combinations with NO entry in TypeLayout::get_output_type
BAD_OPS = [("bool", "+", "int"), ("str", "-", "int"), ("bool", "<", "bool"), ("int", "&&", "bool"), ("int", "==", "str"),
           ("str", "<", "str"), ("bool", "*", "bool"), ("int", "||", "int"), ("float", "==", "bool"), ("str", "/", "str"),
           ("bool", "-", "float"), ("str", "%", "int")]
NON_INDEXABLE = ["gi", "gb", "gf", "gp", "fi"]
NON_CALLABLE = ["gi", "gs", "gb", "gl", "gp.x", "gm"]


class St:
    """one statement template instance: base lines + mutants [(fault, lines, (lo, hi), note)].
    `decl` holds the CLASS declarations the statement needs: they are rendered at module level (a class is declared
    once per module), whatever context the statement itself sits in.  A mutant that changes a class carries two more
    fields: (fault, lines, (lo, hi), note, decl lines, "decl") -- the span then counts lines of the declaration."""

    def __init__(self, tag, lines, mutants, decl=None):
        self.tag, self.lines, self.mutants = tag, lines, mutants
        self.decl = decl or []


class Ctx:
    """a syntactic context around statements.  `hoist` = (head, tail) lines of a class that holds the children (method /
    constructor body): the class is rendered at module level, `tail` (creating the object, calling the method) in place"""

    def __init__(self, kind, head, children, tail, hoist=None):
        self.kind, self.head, self.children, self.tail, self.hoist = kind, head, children, tail, hoist


class G:
    def __init__(self, rng, with_lib=False):
        self.r = rng
        self.n = 0
        self.with_lib = with_lib
        self.extra_int = []      # local int expressions available in the current context

    def uid(self):
        self.n += 1
        return self.n

    def e(self, ty):
        pool = POOL[ty] + (self.extra_int if ty == "int" else [])
        if self.with_lib and ty == "int":
            pool = pool + ["lib.lv", "lib.lf(2)"]
        if self.with_lib and ty == "str":
            pool = pool + ["lib.ls"]
        return self.r.choice(pool)

    def other(self, ty, exclude=()):
        return self.r.choice([t for t in TYPES if t != ty and t not in exclude])

    def wrong(self, ty, exclude=()):
        """an expression whose type is not assignable to ty (eq_complex: no implicit widening)"""
        t2 = self.other(ty, exclude)
        return self.e(t2), t2

    # ---------------------------------------------------------------- templates
    def t_decl_annot(self):
        n, ty = self.uid(), self.r.choice(TYPES)
        w, t2 = self.wrong(ty)
        return St("decl_annot", ["v%d: %s = %s" % (n, ty, self.e(ty))],
                  [("wrong_init", ["v%d: %s = %s" % (n, ty, w)], (0, 0), "%s <- %s" % (ty, t2)),
                   ("wrong_init", ["v%d: %s = %s" % (n, ty, OPT_OF[ty])], (0, 0), "%s <- %s? (optional where a plain value is required)" % (ty, ty)),
                   ("unknown_name", ["v%d: %s = nope%d" % (n, ty, n)], (0, 0), ""),
                   # the name being declared is not yet a variable inside its own initializer
                   ("unknown_name", ["v%d: %s = v%d" % (n, ty, n)], (0, 0), "the declared name itself, in its own initializer"),
                   ("unknown_name", ["v%d: %s = (%s) or v%d" % (n, ty, OPT_OF[ty], n)], (0, 0), "the declared name itself, as the fallback of its own initializer"),
                   ("unknown_name", ["v%d: [%s...] = [v%d]" % (n, ty, n)], (0, 0), "the declared name itself, inside a list in its own initializer")])

    def t_decl_alias(self):
        n = self.uid()
        w, t2 = self.wrong("int")
        # an alias is a TYPE name (also the alias of a class): it cannot be used as a value
        # the last four lines: unary minus applied to a NAME whose type is the alias of a number -- the type checker looks
        # through the alias, so the code generator must as well (it refused with the bare text `cannot negate`: hunt 4 B/3)
        base = ["v%d: Miles = %s" % (n, self.e("int")), "type PA%d Pt" % n, "va%d: PA%d = gp" % (n, n), "vb%d = va%d.x" % (n, n),
                "vn%d = -v%d" % (n, n), "type FA%d float" % n, "vf%d: FA%d = 2.5" % (n, n), "vg%d = -vf%d * 2.0" % (n, n)]

        def mut(i, line):
            m = list(base)
            m[i] = line
            return m
        return St("decl_alias", base,
                  [("wrong_init", mut(0, "v%d: Miles = %s" % (n, w)), (0, 0), "alias Miles=int <- %s" % t2),
                   ("unknown_type", mut(0, "v%d: NoType%d = %s" % (n, n, self.e("int"))), (0, 0), ""),
                   ("unknown_name", mut(0, "v%d = Miles" % n), (0, 0), "alias of int used as a value"),
                   ("unknown_name", mut(3, "vb%d = PA%d" % (n, n)), (3, 3), "alias of a class used as a value"),
                   ("unknown_name", mut(3, "vb%d = PA%d.x" % (n, n)), (3, 3), "field read through the alias of a class used as a value"),
                   ("wrong_init", mut(2, "va%d: PA%d = %s" % (n, n, self.e("int"))), (2, 2), "alias of class Pt <- int"),
                   ("unknown_field", mut(3, "vb%d = va%d.nofield%d" % (n, n, n)), (3, 3), "through the alias of a class")])

    def t_decl_optional(self):
        n, ty = self.uid(), self.r.choice(TYPES)
        w, t2 = self.wrong(ty)
        return St("decl_optional", ["v%d: %s? = %s" % (n, ty, self.e(ty)), "v%d = %s" % (n, self.e(ty))],
                  [("wrong_init", ["v%d: %s? = %s" % (n, ty, w), "v%d = %s" % (n, self.e(ty))], (0, 0), "%s? <- %s" % (ty, t2)),
                   ("wrong_reassign", ["v%d: %s? = %s" % (n, ty, self.e(ty)), "v%d = %s" % (n, w)], (1, 1), "%s? <- %s" % (ty, t2))])

    def t_reassign(self):
        n, ty = self.uid(), self.r.choice(TYPES)
        w, t2 = self.wrong(ty)
        first = self.r.choice(["v%d = %s" % (n, self.e(ty)), "v%d: %s = %s" % (n, ty, self.e(ty))])
        if self.r.random() < 0.5:
            return St("reassign", [first, "v%d = %s" % (n, self.e(ty))],
                      [("wrong_reassign", [first, "v%d = %s" % (n, w)], (1, 1), "%s <- %s" % (ty, t2)),
                       ("wrong_reassign", [first, "v%d: %s = %s" % (n, t2, w)], (1, 1), "retyped %s -> %s" % (ty, t2))])
        # the variable is declared OUTSIDE the block, the re-assignment sits inside it: EVERY kind of block (two deep too)
        # in every instance, one mutant per kind
        wraps = [(["if gb {"], ["}"]), (["while gb {"], ["  break", "}"]), (["from 0 to 1 {"], ["}"]), (["from 0 to 1, rb%d {" % n], ["}"]),
                 (["if !gb {", "  rz%d = 0" % n, "} else {"], ["}"]), (["if !gb {", "  rz%d = 0" % n, "} else if gi > 0 {"], ["}"]),
                 (["from 0 to 1 {", "if gb {"], ["}", "}"]), (["while gb {", "from 0 to 1, rc%d {" % n], ["}", "  break", "}"]),
                 (["if gb {", "while gb {"], ["  break", "}", "}"])]
        base, spots = [], []
        for j, (head, tail) in enumerate(wraps):
            decl = first.replace("v%d" % n, "v%dw%d" % (n, j))
            base.append(decl)
            base += head
            spots.append((len(base), j, head[-1].strip()))
            base.append("  v%dw%d = %s" % (n, j, self.e(ty)))
            base += tail
        muts = []
        for pos, j, where in spots:
            m = list(base)
            m[pos] = "  v%dw%d = %s" % (n, j, w)
            muts.append(("wrong_reassign", m, (pos, pos), "%s <- %s (declared outside %s)" % (ty, t2, where)))
        return St("reassign_in_block", base, muts)

    def t_call1(self):
        n, ty = self.uid(), self.r.choice(["int", "str", "float"])
        f = FN_OF[ty]
        w, t2 = self.wrong(ty)
        a = self.e(ty)
        return St("call1", ["r%d = %s(%s)" % (n, f, a)],
                  [("wrong_arg_type", ["r%d = %s(%s)" % (n, f, w)], (0, 0), "%s <- %s" % (ty, t2)),
                   ("wrong_arg_type", ["r%d = %s(%s)" % (n, f, OPT_OF[ty])], (0, 0), "%s <- %s? (optional argument)" % (ty, ty)),
                   ("arg_count_less", ["r%d = %s()" % (n, f)], (0, 0), "1 -> 0"),
                   ("arg_count_more", ["r%d = %s(%s, %s)" % (n, f, a, self.e(ty))], (0, 0), "1 -> 2"),
                   ("unknown_name", ["r%d = nofn%d(%s)" % (n, n, a)], (0, 0), "callee"),
                   ("call_non_callable", ["r%d = %s(%s)" % (n, self.r.choice(NON_CALLABLE), a)], (0, 0), "")])

    def t_call2(self):
        n = self.uid()
        a, b = self.e("int"), self.e("str")
        w1, t1 = self.wrong("int")
        w2, t2 = self.wrong("str")
        return St("call2", ["r%d = f2(%s, %s)" % (n, a, b)],
                  [("wrong_arg_type", ["r%d = f2(%s, %s)" % (n, w1, b)], (0, 0), "arg1 int <- %s" % t1),
                   ("wrong_arg_type", ["r%d = f2(%s, %s)" % (n, a, w2)], (0, 0), "arg2 str <- %s" % t2),
                   ("arg_count_less", ["r%d = f2(%s)" % (n, a)], (0, 0), "2 -> 1"),
                   ("arg_count_more", ["r%d = f2(%s, %s, %s)" % (n, a, b, self.e("int"))], (0, 0), "2 -> 3")])

    def t_mcall(self):
        n = self.uid()
        a = self.r.choice(["7", "(1 + 2)", "11"])
        w, t2 = self.wrong("int")
        return St("method_call", ["r%d = gp.add(%s)" % (n, a)],
                  [("wrong_arg_type", ["r%d = gp.add(%s)" % (n, w)], (0, 0), "int <- %s" % t2),
                   ("arg_count_less", ["r%d = gp.add()" % n], (0, 0), "1 -> 0"),
                   ("arg_count_more", ["r%d = gp.add(%s, 5)" % (n, a)], (0, 0), "1 -> 2"),
                   ("unknown_method", ["r%d = gp.nomethod%d(%s)" % (n, n, a)], (0, 0), "")])

    def t_field(self):
        n = self.uid()
        return St("field", ["q%d = gp.x" % n, "q%ds: str = gp.s" % n],
                  [("unknown_field", ["q%d = gp.nofield%d" % (n, n), "q%ds: str = gp.s" % n], (0, 0), ""),
                   ("call_non_callable", ["q%d = gp.x()" % n, "q%ds: str = gp.s" % n], (0, 0), "field called"),
                   ("wrong_init", ["q%d = gp.x" % n, "q%ds: str = gp.x" % n], (1, 1), "str <- int field"),
                   ("unknown_field", ["q%d = gp.x" % n, "q%ds: str = gs.nofield%d" % (n, n)], (1, 1), "field of str")])

    def t_fn_ret(self):
        n, t1, ty = self.uid(), self.r.choice(["int", "str", "float"]), self.r.choice(TYPES)
        w, t2 = self.wrong(ty)
        wa, ta = self.wrong(t1)
        head = "h%d = fn(a: %s) -> %s {" % (n, t1, ty)
        call = "u%d = h%d(%s)" % (n, n, self.e(t1))
        ret = "  return %s" % self.e(ty)
        if self.r.random() < 0.5:
            return St("fn_return", [head, ret, "}", call],
                      [("wrong_return", [head, "  return %s" % w, "}", call], (0, 2), "%s <- %s" % (ty, t2)),
                       # a `T?` may be nil: it is not a return value of a function declared `-> T` (outer variable, local, parameter)
                       ("wrong_return", [head, "  return %s" % OPT_OF[ty], "}", call], (0, 2), "%s <- %s? (optional outer variable returned as a plain value)" % (ty, ty)),
                       ("wrong_return", [head, "  lo%d: %s? = nil" % (n, ty), "  return lo%d" % n, "}", call], (0, 3), "%s <- %s? (optional local returned as a plain value)" % (ty, ty)),
                       ("wrong_return", ["h%d = fn(a: %s, o: %s?) -> %s {" % (n, t1, ty, ty), "  return o", "}", "u%d = h%d(%s, nil)" % (n, n, self.e(t1))], (0, 2),
                        "%s <- %s? (optional parameter returned as a plain value)" % (ty, ty)),
                       ("missing_return_value", [head, "  return ", "}", call], (0, 2), ""),
                       ("missing_return", [head, "}", call], (0, 1), "no return statement"),
                       ("wrong_arg_type", [head, ret, "}", "u%d = h%d(%s)" % (n, n, wa)], (3, 3), "%s <- %s" % (t1, ta)),
                       ("wrong_init", [head, ret, "}", "u%d: %s = h%d(%s)" % (n, t2, n, self.e(t1))], (3, 3), "result %s into %s" % (ty, t2))])
        body = ["  if gb {", "    return %s" % self.e(ty), "  } else {", "    return %s" % self.e(ty), "  }"]
        wb = ["  if gb {", "    return %s" % self.e(ty), "  } else {", "    return %s" % w, "  }"]
        mb = ["  if gb {", "    return %s" % self.e(ty), "  }"]
        return St("fn_return_branches", [head] + body + ["}", call],
                  [("wrong_return", [head] + wb + ["}", call], (0, 6), "else branch %s <- %s" % (ty, t2)),
                   ("wrong_return", [head] + wb[:3] + ["    return %s" % OPT_OF[ty], "  }", "}", call], (0, 6), "else branch %s <- %s? (optional returned as a plain value)" % (ty, ty)),
                   ("missing_return", [head] + mb + ["}", call], (0, 4), "one branch does not return")])

    def t_fn_void(self):
        n = self.uid()
        head = "h%d = fn(a: int) {" % n
        call = "h%d(%s)" % (n, self.e("int"))
        muts = [("value_from_void_fn", [head, "  w%d = a" % n, "  return %s" % self.e("int"), "}", call], (0, 3), ""),
                ("void_value_used", [head, "  w%d = a" % n, "}", "z%d = %s" % (n, call)], (3, 3), "cannot store void")]
        for use, why in (("z%d = [%s]", "list element"), ("const z%d = [1, %s]", "later list element"), ("z%d = %s == nil", "compared with nil"),
                         ("z%d = nil != %s", "nil compared with it"), ("print get %s  # %d", "unwrapped with get"), ("z%d = %s is gi", "operand of is"),
                         ("z%d = (%s).to_str()", "receiver of to_str"), ("z%d = fi(%s)", "argument"), ("z%d = gi + %s", "operand of +"),
                         ("z%d = -%s", "operand of unary minus"), ("z%d = gl[%s]", "index"), ("z%d: int? = %s", "annotated initializer")):
            line = use % ((call, n) if use.startswith("print") else (n, call))
            muts.append(("void_value_used", [head, "  w%d = a" % n, "}", line], (3, 3), "void call as " + why))
        muts.append(("void_value_used", [head, "  w%d = a" % n, "}", "if %s == nil {" % call, "}"], (3, 4), "void call compared with nil as a condition"))
        return St("fn_void", [head, "  w%d = a" % n, "}", call], muts)

    def t_cond_if(self):
        n = self.uid()
        w, t2 = self.wrong("bool")
        return St("if_cond", ["if %s {" % self.e("bool"), "  w%d = 1" % n, "}"],
                  [("non_bool_condition", ["if %s {" % w, "  w%d = 1" % n, "}"], (0, 2), "if <- %s" % t2),
                   ("non_bool_condition", ["if gob {", "  w%d = 1" % n, "}"], (0, 2), "if <- bool? (an optional is not a condition)"),
                   ("unknown_name", ["if nope%d {" % n, "  w%d = 1" % n, "}"], (0, 2), "")])

    def t_cond_while(self):
        n = self.uid()
        w, t2 = self.wrong("bool")
        return St("while_cond", ["while %s {" % self.e("bool"), "  break", "}"],
                  [("non_bool_condition", ["while %s {" % w, "  break", "}"], (0, 2), "while <- %s" % t2),
                   ("non_bool_condition", ["while gob {", "  break", "}"], (0, 2), "while <- bool?")])

    def t_from_loop(self):
        """the bounds and the step of a `from` loop are numbers: each of the three positions, whatever the other two are"""
        n = self.uid()
        base = ["lt%d = 0" % n, "from 1 to gi + 2, lj%d {" % n, "  lt%d = lt%d + lj%d" % (n, n, n), "}",
                "from 0 through 4 step 2, lk%d {" % n, "  lt%d = lt%d + lk%d" % (n, n, n), "}"]

        def mut(i, line):
            m = list(base)
            m[i] = line
            return m
        muts = []
        for bad, what in (("gs", "str"), ("gb", "bool"), ("goi", "int?"), ("gl", "[int...]"), ("gp", "an object"), ("\"3\"", "a str literal")):
            muts.append(("non_numeric_loop_bound", mut(1, "from 1 to %s, lj%d {" % (bad, n)), (1, 3), "upper bound <- %s (lower bound numeric)" % what))
            muts.append(("non_numeric_loop_bound", mut(1, "from %s to 4, lj%d {" % (bad, n)), (1, 3), "lower bound <- %s (upper bound numeric)" % what))
            if bad != "goi":        # operators see through an optional operand (`1 + o` is typed like `1 + 2`), and the step is the operand of `+`
                muts.append(("non_numeric_loop_bound", mut(4, "from 0 through 4 step %s, lk%d {" % (bad, n)), (4, 6), "step <- %s" % what))
            muts.append(("non_numeric_loop_bound", mut(4, "from 0 through %s step 2, lk%d {" % (bad, n)), (4, 6), "upper bound of a stepped loop <- %s" % what))
        muts.append(("unknown_name", mut(1, "from 1 to nope%d, lj%d {" % (n, n)), (1, 3), "upper bound"))
        return St("from_loop", base, muts)

    def t_cond_elseif(self):
        n = self.uid()
        w, t2 = self.wrong("bool")
        base = ["if %s {" % self.e("bool"), "  w%d = 1" % n, "} else if %s {" % self.e("bool"), "  x%d = 2" % n, "} else {", "  y%d = 3" % n, "}"]
        m1 = list(base)
        m1[2] = "} else if %s {" % w
        w3, t3 = self.wrong("int")
        m2 = list(base)
        m2[3] = "  x%d: int = %s" % (n, w3)
        m3 = list(base)
        m3[5] = "  y%d = fi(%s)" % (n, w3)
        m4 = list(base)
        m4[2] = "} else if gob {"
        return St("else_if", base,
                  [("non_bool_condition", m1, (0, 6), "else if <- %s" % t2),
                   ("non_bool_condition", m4, (0, 6), "else if <- bool?"),
                   ("wrong_init", m2, (3, 3), "inside else-if: int <- %s" % t3),
                   ("wrong_arg_type", m3, (5, 5), "inside else: int <- %s" % t3)])

    def t_index_list(self):
        n = self.uid()
        w, t2 = self.wrong("int")
        i = self.r.choice(["0", "1", "2", "(gi - 2)"])
        return St("index_list", ["e%d = gl[%s]" % (n, i)],
                  [("index_with_non_index", ["e%d = gl[%s]" % (n, w)], (0, 0), "list[%s]" % t2),
                   ("index_non_indexable", ["e%d = %s[%s]" % (n, self.r.choice(NON_INDEXABLE), i)], (0, 0), ""),
                   ("unknown_name", ["e%d = nolist%d[%s]" % (n, n, i)], (0, 0), ""),
                   ("wrong_init", ["e%d: str = gl[%s]" % (n, i)], (0, 0), "str <- list element int")])

    def t_index_map(self):
        n = self.uid()
        w, t2 = self.wrong("str")
        return St("index_map", ['e%d = gm["a"]' % n],
                  [("index_with_non_index", ["e%d = gm[%s]" % (n, w)], (0, 0), "map[str,int][%s]" % t2)])

    def t_binop(self):
        n = self.uid()
        lt, op, rt = self.r.choice(BAD_OPS)
        good = self.r.choice([("int", "+", "int"), ("int", "*", "float"), ("str", "+", "int"), ("int", "<", "int"), ("bool", "&&", "bool"), ("str", "==", "str")])
        first = "o%d = %s %s %s" % (n, self.e(good[0]), good[1], self.e(good[2]))
        # values whose type is the ALIAS of a map, of a class, of a function type: an alias changes nothing about equality
        als = ["type MB%d map[str,int]" % n,      # (no blank inside the type of an alias: the rule is atomic)
               "ma%d: MB%d = gm" % (n, n), "xa%d: [MB%d...] = [ma%d]" % (n, n, n), "oa%d: MB%d? = ma%d" % (n, n, n),
               "type PB%d Pt" % n, "pa%d: PB%d = gp" % (n, n), "xp%d: [PB%d...] = [pa%d]" % (n, n, n), "ol%d = xa%d.len() == xp%d.len()" % (n, n, n)]
        eqop = self.r.choice(["==", "!="])
        amuts = [("unsupported_operator", [first] + als[:7] + ["ol%d = %s %s %s" % (n, l, eqop, r_)], (8, 8), "equality of %s" % what)
                 for l, r_, what in (("xa%d" % n, "xa%d" % n, "lists of values typed by the alias of a map"), ("ma%d" % n, "ma%d" % n, "values typed by the alias of a map"),
                                     ("ma%d" % n, "gm", "a value typed by the alias of a map and a map"), ("oa%d" % n, "oa%d" % n, "optionals of the alias of a map"),
                                     ("pa%d" % n, "pa%d" % n, "values typed by the alias of a class"), ("pa%d" % n, "gp", "a value typed by the alias of a class and an object"))]
        amuts.append(("malformed_declaration", [first] + als[:7] + ["ol%d = map[MB%d, int] { }" % (n, n)], (8, 8), "a map type whose key type is the alias of a map"))
        amuts.append(("malformed_declaration", [first] + als[:7] + ["ol%d = map[[MB%d...], int] { }" % (n, n)], (8, 8), "a map type whose key type is a list of the alias of a map"))
        return St("binary_op", [first] + als, amuts +
                  [("unsupported_operator", ["o%d = %s %s %s" % (n, self.e(lt), op, self.e(rt))], (0, 0), "%s %s %s" % (lt, op, rt)),
                   ("unsupported_operator", ["o%d = %s %s %s" % (n, self.r.choice(["gl", "gp", "gm"]), self.r.choice(["+", "*", "<"]), self.e("int"))], (0, 0), "non-native operand"),
                   # equality exists for scalars, lists and optionals of them; not for maps, objects, functions
                   ("unsupported_operator", ["o%d = %s %s %s" % ((n,) + self.r.choice([("gm", "==", "gm"), ("gm", "!=", "gm"), ("gp", "==", "gp"), ("fi", "==", "fi"), ("[gm]", "==", "[gm]")]))], (0, 0), "equality of values that cannot be compared"),
                   ("unsupported_operator", ["o%d = gop %s %s" % (n, self.r.choice(["==", "!="]), self.r.choice(["gop", "gop", "gp"]))], (0, 0), "equality of an optional holding an object")])

    def t_unary(self):
        n = self.uid()
        w, t2 = self.wrong("bool")
        nn = self.r.choice(['"s"', "gs", "gb", "true", "gp", "gl"])
        return St("unary_op", ["n%d = -%s" % (n, self.r.choice(["gi", "4", "gf", "(gi + 1)"])), "b%d = !%s" % (n, self.r.choice(["gb", "true", "fb(2)"]))],
                  [("unsupported_operator", ["n%d = -%s" % (n, nn), "b%d = !gb" % n], (0, 0), "unary minus"),
                   ("unsupported_operator", ["n%d = -gi" % n, "b%d = !%s" % (n, w)], (1, 1), "not %s" % t2)])

    def t_map_value(self):
        n, ty = self.uid(), self.r.choice(TYPES)
        w, t2 = self.wrong(ty)
        wk, tk = self.wrong("str")
        # (a present value and nil are entries of a map whose values are optional; an optional is NOT an entry of a map whose
        #  keys / values are plain, just as `m[k] = o` is refused)
        rest = ['mo%d = map[str, %s?] { "k": %s, "j": nil }' % (n, ty, self.e(ty)), "ml%d: [int?...] = [1, nil]" % n,
                'mn%d = map[str, [int...]] { "k": gl }' % n]

        def lit(line):
            return [line] + rest
        return St("map_literal", lit('mm%d = map[str, %s] { "k": %s, "j": %s }' % (n, ty, self.e(ty), self.e(ty))),
                  [("wrong_map_value", lit('mm%d = map[str, %s] { "k": %s, "j": %s }' % (n, ty, self.e(ty), w)), (0, 0), "value %s <- %s" % (ty, t2)),
                   ("wrong_map_key", lit('mm%d = map[str, %s] { %s: %s }' % (n, ty, wk, self.e(ty))), (0, 0), "key str <- %s" % tk),
                   ("wrong_map_value", lit('mm%d = map[str, %s] { "k": %s, "j": %s }' % (n, ty, self.e(ty), OPT_OF[ty])), (0, 0), "value %s <- %s? (optional into a plain slot)" % (ty, ty)),
                   ("wrong_map_value", lit('mm%d = map[str, %s] { "k": %s }' % (n, ty, OPT_OF[ty])), (0, 0), "only value %s <- %s? (optional into a plain slot)" % (ty, ty)),
                   ("wrong_map_key", lit('mm%d = map[str, %s] { gos: %s }' % (n, ty, self.e(ty))), (0, 0), "key str <- str? (optional into a plain slot)"),
                   ("wrong_map_key", lit('mm%d = map[int, %s] { goi: %s }' % (n, ty, self.e(ty))), (0, 0), "key int <- int? (optional into a plain slot)"),
                   ("wrong_map_value", [rest[0], rest[1], 'mn%d = map[str, [int...]] { "k": ml%d }' % (n, n)], (2, 2), "value [int...] <- [int?...]"),
                   ("wrong_map_value", [rest[0], rest[1], 'mn%d = map[str, [int...]] { "k": [goi] }' % n], (2, 2), "value [int...] <- the literal [int?]"),
                   ("unknown_name", lit('mm%d = map[str, %s] { "k": nope%d }' % (n, ty, n)), (0, 0), "as a map value"),
                   ("wrong_arg_type", lit('mm%d = map[str, %s] { "k": %s(%s) }' % (n, "int", "fi", self.wrong("int")[0])), (0, 0), "call as a map value")])

    def t_list_elem(self):
        n, ty = self.uid(), self.r.choice(TYPES)
        w, t2 = self.wrong(ty)
        return St("list_literal", ["ll%d: [%s...] = [%s, %s]" % (n, ty, self.e(ty), self.e(ty))],
                  [("wrong_list_element", ["ll%d: [%s...] = [%s, %s]" % (n, ty, self.e(ty), w)], (0, 0), "%s <- %s" % (ty, t2))])

    def t_fixed_list(self):
        """fixed-shape list types `[T1, T2]`: the value must have exactly that shape (initializer, argument, result)"""
        n = self.uid()
        # a literal whose elements all have one type is an OPEN list (unknown length) and is accepted wherever the
        # element types fit: the shape only binds when the element types differ
        t1 = self.r.choice(TYPES)
        t2 = self.other(t1)
        a, b = self.e(t1), self.e(t2)
        extra = self.e(self.r.choice(TYPES))
        w1, _ = self.wrong(t1)
        s1 = self.r.choice(["int", "str"])          # an open list whose elements fit every slot is accepted for a fixed shape ...
        opn = {"int": "gl", "str": "gsl"}[s1]
        base = ["const fx%d: [%s, %s] = [%s, %s]" % (n, t1, t2, a, b),
                "fh%d = fn(q: [%s, %s]) -> [%s, %s] {" % (n, t1, t2, t1, t2), "  return q", "}",
                "const fy%d = fh%d([%s, %s])" % (n, n, a, b),
                "fo%d: [%s?...] = [%s, nil]" % (n, s1, self.e(s1)), "const fz%d: [%s, %s] = %s" % (n, s1, s1, opn),
                "fk%d = fn(q: [%s, %s]) -> %s {" % (n, s1, s1, s1), "  return q[1]", "}", "fw%d = fk%d(%s)" % (n, n, opn),
                "fr%d = fn() -> [%s, %s] {" % (n, s1, s1), "  return %s" % opn, "}"]

        def mut(i, line):
            m = list(base)
            m[i] = line
            return m
        return St("fixed_list", base,
                  [("wrong_init", mut(0, "const fx%d: [%s, %s] = [%s, %s, %s]" % (n, t1, t2, a, b, extra)), (0, 0), "fixed list: one element too many"),
                   ("wrong_init", mut(0, "const fx%d: [%s, %s] = [%s]" % (n, t1, t2, a)), (0, 0), "fixed list: one element too few"),
                   ("wrong_init", mut(0, "const fx%d: [%s, %s] = [%s, %s]" % (n, t1, t2, w1, b)), (0, 0), "fixed list: wrong element type"),
                   ("wrong_arg_type", mut(4, "const fy%d = fh%d([%s, %s, %s])" % (n, n, a, b, extra)), (4, 4), "fixed-list parameter: one element too many"),
                   ("wrong_arg_type", mut(4, "const fy%d = fh%d([%s])" % (n, n, a)), (4, 4), "fixed-list parameter: one element too few"),
                   ("wrong_return", mut(2, "  return [%s, %s, %s]" % (a, b, extra)), (1, 3), "fixed-list result: one element too many"),
                   # ... but not one whose elements may be nil (`[T?...]` is no more a `[T, T]` than it is a `[T...]`), nor one of another type
                   ("wrong_init", mut(6, "const fz%d: [%s, %s] = fo%d" % (n, s1, s1, n)), (6, 6), "fixed list [%s, %s] <- [%s?...]" % (s1, s1, s1)),
                   ("wrong_init", mut(6, "const fz%d: [%s, %s] = %s" % (n, s1, s1, {"int": "gsl", "str": "gl"}[s1])), (6, 6), "fixed list [%s, %s] <- open list of another type" % (s1, s1)),
                   ("wrong_arg_type", mut(10, "fw%d = fk%d(fo%d)" % (n, n, n)), (10, 10), "fixed-list parameter [%s, %s] <- [%s?...]" % (s1, s1, s1)),
                   ("wrong_return", mut(12, "  return fo%d" % n), (11, 13), "fixed-list result [%s, %s] <- [%s?...]" % (s1, s1, s1))])

    def t_fn_typed(self):
        """function-typed positions (parameter, annotated variable, result): the supplied function must have exactly the
        parameter types and a result the expected one accepts (an optional result does not fit a plain one)"""
        n = self.uid()
        base = ["ha%d = fn(cb: fn(int) -> int) -> int {" % n, "  return cb(1)", "}",
                "hg%d = fn(a: int) -> int {" % n, "  return a + 1", "}",
                "ho%d = fn(a: int) -> int? {" % n, "  return nil", "}",
                "hs%d = fn(a: str) -> int {" % n, "  return 1", "}",
                "h2%d = fn(a: int, b: int) -> int {" % n, "  return a", "}",
                "hr%d = fn(a: int) -> str {" % n, "  return \"r\"", "}",
                "hk%d = ha%d(hg%d)" % (n, n, n),
                "hv%d: fn(int) -> int = hg%d" % (n, n),
                "hm%d = fn() -> fn(int) -> int {" % n, "  return hg%d" % n, "}"]
        if self.r.random() < 0.3:
            # (legal the other way round: a function with a plain result where an optional result is expected; kept out of
            #  most instances so that a tree which wrongly rejects it still gets the mutants above checked)
            base.append("hw%d: fn(int) -> int? = hg%d" % (n, n))

        def mut(i, line):
            m = list(base)
            m[i] = line
            return m
        muts = []
        for bad, why in (("ho", "result int? where int is expected"), ("hs", "parameter str where int is expected"),
                         ("h2", "two parameters where one is expected"), ("hr", "result str where int is expected")):
            muts.append(("wrong_arg_type", mut(18, "hk%d = ha%d(%s%d)" % (n, n, bad, n)), (18, 18), "function argument: " + why))
            muts.append(("wrong_init", mut(19, "hv%d: fn(int) -> int = %s%d" % (n, bad, n)), (19, 19), "function-typed variable: " + why))
            muts.append(("wrong_return", mut(21, "  return %s%d" % (bad, n)), (20, 22), "returned function: " + why))
        return St("function_typed", base, muts)

    def t_index_write(self):
        """`a[i] = v` / `a[i] op= v`: the target must be a list or map element of the value's type; a str has no element to replace"""
        n = self.uid()
        w, t2 = self.wrong("int")
        base = ["iw%d: [int...] = [1, 2, 3]" % n, "is%d = \"abc\"" % n, "iw%d[0] = %s" % (n, self.e("int")), "iw%d[1] += 2" % n, "ic%d = is%d[0]" % (n, n),
                "im%d = map[str, int]" % n, "im%d[\"a\"] = 4" % n, "in%d: [[int...]...] = [[1], [2]]" % n, "in%d[0] = [3]" % n]

        def mut(i, line):
            m = list(base)
            m[i] = line
            return m
        return St("index_write", base,
                  [("index_non_indexable", mut(2, "is%d[0] = \"x\"" % n), (2, 2), "element of a str assigned"),
                   ("index_non_indexable", mut(3, "is%d[0] += \"x\"" % n), (3, 3), "element of a str op-assigned"),
                   ("index_non_indexable", mut(2, "gi[0] = 1"), (2, 2), "element of an int assigned"),
                   ("index_non_indexable", mut(2, "gs[0] = \"x\""), (2, 2), "element of a str of an enclosing scope (captured inside functions) assigned"),
                   ("index_non_indexable", mut(3, "gs[0] += \"x\""), (3, 3), "element of a str of an enclosing scope op-assigned"),
                   ("wrong_reassign", mut(2, "iw%d[0] = %s" % (n, w)), (2, 2), "list element int <- %s" % t2),
                   # a `T?` may be nil: it does not fit a plain `T` slot of a list, a map or a nested list
                   ("wrong_reassign", mut(2, "iw%d[0] = goi" % n), (2, 2), "list element int <- int? (optional into a plain slot)"),
                   ("wrong_reassign", mut(6, "im%d[\"a\"] = goi" % n), (6, 6), "map value int <- int? (optional into a plain slot)"),
                   ("wrong_reassign", mut(8, "in%d[0] = [goi]" % n), (8, 8), "list element [int...] <- [int?...]"),
                   ("index_with_non_index", mut(2, "iw%d[%s] = 1" % (n, self.wrong("int")[0])), (2, 2), "write through a non-index")])

    def t_obj_field(self):
        """a field whose type is a class holds an INSTANCE: it has fields and methods but is not callable"""
        n = self.uid()
        decl = ["class W%d {" % n, "  p: Pt", "  constructor(self) {", "    self.p = gp", "  }", "}"]
        base = ["ww%d = W%d()" % (n, n), "wq%d = ww%d.p.getx()" % (n, n), "wr%d: int = ww%d.p.x" % (n, n)]

        def mut(i, s):
            m = list(base)
            m[i] = s
            return m
        return St("object_field", base,
                  [("call_non_callable", mut(1, "wq%d = ww%d.p()" % (n, n)), (1, 1), "instance-typed field called"),
                   ("call_non_callable", mut(1, "wq%d = ww%d.p(1, \"a\")" % (n, n)), (1, 1), "instance-typed field called with constructor arguments"),
                   ("unknown_method", mut(1, "wq%d = ww%d.p.nomethod%d()" % (n, n, n)), (1, 1), "method of the object in a field"),
                   ("wrong_init", mut(2, "wr%d: str = ww%d.p.x" % (n, n)), (2, 2), "str <- int field of the object in a field")], decl=decl)

    def t_class_def(self):
        n = self.uid()
        w, t2 = self.wrong("int")
        decl = ["class K%d {" % n, "  x: int", "  constructor(self, x: int) {", "    self.x = x", "  }",
                "  fn fetch(self) -> int {", "    return self.x", "  }", "  fn bump(self, d: int) {", "    self.x = self.x + d", "  }", "}"]
        base = ["kk%d = K%d(%s)" % (n, n, self.e("int")), "kk%d.bump(%s)" % (n, self.r.choice(["7", "(2 * 3)"])), "kv%d: int = kk%d.fetch()" % (n, n)]

        def mut(i, s):
            m = list(base)
            m[i] = s
            return m

        def dmut(fault, i, s, note):
            d = list(decl)
            d[i] = s
            return (fault, base, (0, 11), note, d, "decl")
        return St("class_def", base,
                  [dmut("wrong_reassign", 3, "    self.x = %s" % w, "field int <- %s in constructor" % t2),
                   dmut("wrong_return", 6, "    return %s" % w, "method int <- %s" % t2),
                   dmut("wrong_return", 6, "    return goi", "method int <- int? (optional returned as a plain value)"),
                   dmut("unknown_field", 6, "    return self.nofield%d" % n, "self.nofield"),
                   dmut("missing_return", 6, "    self.x = self.x + 0", "method declared -> int reaches its end without a return"),
                   dmut("wrong_reassign", 9, "    self.x = %s" % w, "field int <- %s in method" % t2),
                   dmut("wrong_reassign", 9, "    self.x = goi", "field int <- int? in method (optional into a plain field)"),
                   # a method is reached through `self`: its bare name is not a variable of the class body
                   dmut("unknown_name", 9, "    self.x = fetch() + d", "another method called by its bare name"),
                   dmut("unknown_name", 6, "    return bump", "another method named without self"),
                   ("wrong_arg_type", mut(0, "kk%d = K%d(%s)" % (n, n, w)), (0, 0), "constructor arg int <- %s" % t2),
                   ("arg_count_less", mut(0, "kk%d = K%d()" % (n, n)), (0, 0), "constructor 1 -> 0"),
                   ("wrong_arg_type", mut(1, "kk%d.bump(%s)" % (n, w)), (1, 1), "method arg int <- %s" % t2),
                   ("unknown_method", mut(1, "kk%d.nomethod(%s)" % (n, self.e("int"))), (1, 1), ""),
                   ("wrong_init", mut(2, "kv%d: str = kk%d.fetch()" % (n, n)), (2, 2), "str <- method result int")], decl=decl)

    def t_self_sig(self):
        """`Self` in a member's signature (also nested: `[Self...]`, `Self?`) is the class the member belongs to, also when
        the member is used inside ANOTHER class, declared before or after it"""
        n = self.uid()
        ca = ["class SA%d {" % n, "  v: int", "  constructor(self, v: int) {", "    self.v = v", "  }",
              "  fn all(self) -> [Self...] {", "    r: [Self...] = [self]", "    return r", "  }",
              "  fn maybe(self) -> Self? {", "    return self", "  }", "}"]
        first = self.r.random() < 0.5           # the user class after or before the class it uses
        # (a class declared later cannot be named in a parameter, but a module variable can have its type: the user class
        #  then finds the object in that list)
        take = ["  fn first(self, a: SA%d) -> int {" % n] if first else ["  fn first(self) -> int {", "    a = sh%d[0]" % n]
        take2 = ["  fn other(self, a: SA%d) -> int {" % n] if first else ["  fn other(self) -> int {", "    a = sh%d[0]" % n]
        cb = ["class SB%d {" % n, "  v: int", "  w: int", "  constructor(self) {", "    self.v = 7", "    self.w = 2", "  }"] + \
            take + ["    l = a.all()", "    x = l[0]", "    return x.v", "  }"] + take2 + ["    g = get a.maybe()", "    return g.v", "  }", "}"]
        decl = (ca + cb) if first else (["sh%d: [SA%d...] = []" % (n, n)] + cb + ca)
        off = len(ca) if first else 1
        i_first, i_other = cb.index("    return x.v"), cb.index("    return g.v")
        args = "sa%d" % n if first else ""
        base = ["sa%d = SA%d(%s)" % (n, n, self.e("int")), "sb%d = SB%d()" % (n, n)] + ([] if first else ["sh%d.push(sa%d)" % (n, n)]) + \
               ["sr%d: int = sb%d.first(%s) + sb%d.other(%s)" % (n, n, args, n, args)]

        def dmut(fault, i, s, note):
            d = list(decl)
            d[off + i] = s
            return (fault, base, (0, len(decl) - 1), note, d, "decl")
        order = "declared before" if first else "declared after"
        return St("self_in_signature", base,
                  [dmut("unknown_field", i_first, "    return x.w", "field of the OTHER class on an element of `-> [Self...]` (%s)" % order),
                   dmut("unknown_field", i_other, "    return g.w", "field of the OTHER class on the value of `-> Self?` (%s)" % order),
                   dmut("wrong_init", i_first, "    q%d: str = x.v\n    return 1" % n, "str <- int field of an element of `-> [Self...]` (%s)" % order),
                   dmut("wrong_return", i_other, "    return g", "object of the other class returned as int (%s)" % order)], decl=decl)

    def t_assert(self):
        n = self.uid()
        w, t2 = self.wrong("bool")
        return St("assert", ["assert %s" % self.r.choice(["gb", "true", "(gi > 0)", "fb(1)"]), "as%d = 1" % n],
                  [("non_bool_condition", ["assert %s" % w, "as%d = 1" % n], (0, 0), "assert <- %s" % t2),
                   ("non_bool_condition", ["assert gob", "as%d = 1" % n], (0, 0), "assert <- bool?"),
                   ("unknown_name", ["assert nope%d" % n, "as%d = 1" % n], (0, 0), "")])

    def t_unpack(self):
        """`[a, b] = v`: v must be indexable by position; every name receives the type of its element
        (a line that starts with `[` continues the expression of the previous line, hence the separator)"""
        n = self.uid()
        base = ["if gb {", "}", "[ua%d, ub%d] = gl" % (n, n), "uc%d: int = ua%d + ub%d" % (n, n, n),
                "if gb {", "}", "[ud%d] = gsl" % n, "ue%d: str = ud%d" % (n, n),
                "type UK%d int" % n, "uk%d = map[UK%d, str] { 0: \"a\", 1: \"b\" }" % (n, n), "uo%d = map[int?, str] { }" % n,
                "ui%d = map[int, str] { 0: \"a\", 1: \"b\" }" % n, "ug%d = map[bigint, str] { }" % n,
                "if gb {", "}", "[uf%d, uh%d] = gl" % (n, n), "if gb {", "}", "[uj%d] = gl" % n]
        # only a LIST has the elements `v[0]`, `v[1]`, ... the names are filled with: a map does not, whatever its keys are
        maps = [("uk%d" % n, "a map whose key type is an alias of int"), ("uo%d" % n, "a map whose key type is int?"),
                ("ui%d" % n, "a map keyed by int"), ("ug%d" % n, "a map keyed by bigint")]

        def mut(i, line):
            m = list(base)
            m[i] = line
            return m
        mm = []
        for name, what in maps:
            mm.append(("index_non_indexable", mut(15, "[uf%d, uh%d] = %s" % (n, n, name)), (15, 15), "unpacking " + what))
            mm.append(("index_non_indexable", mut(18, "[uj%d] = %s" % (n, name)), (18, 18), "single-name unpacking of " + what))
        return St("unpack", base, mm +
                  [("index_non_indexable", mut(2, "[ua%d, ub%d] = %s" % (n, n, self.r.choice(["gm", "gs"]))), (2, 2), "unpacking a map keyed by str / a str"),
                   ("index_non_indexable", mut(2, "[ua%d, ub%d] = %s" % (n, n, self.r.choice(["gi", "gb", "gf", "gp", "fi"]))), (2, 2), "unpacking a value without elements"),
                   ("index_non_indexable", mut(6, "[ud%d] = %s" % (n, self.r.choice(["gi", "gb", "gp"]))), (6, 6), "single-name unpacking of a value without elements"),
                   ("unknown_name", mut(2, "[ua%d, ub%d] = nolist%d" % (n, n, n)), (2, 2), ""),
                   ("wrong_init", mut(3, "uc%d: str = ua%d" % (n, n)), (3, 3), "str <- unpacked int"),
                   ("wrong_init", mut(7, "ue%d: [str...] = ud%d" % (n, n)), (7, 7), "[str...] <- the single unpacked element (a str)"),
                   ("wrong_reassign", mut(7, "ud%d = gsl" % n), (7, 7), "single unpacked name (a str) <- the whole list")])

    def t_unwrap_into(self):
        """`a ?= b` stores into the VARIABLE a: the left side must be a name"""
        n = self.uid()
        base = ["uo%d: int? = nil" % n, "ur%d = uo%d ?= goi" % (n, n), "ub%d: bool? = nil" % n, "uu%d = ub%d ?= gob" % (n, n)]

        def mut(i, line):
            m = list(base)
            m[i] = line
            return m
        return St("unwrap_into", base,
                  [("unsupported_operator", mut(1, "ur%d = -gi ?= goi" % n), (1, 1), "?= with a negated name on the left"),
                   ("unsupported_operator", mut(3, "uu%d = !gb ?= gob" % n), (3, 3), "?= with a `not` expression on the left"),
                   ("unsupported_operator", mut(1, "ur%d = -gi ?= 7" % n), (1, 1), "?= with a negated name on the left and a plain value on the right"),
                   ("unsupported_operator", mut(3, "uu%d = !gb ?= true" % n), (3, 3), "?= with a `not` expression on the left and a plain value on the right"),
                   ("unsupported_operator", mut(1, "ur%d = (uo%d) ?= goi" % (n, n)), (1, 1), "?= with a parenthesised name on the left"),
                   ("unsupported_operator", mut(1, "ur%d = (gi + 1) ?= goi" % n), (1, 1), "?= with an expression on the left"),
                   ("unsupported_operator", mut(1, "ur%d = uo%d ?= gs" % (n, n)), (1, 1), "int? ?= str"),
                   ("unknown_name", mut(1, "ur%d = nope%d ?= goi" % (n, n)), (1, 1), "")])

    def t_or_fallback(self):
        """`(x) or y` has the PRESENT type of x: the fallback y must be a plain value of that type, whether x is a local, a
        module-level variable read inside a function (a captured variable) or a parameter"""
        n, ty = self.uid(), self.r.choice(TYPES)
        w, t2 = self.wrong(ty)
        o = OPT_OF[ty]
        base = ["ox%d: %s? = nil" % (n, ty), "oy%d: %s? = nil" % (n, ty), "or%d: %s = (%s) or %s" % (n, ty, o, self.e(ty)), "os%d: %s = (ox%d) or %s" % (n, ty, n, self.e(ty)),
                "ok%d = fn(p: %s?, q: %s?) -> %s {" % (n, ty, ty, ty), "  ot%d = (%s) or %s" % (n, o, self.e(ty)), "  ou%d = (p) or ot%d" % (n, n), "  ov%d = (ox%d) or ou%d" % (n, n, n),
                "  return ov%d" % n, "}", "ow%d: %s = ok%d(nil, nil)" % (n, ty, n)]

        def mut(i, line):
            m = list(base)
            m[i] = line
            return m
        muts = []
        for i, pre, x, alts in ((2, "or%d: %s = " % (n, ty), o, [o, "oy%d" % n]), (3, "os%d: %s = " % (n, ty), "ox%d" % n, ["oy%d" % n, o]),
                                (5, "  ot%d = " % n, o, [o, "oy%d" % n, "q"]), (6, "  ou%d = " % n, "p", ["q", "p", o]), (7, "  ov%d = " % n, "ox%d" % n, ["oy%d" % n, "q", o])):
            span = (i, i) if i < 4 else (4, 9)
            for y in alts:
                muts.append(("unsupported_operator", mut(i, "%s(%s) or %s" % (pre, x, y)), span, "fallback of `(%s) or ..` is the optional %s (the result may be nil)" % (x, y)))
            muts.append(("unsupported_operator", mut(i, "%s(%s) or %s" % (pre, x, w)), span, "fallback of `(%s) or ..`: %s where %s is required" % (x, t2, ty)))
        return St("or_fallback", base, muts)

    def t_map_result(self):
        """the elements of `l.map(f)` have the result type of f: with f: fn(int) -> int? they are optionals, which do not fit a plain slot"""
        n = self.uid()
        base = ["gq%d = fn(x: int) -> int? {" % n, "  if x == 2 {", "    return nil", "  }", "  return x", "}",
                "gr%d = gl.map(gq%d)" % (n, n), "gv%d: int? = gr%d[1]" % (n, n), "gw%d: [int?...] = gl.map(gq%d)" % (n, n),
                "gt%d: int? = 0" % n, "gu%d = gt%d ?= gr%d[1]" % (n, n, n), "gx%d: int? = 1" % n, "gx%d = gr%d[0]" % (n, n),
                "gy%d = fi((gr%d[0]) or 1)" % (n, n), "gz%d: [int...] = [1]" % n, "gz%d[0] = (gr%d[0]) or 2" % (n, n),
                "gp%d = gl.map(fi)" % n, "go%d: [int...] = gp%d" % (n, n), "gn%d: int = gp%d[0]" % (n, n)]

        def mut(i, line, more=()):
            m = list(base)
            m[i] = line
            for j, l in more:
                m[j] = l
            return m
        return St("map_result", base,
                  [("wrong_init", mut(7, "gv%d: int = gr%d[1]" % (n, n)), (7, 7), "int <- element of the list of int? made by map"),
                   ("wrong_init", mut(8, "gw%d: [int...] = gl.map(gq%d)" % (n, n)), (8, 8), "[int...] <- the list of int? made by map"),
                   ("wrong_init", mut(8, "gw%d: [int...] = gr%d" % (n, n)), (8, 8), "[int...] <- a variable holding the list of int? made by map"),
                   ("wrong_init", mut(8, "gw%d: [str?...] = gl.map(gq%d)" % (n, n)), (8, 8), "[str?...] <- the list of int? made by map"),
                   ("wrong_init", mut(17, "go%d: [str...] = gp%d" % (n, n)), (17, 17), "[str...] <- the list of int made by map"),
                   ("wrong_init", mut(18, "gn%d: str = gp%d[0]" % (n, n)), (18, 18), "str <- element of the list of int made by map"),
                   ("unsupported_operator", mut(10, "gu%d = gt%d ?= gr%d[1]" % (n, n, n), [(9, "gt%d: int = 0" % n)]), (10, 10), "int ?= element of the list of int? made by map"),
                   ("wrong_reassign", mut(12, "gx%d = gr%d[0]" % (n, n), [(11, "gx%d: int = 1" % n)]), (12, 12), "int <- element of the list of int? made by map"),
                   ("wrong_arg_type", mut(13, "gy%d = fi(gr%d[0])" % (n, n)), (13, 13), "int parameter <- element of the list of int? made by map"),
                   ("wrong_reassign", mut(15, "gz%d[0] = gr%d[0]" % (n, n)), (15, 15), "list element int <- element of the list of int? made by map")])

    def t_declaration_shape(self):
        """(beyond the property's fault catalogue, same demand: the diagnostic names the SOURCE file) ill-formed
        declarations and literals that are diagnosed by the same code paths as the type faults"""
        n = self.uid()
        decl = ["class Q%d {" % n, "  x: int", "  constructor(self) {", "    self.x = 1", "  }", "}"]
        base = ["qq%d = Q%d()" % (n, n), "qb%d = gi + 0b11" % n]
        d2 = list(decl)
        d2[5:5] = ["  constructor(self, y: int) {", "    self.x = y", "  }"]
        d3 = list(decl)
        d3[1] = "  x"
        return St("declaration_shape", base,
                  [("malformed_declaration", base, (0, len(d2) - 1), "two constructors", d2, "decl"),
                   ("malformed_declaration", base, (0, len(d3) - 1), "member variable without a type", d3, "decl"),
                   ("malformed_declaration", [base[0], "qb%d = gi + 0b111111111" % n], (1, 1), "byte literal wider than 8 bits inside an expression")], decl=decl)

    def t_opassign_fit(self):
        """`x op= y` must yield a value that still fits x: one mutant per operator and target kind"""
        n = self.uid()
        ops = ["+=", "-=", "*=", "/=", "%="]
        o = [self.r.choice(ops) for _ in range(4)]
        base = ["oa%d: int = 7" % n, "ol%d: [int...] = [8, 2]" % n, 'op%d = Pt(9, "q")' % n, "ob%d = 0b11" % n,
                "oa%d %s 2" % (n, o[0]), "ol%d[0] %s 2" % (n, o[1]), "op%d.x %s 2" % (n, o[2]), "ob%d %s 0b1" % (n, o[3])]
        muts = []

        def mut(i, line, note):
            m = list(base)
            m[i] = line
            muts.append(("opassign_result_unfit", m, (i, i), note))
        for op in ops:
            mut(4, "oa%d %s 2.5" % (n, op), "int %s float" % op)
            mut(4, "oa%d %s B3" % (n, op), "int %s bigint" % op)
            mut(5, "ol%d[0] %s 2.5" % (n, op), "list element int %s float" % op)
            mut(6, "op%d.x %s 2.5" % (n, op), "field int %s float" % op)
            mut(7, "ob%d %s 1" % (n, op), "byte %s int" % op)
        mut(5, "ol%d[0] %s B2" % (n, self.r.choice(ops)), "list element int op= bigint")
        mut(6, "op%d.x %s B2" % (n, self.r.choice(ops)), "field int op= bigint")
        return St("opassign_fit", base, muts)

    RET_SHAPES = [
        ("while_body", ["  while a > 0 {", "    return a", "  }"]),
        ("from_body", ["  from 0 to 3, i {", "    return i", "  }"]),
        ("if_without_else", ["  if a > 0 {", "    return a", "  }"]),
        ("else_only", ["  if a > 0 {", "    w = 1", "  } else {", "    return a", "  }"]),
        ("then_only", ["  if a > 0 {", "    return a", "  } else {", "    w = 1", "  }"]),
        ("else_if_gap", ["  if a > 5 {", "    return a", "  } else if a > 2 {", "    w = 1", "  } else {", "    return 2", "  }"]),
        ("while_in_if", ["  if a > 0 {", "    while a > 1 {", "      return a", "    }", "  } else {", "    return a", "  }"]),
        ("if_else_in_while", ["  while a > 0 {", "    if a > 1 {", "      return a", "    } else {", "      return 1", "    }", "  }"]),
        ("from_in_else", ["  if a > 0 {", "    return 1", "  } else {", "    from 0 to 2, j {", "      return j", "    }", "  }"]),
    ]

    def t_fn_ret_shapes(self):
        """the all-paths-return analysis: the only guaranteed return is the final one; the mutant drops it"""
        n = self.uid()
        base, spans = [], []
        for k, (name, body) in enumerate(self.RET_SHAPES):
            start = len(base)
            base += ["h%ds%d = fn(a: int) -> int {" % (n, k)] + body + ["  return %s" % self.r.choice(["0", "a", "(a + 1)"]), "}"]
            spans.append((name, start, len(base) - 1))
            base.append("u%ds%d = h%ds%d(%s)" % (n, k, n, k, self.r.choice(["1", "3", "7"])))
        muts = []
        for name, lo, hi in spans:
            m = base[:hi - 1] + base[hi:]          # drop the final `return`
            muts.append(("missing_return", m, (lo, hi - 1), "only return inside %s" % name))
        return St("fn_return_shapes", base, muts)

    def t_lib(self):
        n = self.uid()
        w, t2 = self.wrong("int")
        return St("module_member", ["x%d = lib.lf(%s)" % (n, self.r.choice(["7", "(1 + 2)"])), "y%d: int = lib.lv" % n],
                  [("wrong_arg_type", ["x%d = lib.lf(%s)" % (n, w), "y%d: int = lib.lv" % n], (0, 0), "imported fn int <- %s" % t2),
                   ("unknown_field", ["x%d = lib.nomember%d" % (n, n), "y%d: int = lib.lv" % n], (0, 0), "module member"),
                   ("wrong_init", ["x%d = lib.lf(1)" % n, "y%d: str = lib.lv" % n], (1, 1), "str <- imported int"),
                   ("arg_count_more", ["x%d = lib.lf(1, 2)" % n, "y%d: int = lib.lv" % n], (0, 0), "imported fn 1 -> 2")])

    def t_lib_class(self):
        """an exported CLASS and an exported INSTANCE of it: `lib.Lk` read without a call is the class's constructor (a function),
        `lib.lk` an object -- one is not acceptable where the other is required (hunt2 B/5)"""
        n = self.uid()
        base = ["p%d = lib.lshow(lib.lk)" % n, "q%d: int = lib.lk.v" % n, "r%d = lib.lk.getv()" % n, "s%d = lib.lk" % n,
                "s%d = lib.Lk(%s)" % (n, self.r.choice(["6", "gi", "(1 + 2)"]))]

        def mut(i, line):
            b = list(base)
            b[i] = line
            return b
        return St("module_class", base,
                  [("wrong_arg_type", mut(0, "p%d = lib.lshow(lib.Lk)" % n), (0, 0), "imported fn Lk <- the class itself (its constructor) read through the module"),
                   ("unknown_field", mut(1, "q%d: int = lib.Lk.v" % n), (1, 1), "field of an instance looked up on the class read through the module"),
                   ("unknown_field", mut(2, "r%d = lib.Lk.getv()" % n), (2, 2), "method of an instance looked up on the class read through the module"),
                   ("wrong_reassign", mut(4, "s%d = lib.Lk" % n), (4, 4), "Lk (an object) <- the class itself read through the module")])

    TEMPLATES = ["t_decl_annot", "t_decl_alias", "t_decl_optional", "t_reassign", "t_call1", "t_call2", "t_mcall", "t_field",
                 "t_fn_ret", "t_fn_void", "t_cond_if", "t_cond_while", "t_cond_elseif", "t_index_list", "t_index_map", "t_binop",
                 "t_unary", "t_map_value", "t_list_elem", "t_class_def", "t_opassign_fit", "t_fn_ret_shapes", "t_fixed_list", "t_obj_field", "t_index_write", "t_fn_typed",
                 "t_self_sig", "t_assert", "t_unpack", "t_unwrap_into", "t_declaration_shape", "t_from_loop", "t_or_fallback", "t_map_result"]
    CONTEXTS = ["top", "function", "closure", "method", "constructor", "if", "else_if", "else", "while", "from"]

    # ---------------------------------------------------------------- contexts
    def ctx(self, kind, children):
        n = self.uid()
        if kind == "top":
            return children
        if kind == "function":
            return [Ctx(kind, ["k%d = fn() {" % n], children, ["}", "k%d()" % n])]
        if kind == "closure":
            return [Ctx(kind, ["k%d = fn() {" % n, "  loc%d = 3" % n, "  in%d = fn() {" % n, "    cap%d = loc%d + 1" % (n, n)],
                        children, ["  }", "  in%d()" % n, "}", "k%d()" % n], )]
        if kind == "method":
            return [Ctx(kind, [], children, ["c%d = C%d()" % (n, n), "c%d.run()" % n],
                        hoist=(["class C%d {" % n, "  constructor(self) {", "  }", "  fn run(self) {"], ["  }", "}"]))]
        if kind == "constructor":
            return [Ctx(kind, [], children, ["c%d = C%d()" % (n, n)], hoist=(["class C%d {" % n, "  constructor(self) {"], ["  }", "}"]))]
        if kind == "if":
            return [Ctx(kind, ["if gb {"], children, ["}"])]
        if kind == "else_if":
            return [Ctx(kind, ["if !gb {", "  ei%d = 0" % n, "} else if gi > 0 {"], children, ["} else {", "  ej%d = 0" % n, "}"])]
        if kind == "else":
            return [Ctx(kind, ["if !gb {", "  ei%d = 0" % n, "} else {"], children, ["}"])]
        if kind == "while":
            return [Ctx(kind, ["while gb {"], children, ["  break", "}"])]
        if kind == "from":
            return [Ctx(kind, ["from 0 to 1, it%d {" % n], children, ["}"])]
        raise ValueError(kind)

    def indent_of(self, kind):
        return {"closure": 2, "method": 2, "constructor": 2}.get(kind, 1)

    def unit(self, tname):
        return getattr(self, tname)()

    def random_items(self, depth):
        items = []
        for _ in range(self.r.randrange(2, 5)):
            if depth < 3 and self.r.random() < 0.35:
                kind = self.r.choice(self.CONTEXTS[1:])
                items += self.ctx(kind, self.random_items(depth + 1))
            else:
                ts = self.TEMPLATES + (["t_lib", "t_lib_class"] if self.with_lib else [])
                items.append(self.unit(self.r.choice(ts)))
        return items


# ------------------------------------------------------------------ rendering

def render(items, mutate=None, prefix=PREAMBLE, with_lib=False):
    """-> (text, (first, last) line of the mutated region or None, context path of the mutated statement)
    layout: preamble, then every class the program declares (module level: template classes and the classes that hold the
    method / constructor contexts, inner ones first), then the statements in their contexts"""
    head = prefix.rstrip("\n").split("\n")
    if with_lib:
        head.insert(1, "import lib")
    top, body = [], []          # [(line, inside the mutated region?)]
    info = {"path": []}

    def go(its, ind, path, out):
        for it in its:
            if isinstance(it, St):
                use, decl, rel, where = it.lines, it.decl, None, "use"
                if mutate is not None and mutate[0] is it:
                    m = mutate[1]
                    use, rel = m[1], m[2]
                    if len(m) > 4:
                        decl, where = m[4], m[5]
                    info["path"] = list(path)
                k = 0
                for l in decl:
                    for l1 in l.split("\n"):
                        top.append((l1, rel is not None and where == "decl" and rel[0] <= k <= rel[1]))
                    k += 1
                k = 0
                for l in use:
                    for l1 in l.split("\n"):
                        out.append(("  " * ind + l1, rel is not None and where == "use" and rel[0] <= k <= rel[1]))
                    k += 1
            elif it.hoist:
                blk = [(l, False) for l in it.hoist[0]]
                go(it.children, 2, path + [it.kind], blk)           # classes declared inside land in `top` before this one
                blk += [(l, False) for l in it.hoist[1]]
                top.extend(blk)
                for l in it.tail:
                    out.append(("  " * ind + l, False))
            else:
                for l in it.head:
                    out.append(("  " * ind + l, False))
                go(it.children, ind + {"closure": 2}.get(it.kind, 1), path + [it.kind], out)
                for l in it.tail:
                    out.append(("  " * ind + l, False))
    go(items, 0, [], body)
    every = [(l, False) for l in head] + top + body + [('print "END"', False)]
    marked = [i + 1 for i, (_, f) in enumerate(every) if f]
    return "\n".join(l for l, _ in every) + "\n", ((marked[0], marked[-1]) if marked else None), info["path"]


def all_sites(items, path=()):
    for it in items:
        if isinstance(it, St):
            for m in it.mutants:
                yield it, m, path
        else:
            yield from all_sites(it.children, path + (it.kind,))


DIAG = re.compile(r"^\s*--> (\S+?):(\d+):(\d+)\s*$", re.M)
ANSI = re.compile(r"\x1b\[[0-9;]*m")


def run_prog(binary, base, files):
    d = programs.materialize({"files": files, "entry": "main.ms"}, base)
    rc, out, err = programs.run_bin(binary, ["run", "main.ms", "-q"], d)
    shutil.rmtree(d, ignore_errors=True)
    return rc, ANSI.sub("", out), ANSI.sub("", err)


def judge(rc, out, err, span, fname="main.ms"):
    """None when the mutant is handled as the property demands, else (class-suffix, explanation)"""
    lines = out.splitlines()
    ran = any(l.strip() in ("MARK", "END") for l in lines)
    if (rc == 101 or "panicked at" in err) and ran:
        # the program was accepted and started: the panic is the interpreter's, while executing the ill-typed statement
        m = re.search(r"panicked at ([^\n]*)", err)
        return "executed", "ill-typed mutant accepted and executed until the interpreter panicked: %s" % (m.group(1)[:160] if m else err[-200:])
    if rc == 101 or "panicked at" in err:
        m = re.search(r"panicked at ([^\n]*)", err)
        return "panic", "compiler panic: %s" % (m.group(1)[:160] if m else err[-200:])
    if rc == 124:
        return "timeout", "no verdict within the time limit"
    if rc == 0:
        return "accepted", "ill-typed mutant accepted and run to completion"
    if ran:
        return "executed", "program output produced although the run failed (exit %d): statements were executed" % rc
    if "Did not compile successfully" not in err:
        return "not-a-diagnostic", "failed (exit %d) without compiler diagnostics: %s" % (rc, err.strip()[-200:])
    if rc != 1:
        return "exit-status", "rejected with exit status %d instead of 1" % rc
    ds = [(m.group(1), int(m.group(2)), int(m.group(3))) for m in DIAG.finditer(out)]
    if not ds:
        return "no-position", "rejected, but no diagnostic names a file and position"
    if not any(os.path.basename(f) == fname and span[0] <= ln <= span[1] for f, ln, _ in ds):
        return "wrong-position", "no diagnostic lies in %s lines %d-%d (got %s)" % (fname, span[0], span[1], ds[:4])
    return None


# ------------------------------------------------------------------ Coq core fragment (Reject/Typing.v)
# random programs of exactly the fragment of Reject/Typing.v, rendered as MScript text and as a Coq term

CN = {"int": "NInt", "str": "NStr", "bool": "NBool", "float": "NFloat"}
LITS = {"int": ["7", "12", "3"], "str": ['"s"', '"ab"'], "bool": ["true", "false"], "float": ["2.5", "0.5"]}
CORE_BAD_OPS = [("bool", "+", "OAdd", "int"), ("str", "-", "OSub", "int"), ("bool", "<", "OLt", "bool"), ("int", "&&", "OAnd", "bool"),
                ("int", "==", "OEq", "str"), ("bool", "*", "OMul", "bool"), ("str", "*", "OMul", "float"), ("str", "<", "OLt", "str"),
                ("float", "&&", "OAnd", "float"), ("bool", "==", "OEq", "int")]


def cty(t):
    if t[0] == "n":
        return "(TN %s)" % CN[t[1]]
    if t[0] == "list":
        return "(TList %s)" % CN[t[1]]
    return "(TFn [%s] %s)" % ("; ".join(CN[p] for p in t[1]), "(Some %s)" % CN[t[2]] if t[2] else "None")


def mty(t):
    if t[0] == "n":
        return t[1]
    if t[0] == "list":
        return "[%s...]" % t[1]
    return "fn(%s)%s" % (", ".join(t[1]), " -> " + t[2] if t[2] else "")


def cargs(terms):
    t = "XNil"
    for a in reversed(terms):
        t = "(XCons %s %s)" % (a, t)
    return t


class N:
    """a statement node: text and term, with nested blocks and single-fault alternatives"""

    def __init__(self, head, term, blocks=(), seps=(), tail=(), faults=(), loop=False, kind=None):
        self.head, self.term, self.blocks, self.seps, self.tail = list(head), term, list(blocks), list(seps), list(tail)
        self.faults = list(faults)
        self.loop = loop
        self.kind = kind


def core_returns(block):
    """Reject/Typing.v returns_b on the generator's nodes"""
    for node in block:
        if node.kind == "ret":
            return True
        if node.kind == "if" and len(node.blocks) == 2 and core_returns(node.blocks[0]) and core_returns(node.blocks[1]):
            return True
    return False


def core_render(block, ind, target=None, repl=None, out=None, span=None):
    """-> term; appends text lines to `out`; span[0] = (first, last) line of the replacement"""
    terms = []
    for node in block:
        use = node
        hit = target is not None and node is target
        if hit:
            use = repl
        start = len(out) + 1
        for l in use.head:
            out.append("  " * ind + l)
        bts = []
        for i, b in enumerate(use.blocks):
            bts.append(core_render(b, ind + 1, target, repl, out, span))
            if use.loop:
                out.append("  " * (ind + 1) + "break")
            if i < len(use.seps):
                out.append("  " * ind + use.seps[i])
        for l in use.tail:
            out.append("  " * ind + l)
        if hit:
            span[0] = (start, len(out))
        terms.append(use.term.format(*bts) if use.blocks else use.term)
    t = "BNil"
    for x in reversed(terms):
        t = "(BCons %s %s)" % (x, t)
    return t


def core_sites(block):
    for node in block:
        for f in node.faults:
            yield node, f
        for b in node.blocks:
            yield from core_sites(b)


class Core:
    def __init__(self, rng):
        self.r = rng
        self.k = 0

    def fresh(self):
        self.k += 1
        return self.k

    # env: list of (id, name, type, local) -- innermost last; local = bound in the current function
    def vars_of(self, env, pred):
        seen, out = set(), []
        for i, nme, t, loc in reversed(env):
            if nme in seen:
                continue
            seen.add(nme)
            if pred(t):
                out.append((i, nme, t, loc))
        return out

    def expr(self, ty, env, depth=0):
        """a well-typed expression of native type ty -> (text, term)"""
        r = self.r
        c = r.random()
        vs = self.vars_of(env, lambda t: t == ("n", ty))
        if depth >= 2 or c < 0.25:
            if vs and r.random() < 0.6:
                v = r.choice(vs)
                return v[1], "(EVar %d)" % v[0]
            return r.choice(LITS[ty]), "(ELit %s)" % CN[ty]
        if c < 0.40:
            fs = self.vars_of(env, lambda t: t[0] == "fn" and t[2] == ty)
            if fs:
                f = r.choice(fs)
                args = [self.expr(p, env, depth + 1) for p in f[2][1]]
                return "%s(%s)" % (f[1], ", ".join(a[0] for a in args)), "(ECall %d %s)" % (f[0], cargs([a[1] for a in args]))
        if c < 0.50:
            ls = self.vars_of(env, lambda t: t == ("list", ty))
            if ls:
                l = r.choice(ls)
                return "%s[%s]" % (l[1], r.choice(["0", "1"])), "(EIndex (EVar %d) (ELit NInt))" % l[0]
        if ty == "int":
            a, b = self.expr("int", env, depth + 1), self.expr("int", env, depth + 1)
            op, cop = r.choice([("+", "OAdd"), ("-", "OSub"), ("*", "OMul")])
            return "(%s %s %s)" % (a[0], op, b[0]), "(EBin %s %s %s)" % (cop, a[1], b[1])
        if ty == "float":
            a, b = self.expr("float", env, depth + 1), self.expr(r.choice(["int", "float"]), env, depth + 1)
            op, cop = r.choice([("+", "OAdd"), ("*", "OMul"), ("-", "OSub")])
            return "(%s %s %s)" % (a[0], op, b[0]), "(EBin %s %s %s)" % (cop, a[1], b[1])
        if ty == "str":
            if r.random() < 0.2:
                a, b = self.expr("str", env, depth + 1), self.expr("int", env, depth + 1)
                return "(%s * %s)" % (a[0], b[0]), "(EBin OMul %s %s)" % (a[1], b[1])
            a, b = self.expr("str", env, depth + 1), self.expr(r.choice(["int", "str", "bool", "float"]), env, depth + 1)
            if r.random() < 0.3:
                a, b = b, a
            return "(%s + %s)" % (a[0], b[0]), "(EBin OAdd %s %s)" % (a[1], b[1])
        if c < 0.65:
            a, b = self.expr(r.choice(["int", "float"]), env, depth + 1), self.expr(r.choice(["int", "float"]), env, depth + 1)
            return "(%s < %s)" % (a[0], b[0]), "(EBin OLt %s %s)" % (a[1], b[1])
        if c < 0.85:
            a, b = self.expr("bool", env, depth + 1), self.expr("bool", env, depth + 1)
            return "(%s && %s)" % (a[0], b[0]), "(EBin OAnd %s %s)" % (a[1], b[1])
        t = r.choice(["int", "str", "bool"])
        a, b = self.expr(t, env, depth + 1), self.expr(t, env, depth + 1)
        return "(%s == %s)" % (a[0], b[0]), "(EBin OEq %s %s)" % (a[1], b[1])

    def bad_expr(self, env):
        """an expression without any type (unknown name / unsupported operator / bad call / bad index)"""
        r = self.r
        k = r.random()
        fs = self.vars_of(env, lambda t: t[0] == "fn" and t[2] is not None)
        ls = self.vars_of(env, lambda t: t[0] == "list")
        ns = self.vars_of(env, lambda t: t[0] == "n")
        if k < 0.2:
            return "unknown_name", "nope", "(EVar 9999)"
        if k < 0.45 or not (fs or ls or ns):
            lt, op, cop, rt = r.choice(CORE_BAD_OPS)
            a, b = self.expr(lt, env, 1), self.expr(rt, env, 1)
            return "unsupported_operator", "(%s %s %s)" % (a[0], op, b[0]), "(EBin %s %s %s)" % (cop, a[1], b[1])
        if k < 0.75 and fs:
            f = r.choice(fs)
            ps = f[2][1]
            good = [self.expr(p, env, 1) for p in ps]
            m = r.random()
            if m < 0.4 and ps:
                j = r.randrange(len(ps))
                t2 = r.choice([t for t in TYPES if t != ps[j]])
                good[j] = self.expr(t2, env, 1)
                name = "wrong_arg_type"
            elif m < 0.7 and ps:
                good = good[:-1]
                name = "arg_count_less"
            else:
                good = good + [self.expr("int", env, 1)]
                name = "arg_count_more"
            return name, "%s(%s)" % (f[1], ", ".join(a[0] for a in good)), "(ECall %d %s)" % (f[0], cargs([a[1] for a in good]))
        if k < 0.85 and ns:
            v = r.choice(ns)
            return "call_non_callable", "%s(%s)" % (v[1], "1"), "(ECall %d (XCons (ELit NInt) XNil))" % v[0]
        if ls and r.random() < 0.5:
            l = r.choice(ls)
            t2 = r.choice(["str", "bool", "float"])
            i = self.expr(t2, env, 1)
            return "index_with_non_index", "%s[%s]" % (l[1], i[0]), "(EIndex (EVar %d) %s)" % (l[0], i[1])
        if ns:
            v = r.choice(ns)
            if v[2] != ("n", "str"):        # a str IS indexable in MScript (outside the fragment)
                return "index_non_indexable", "%s[0]" % v[1], "(EIndex (EVar %d) (ELit NInt))" % v[0]
        return "unknown_name", "nope", "(EVar 9999)"

    def wrong(self, ty, env):
        t2 = self.r.choice([t for t in TYPES if t != ty])
        return self.expr(t2, env, 1), t2

    def ret_node(self, ty, env):
        e = self.expr(ty, env, 1)
        w, t2 = self.wrong(ty, env)
        return N(["return %s" % e[0]], "(SReturn (Some %s))" % e[1], kind="ret",
                 faults=[("wrong_return", N(["return %s" % w[0]], "(SReturn (Some %s))" % w[1], kind="ret"))])

    def block(self, env, rc, depth, infn):
        """rc: None (module level) | ("ret", ty|None).  Returns list of N; env is extended in place for the caller"""
        r = self.r
        out = []
        for _ in range(r.randrange(2, 5) if depth else r.randrange(4, 8)):
            out.append(self.stmt(env, rc, depth, infn))
        return out

    def stmt(self, env, rc, depth, infn):
        r = self.r
        k = r.random()
        locals_n = [v for v in self.vars_of(env, lambda t: t[0] == "n") if v[3]]
        if k < 0.30 or not env:
            ty = r.choice(TYPES)
            i = self.fresh()
            x = "c%d" % i
            e = self.expr(ty, env)
            w, t2 = self.wrong(ty, env)
            bk, bt, bc = self.bad_expr(env)
            ann = r.random() < 0.6
            env.append((i, x, ("n", ty), True))
            if ann:
                a = "(Some (TN %s))" % CN[ty]
                return N(["%s: %s = %s" % (x, ty, e[0])], "(SSet %d %s %s)" % (i, a, e[1]),
                         faults=[("wrong_init", N(["%s: %s = %s" % (x, ty, w[0])], "(SSet %d %s %s)" % (i, a, w[1]))),
                                 (bk, N(["%s: %s = %s" % (x, ty, bt)], "(SSet %d %s %s)" % (i, a, bc)))])
            return N(["%s = %s" % (x, e[0])], "(SSet %d None %s)" % (i, e[1]),
                     faults=[(bk, N(["%s = %s" % (x, bt)], "(SSet %d None %s)" % (i, bc)))])
        if k < 0.38:
            ty = r.choice(TYPES)
            i = self.fresh()
            x = "c%d" % i
            es = [self.expr(ty, env, 1) for _ in range(r.randrange(2, 4))]
            w, t2 = self.wrong(ty, env)
            ws = list(es)
            ws[r.randrange(len(ws))] = w
            env.append((i, x, ("list", ty), True))
            return N(["%s: [%s...] = [%s]" % (x, ty, ", ".join(a[0] for a in es))], "(SSetList %d %s %s)" % (i, CN[ty], cargs([a[1] for a in es])),
                     faults=[("wrong_list_element", N(["%s: [%s...] = [%s]" % (x, ty, ", ".join(a[0] for a in ws))],
                                                      "(SSetList %d %s %s)" % (i, CN[ty], cargs([a[1] for a in ws]))))])
        if k < 0.52 and locals_n:
            i, x, t, _ = r.choice(locals_n)
            ty = t[1]
            e = self.expr(ty, env)
            w, t2 = self.wrong(ty, env)
            return N(["%s = %s" % (x, e[0])], "(SSet %d None %s)" % (i, e[1]),
                     faults=[("wrong_reassign", N(["%s = %s" % (x, w[0])], "(SSet %d None %s)" % (i, w[1]))),
                             ("wrong_reassign", N(["%s: %s = %s" % (x, t2, w[0])], "(SSet %d (Some (TN %s)) %s)" % (i, CN[t2], w[1])))])
        if k < 0.57 and infn:
            # inside a function: a name of the ENCLOSING function may be re-declared with another type (a new local)
            outer = [v for v in self.vars_of(env, lambda t: t[0] == "n") if not v[3]]
            if outer:
                i, x, t, _ = r.choice(outer)
                t2 = r.choice([q for q in TYPES if q != t[1]])
                e = self.expr(t2, env)
                env.append((i, x, ("n", t2), True))
                return N(["%s = %s" % (x, e[0])], "(SSet %d None %s)" % (i, e[1]))
        if k < 0.68 and depth < 2:
            c = self.expr("bool", env)
            w, t2 = self.wrong("bool", env)
            bk, bt, bc = self.bad_expr(env)
            e1, e2 = list(env), list(env)
            tb = self.block(e1, rc, depth + 1, infn)
            eb = self.block(e2, rc, depth + 1, infn) if r.random() < 0.5 else []
            if rc and rc[1] and r.random() < 0.4:
                tb = tb + [self.ret_node(rc[1], e1)]             # an early return inside the branch
                if eb and r.random() < 0.5:
                    eb = eb + [self.ret_node(rc[1], e2)]
            elif rc and rc[1] and eb and r.random() < 0.2:
                eb = eb + [self.ret_node(rc[1], e2)]
            seps = ["} else {"] if eb else []
            blocks = [tb, eb] if eb else [tb]
            term = "(SIf %s {0} {1})" if eb else "(SIf %s {0} BNil)"
            return N(["if %s {" % c[0]], term % c[1], blocks, seps, ["}"], kind="if",
                     faults=[("non_bool_condition", N(["if %s {" % w[0]], term % w[1], blocks, seps, ["}"], kind="if")),
                             (bk, N(["if %s {" % bt], term % bc, blocks, seps, ["}"], kind="if"))])
        if k < 0.74 and depth < 2:
            c = self.expr("bool", env)
            w, t2 = self.wrong("bool", env)
            e1 = list(env)
            b = self.block(e1, rc, depth + 1, infn)
            if rc and rc[1] and r.random() < 0.4:
                b = b + [self.ret_node(rc[1], e1)]               # a while body that returns never makes the function return
            return N(["while %s {" % c[0]], "(SWhile %s {0})" % c[1], [b], [], ["}"], loop=True,
                     faults=[("non_bool_condition", N(["while %s {" % w[0]], "(SWhile %s {0})" % w[1], [b], [], ["}"], loop=True))])
        if k < 0.90 and depth < 2:
            fi = self.fresh()
            fname = "f%d" % fi
            nps = r.randrange(0, 3)
            ps = []
            for _ in range(nps):
                pi = self.fresh()
                ps.append((pi, "p%d" % pi, r.choice(TYPES)))
            ret = r.choice(TYPES + [None])
            benv = [(i, n_, t, False) for i, n_, t, _ in env] + [(pi, pn, ("n", pt), True) for pi, pn, pt in ps]
            body = self.block(benv, ("ret", ret), depth + 1, True)
            head = "%s = fn(%s)%s {" % (fname, ", ".join("%s: %s" % (pn, pt) for _, pn, pt in ps), " -> " + ret if ret else "")
            pterm = "[%s]" % "; ".join("(%d, %s)" % (pi, CN[pt]) for pi, _, pt in ps)
            rterm = "(Some %s)" % CN[ret] if ret else "None"
            term = "(SFn %d %s %s {0})" % (fi, pterm, rterm)
            faults = []
            if ret:
                e = self.expr(ret, benv)
                w, t2 = self.wrong(ret, benv)
                bk, bt, bc = self.bad_expr(benv)
                retn = N(["return %s" % e[0]], "(SReturn (Some %s))" % e[1], kind="ret",
                         faults=[("wrong_return", N(["return %s" % w[0]], "(SReturn (Some %s))" % w[1], kind="ret")),
                                 ("missing_return_value", N(["return "], "(SReturn None)")),
                                 (bk, N(["return %s" % bt], "(SReturn (Some %s))" % bc, kind="ret"))])
                if not core_returns(body):
                    # dropping the final return is a fault only if no other statement returns on every path
                    faults.append(("missing_return", N([head], term, [list(body)], [], ["}"])))
                body = body + [retn]
            else:
                # (a bare `return` in a void function is rejected by the compiler -- reported separately -- so the
                #  generator never emits one; the fault replaces a harmless last statement by `return <value>`)
                e = self.expr("int", benv)
                di = self.fresh()
                body = body + [N(["c%d = 1" % di], "(SSet %d None (ELit NInt))" % di,
                                 faults=[("value_from_void_fn", N(["return %s" % e[0]], "(SReturn (Some %s))" % e[1]))])]
            env.append((fi, fname, ("fn", [pt for _, _, pt in ps], ret), True))
            return N([head], term, [body], [], ["}"], faults=faults)
        fs = self.vars_of(env, lambda t: t[0] == "fn")
        if fs:
            f = r.choice(fs)
            ps = f[2][1]
            args = [self.expr(p, env, 1) for p in ps]
            faults = []
            if ps:
                j = r.randrange(len(ps))
                w, t2 = self.wrong(ps[j], env)
                wa = list(args)
                wa[j] = w
                faults.append(("wrong_arg_type", N(["%s(%s)" % (f[1], ", ".join(a[0] for a in wa))], "(SCall %d %s)" % (f[0], cargs([a[1] for a in wa])))))
                faults.append(("arg_count_less", N(["%s(%s)" % (f[1], ", ".join(a[0] for a in args[:-1]))], "(SCall %d %s)" % (f[0], cargs([a[1] for a in args[:-1]])))))
            more = args + [self.expr("int", env, 1)]
            faults.append(("arg_count_more", N(["%s(%s)" % (f[1], ", ".join(a[0] for a in more))], "(SCall %d %s)" % (f[0], cargs([a[1] for a in more])))))
            faults.append(("unknown_name", N(["nofn(%s)" % ", ".join(a[0] for a in args)], "(SCall 9999 %s)" % cargs([a[1] for a in args]))))
            ns = self.vars_of(env, lambda t: t[0] == "n")
            if ns:
                v = r.choice(ns)
                faults.append(("call_non_callable", N(["%s(%s)" % (v[1], ", ".join(a[0] for a in args))], "(SCall %d %s)" % (v[0], cargs([a[1] for a in args])))))
            return N(["%s(%s)" % (f[1], ", ".join(a[0] for a in args))], "(SCall %d %s)" % (f[0], cargs([a[1] for a in args])), faults=faults)
        return self.stmt(env, rc, depth, infn) if r.random() < 0.9 else N(["c0 = 1"], "(SSet 0 None (ELit NInt))")

    def gen(self):
        self.k = 0
        return self.block([], None, 0, False)


def core_cases(rng, nprog):
    g = Core(rng)
    cases = []       # (text, term, fault|None, span|None)
    for _ in range(nprog):
        prog = g.gen()
        out = ['print "MARK"']
        term = core_render(prog, 0, None, None, out, [None])
        out.append('print "END"')
        cases.append(("\n".join(out) + "\n", term, None, None))
        for node, (fname, repl) in core_sites(prog):
            out = ['print "MARK"']
            span = [None]
            term = core_render(prog, 0, node, repl, out, span)
            out.append('print "END"')
            cases.append(("\n".join(out) + "\n", term, fname, span[0]))
    return cases


def coq_check(terms, tag):
    res = [None] * len(terms)
    shards = [list(range(i, min(i + 200, len(terms)))) for i in range(0, len(terms), 200)]

    def one(job):
        k, idxs = job
        body = "From MS Require Import Reject.Typing.\n"
        for i in idxs:
            body += "Eval vm_compute in (%d, check_prog %s).\n" % (i, terms[i])
        rc, out, err = core.coq_eval("c03_%s_%d" % (tag, k), body, [], timeout=900)
        if rc != 0:
            raise RuntimeError("coq_eval failed: " + (err or out)[-1500:])
        return out
    for out in programs.pmap(one, list(enumerate(shards))):
        for m in re.finditer(r"=\s*\((\d+),\s*(true|false)\)", out.replace("\n", " ")):
            res[int(m.group(1))] = m.group(2) == "true"
    if any(r is None for r in res):
        raise RuntimeError("coq_eval: missing results")
    return res


# ------------------------------------------------------------------ the check

# ---- the KIND of a constant expression (the compiler evaluates it itself, with a table of its own) is the kind the
# operator's type rule gives: declared as any other numeric kind, the initializer is wrong-typed.  Fixed, all triples.
def constant_kind_cases():
    from . import num_common as nc
    S = {"I": "I6", "B": "B3", "Y": "Y2", "F": "F3ff8000000000000"}
    D = {"I": "int", "B": "bigint", "Y": "byte", "F": "float"}
    out = []
    for op in nc.ARITH + nc.BITS + nc.SHIFTS:
        for k1 in "IBYF":
            for k2 in "IBYF":
                r = nc.oracle(op, S[k1], S[k2])
                if r == "UNDEF":
                    continue
                e = "%s %s %s" % (nc.literal(S[k1]), nc.SYMBOL[op], nc.literal(S[k2]))
                out.append(("%s: %s" % (e, D[r[0]]), "print \"MARK\"\nx: %s = %s\nprint x\nprint \"END\"\n" % (D[r[0]], e), True))
                for d in "IBYF":
                    if d != r[0]:
                        out.append(("%s (a %s) declared %s" % (e, D[r[0]], D[d]), "print \"MARK\"\nx: %s = %s\nprint x\nprint \"END\"\n" % (D[d], e), False))
    return out


def run_constant_kinds(ctx, binary, base):
    cases = constant_kind_cases()
    n = bad = 0
    for (cid, src, legal), (rc, out, err) in zip(cases, programs.pmap(lambda c: run_prog(binary, base, {"main.ms": c[1]}), cases)):
        n += 1
        rejected = "Did not compile successfully" in err and "MARK" not in out
        if legal and (rejected or rc != 0):
            bad += 1
            ctx.report("base-program-rejected:constant_expression", "a constant expression declared with the kind its operator yields (%s) is %s: %s" % (cid, "rejected" if rejected else "failing (exit %d)" % rc, (out + err)[-200:]),
                       {"files": {"main.ms": src}, "observed": {"rc": rc, "stdout": out[-300:], "stderr": err[-300:]}})
        elif not legal and not rejected:
            bad += 1
            ctx.report("accepted:wrong_init/constant_expression", "ill-typed initializer accepted: the constant expression %s: exit %d, printed %r" % (cid, rc, out.split("\n")[:4]),
                       {"files": {"main.ms": src}, "observed": {"rc": rc, "stdout": out[-300:], "stderr": err[-300:]}, "how": "mscript run main.ms -q: must fail to compile, nothing printed"})
    ctx.cov["constant_expression_kind_cases"] = n
    return n, bad


def run(ctx):
    ok = core.coq_props(ctx, "Props/C03.v")
    binary = core.build_repo()
    base = ctx.mktemp()
    rng = ctx.rng

    # ---- programs: (a) the full matrix template x context, (b) random nested programs
    progs = []      # (items, with_lib, generator)
    for kind in G.CONTEXTS:
        for tname in G.TEMPLATES + ["t_lib", "t_lib_class"]:
            g = G(rng, with_lib=tname.startswith("t_lib"))
            progs.append((g.ctx(kind, [g.unit(tname)]), g.with_lib, "matrix"))
    nrand = 0 if ctx.quick() else 400
    for i in range(nrand):
        g = G(rng, with_lib=(i % 4 == 0))
        progs.append((g.random_items(0), g.with_lib, "random"))

    # base programs must be accepted and run to completion
    def files_of(text, with_lib):
        f = {"main.ms": text}
        if with_lib:
            f["lib.ms"] = LIB
        return f

    bases = [render(items, None, with_lib=wl)[0] for items, wl, _ in progs]
    bres = programs.pmap(lambda a: run_prog(binary, base, files_of(a[0], a[1][1])), list(zip(bases, progs)))
    jobs = []
    discarded = []
    for (items, wl, src), text, r in zip(progs, bases, bres):
        if r[0] != 0 or "END" not in r[1].splitlines():
            why = [l.strip() for l in r[1].splitlines() if l.strip().startswith("=")][:1] or [r[2].strip()[-160:]]
            discarded.append({"program": text[len(PREAMBLE):][:600], "rc": r[0], "why": why[0], "source": src})
            if r[0] == 101:
                ctx.report("panic:base-program", "compiler panic on a well-typed generated program: %s" % r[2][-300:], {"files": files_of(text, wl)})
            elif r[0] == 1 and "Did not compile successfully" in r[2] and not DIAG.search(r[1]):
                # whatever is refused must be refused with a diagnostic that names file and position
                ctx.report("no-position:base-program", "a generated program is refused without any diagnostic naming a file and position: %s" % (r[1] + r[2]).strip()[:200],
                           {"files": files_of(text, wl), "rc": r[0], "output": (r[1] + r[2])[-600:]})
            else:
                # every template's unmutated program is accepted by the unchanged tree: a rejected one means a VALID program is
                # no longer accepted, and all the mutants of that program go unchecked -- that is reported, not skipped
                ctx.report("base-program-rejected", "a well-typed generated program is no longer accepted (its mutants cannot be checked): %s" % why[0][:200],
                           {"files": files_of(text, wl), "rc": r[0], "output": (r[1] + r[2])[-600:]}, found_input=False)
            continue
        for st, m, path in all_sites(items):
            mt, span, p2 = render(items, (st, m), with_lib=wl)
            jobs.append({"fault": m[0], "template": st.tag, "note": m[3], "ctx": list(path) or ["top"], "text": mt, "span": span, "lib": wl, "src": src})
    ctx.cov["base_programs"] = len(progs)
    ctx.cov["base_discarded"] = len(discarded)
    ctx.cov["base_discarded_list"] = discarded[:40]

    # faults located in the IMPORTED module's file: the diagnostic must name lib.ms
    lib_lines = LIB.rstrip("\n").split("\n")
    main_for_lib = PREAMBLE.split("\n")[0] + "\nimport lib\nzz1 = lib.lf(lib.lv)\nprint \"END\"\n"

    def libmut(i, new, lo=None, hi=None):
        l = list(lib_lines)
        l[i:i + 1] = new
        return "\n".join(l) + "\n", (lo or i + 1, hi or i + len(new))
    lib_mutants = [("wrong_init", libmut(0, ['export lv: int = "four"'])), ("wrong_init", libmut(1, ["export ls: str = 4"])),
                   ("unknown_name", libmut(0, ["export lv: int = nowhere"])), ("wrong_return", libmut(3, ['  return "x"'], 3, 5)),
                   ("missing_return", libmut(3, [], 3, 4)), ("unsupported_operator", libmut(3, ["  return a * true"], 3, 5)),
                   ("wrong_init", libmut(2, ["export lf: fn(int) -> str = fn(a: int) -> int {"], 3, 5)),
                   ("non_bool_condition", libmut(3, ["  if a {", "    return 1", "  }", "  return a * 2"], 3, 8))]
    for fault, (ltext, span) in lib_mutants:
        jobs.append({"fault": fault, "template": "module_file", "note": "fault inside the imported file lib.ms", "ctx": ["imported_file"],
                     "text": main_for_lib, "span": span, "lib": True, "src": "matrix", "libtext": ltext, "fname": "lib.ms"})

    def files_of_job(j):
        f = files_of(j["text"], j["lib"])
        if "libtext" in j:
            f["lib.ms"] = j["libtext"]
        return f
    mres = programs.pmap(lambda j: run_prog(binary, base, files_of_job(j)), jobs)
    matrix = {}
    bad = 0
    classes = {}
    for j, r in zip(jobs, mres):
        inner = j["ctx"][-1]
        for c in set(j["ctx"]):
            cell = matrix.setdefault(j["fault"], {})
            cell[c] = cell.get(c, 0) + 1
        v = judge(r[0], r[1], r[2], j["span"], j.get("fname", "main.ms"))
        if v is None:
            continue
        bad += 1
        kind, why = v
        site = "%s/%s" % (j["fault"], j["template"])
        cls = ("panic:%s" % site) if kind == "panic" else "%s:%s" % (kind, site)
        classes[cls] = classes.get(cls, 0) + 1
        body = j["text"][len(PREAMBLE):] if j["text"].startswith(PREAMBLE) else j["text"]
        ctx.report(cls, "ill-typed mutant (%s in %s, context %s; %s): %s" % (j["fault"], j["template"], "/".join(j["ctx"]), j["note"], why),
                   {"files": files_of_job(j), "mutated_lines": j["span"], "after_preamble": body[-1500:], "fault": j["fault"], "context": j["ctx"],
                    "observed": {"rc": r[0], "stdout": r[1][-1500:], "stderr": r[2][-600:]},
                    "how": "write the files into an empty directory and run `mscript run main.ms -q` there"})
    for j, r in list(zip(jobs, mres))[:3]:
        d = DIAG.search(r[1])
        ctx.sample({"fault": j["fault"], "template": j["template"], "context": j["ctx"], "mutated_lines": j["span"],
                    "mutant_tail": j["text"][len(PREAMBLE):][-400:], "rc": r[0], "diagnostic": d.group(0).strip() if d else None,
                    "message": ([l.strip() for l in r[1].splitlines() if l.strip().startswith("=")] or [None])[0]})

    # ---- correspondence of the Coq checker (core fragment) with the compiler
    ncore = 25 if ctx.quick() else 250
    cases = core_cases(rng, ncore)
    cres = programs.pmap(lambda c: run_prog(binary, base, {"main.ms": c[0]}), cases)
    mres2 = coq_check([c[1] for c in cases], "core")
    dis = 0
    core_mut = 0
    base_ok = True
    core_discarded = 0
    core_runtime_fail = 0
    for c, r, m in zip(cases, cres, mres2):
        # "accepted" = the COMPILER accepted (a run-time failure of a well-typed program is another property's matter)
        accepted = (r[0] == 0) or ("MARK" in r[1].splitlines()) or \
                   (r[0] not in (101, 124) and "Did not compile successfully" not in r[2] and "panicked" not in r[2])
        if r[0] != 0 and accepted:
            core_runtime_fail += 1
        if c[2] is None:
            base_ok = accepted
            if not accepted:
                core_discarded += 1
        elif not base_ok:
            continue            # mutants of a base program the compiler does not accept say nothing
        if c[2] is not None:
            core_mut += 1
            v = judge(r[0], r[1], r[2], c[3])
            if v is not None:
                bad += 1
                kind, why = v
                ctx.report("%s:%s/core" % (kind, c[2]), "ill-typed core-fragment mutant (%s): %s" % (c[2], why),
                           {"files": {"main.ms": c[0]}, "mutated_lines": c[3], "observed": {"rc": r[0], "stdout": r[1][-1200:], "stderr": r[2][-400:]}})
        if m != accepted:
            dis += 1
            if not (c[2] is not None and accepted):
                ctx.report("correspondence:core-checker", "Reject/Typing.v check_prog says %s, the compiler %s" % ("accept" if m else "reject", "accepts" if accepted else "rejects"),
                           {"files": {"main.ms": c[0]}, "term": c[1], "observed": {"rc": r[0], "stdout": r[1][-1200:]},
                            "correspondence": "Reject/Typing.v check_prog vs compiler verdict (core fragment)"}, found_input=False)

    if len(discarded) > 0.25 * len(progs) or core_discarded > 0.25 * ncore:
        ctx.report("generator-degraded", "%d of %d generated base programs (%d of %d core programs) are not accepted by the compiler: the templates no longer match the language"
                   % (len(discarded), len(progs), core_discarded, ncore), {"discarded": discarded[:10]}, found_input=False)
    n_ck, bad_ck = run_constant_kinds(ctx, binary, base)
    bad += bad_ck
    ctx.cov["evaluations"] = len(jobs) + len(progs) + len(cases) + n_ck
    ctx.cov["triples"] = len(jobs)
    ctx.cov["distinct_nontrivial"] = len({(j["fault"], j["template"], tuple(j["ctx"])) for j in jobs})
    ctx.cov["rule"] = ("triples = (well-typed generated program, site, fault) mutants actually run; distinct_nontrivial = distinct "
                       "(fault kind, statement template, context path) combinations; matrix[fault][context] = number of mutants of that "
                       "fault kind lying (at any depth) inside that context")
    ctx.cov["matrix_fault_x_context"] = matrix
    ctx.cov["fault_kinds"] = sorted(matrix)
    ctx.cov["contexts"] = G.CONTEXTS + ["module_member (imported)", "map value", "list element", "type alias", "class body"]
    ctx.cov["uncovered_cells"] = [(f, c) for f in sorted(matrix) for c in G.CONTEXTS if matrix[f].get(c, 0) == 0]
    ctx.cov["violating_mutants"] = bad
    ctx.cov["violation_classes"] = classes
    ctx.cov["exhaustive"] = False
    ctx.cov["core_fragment_cases"] = {"programs": ncore, "cases": len(cases), "mutants": core_mut, "base_rejected_by_compiler": core_discarded, "compiled_but_failed_at_run_time": core_runtime_fail, "model_impl_disagreements": dis}
    ctx.cov["model_impl_disagreements"] = dis
    ctx.cov["traces_validated_against_impl"] = len(cases)
    ctx.cov["trusted_base"] = ["Coq 8.16.1 kernel (coqc; vm_compute for checker evaluation)", "no axioms (Print Assumptions: closed under the global context)",
                               "vlib/c03.py: program generator, fault catalogue, renderer to MScript text and to Reject/Typing.v terms",
                               "`mscript run` exit status, stdout/stderr split (diagnostics are printed on stdout by src/main.rs compile(), the summary line on stderr) as observation"]
    ctx.assumptions = ["the judgement WT / checker of Reject/Typing.v cover the core fragment only (annotated/unannotated declarations, re-assignment, arithmetic/comparison/logic operators on int/float/str/bool, if/while conditions); all other contexts are search, not proof",
                       "a mutant counts as ill-typed by construction of the catalogue: replacement types are never assignable (TypeLayout::eq_complex has no implicit widening; `T?` positions only receive non-T, non-nil values)"]
    core.proof_or_search(ctx, ok, ["C03_rejected_never_runs", "C03_check_sound_partial", "C03_fault_breaks_partial", "C03_fault_rejected_partial"], bad > 0)
