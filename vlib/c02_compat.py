"""C02 layer (b): the compatibility relation.  Pairs of types (expected, supplied) x typed positions go through the
real compiler (accept / reject with the position's own diagnostic) and are compared with Types/Compat.v
`eq_complex` under the flags and argument order of that call site."""
import os
import re

from . import core, programs
from . import c02_common as cc

# ---- type trees: ("nat", kind[, len]) ("nil",) ("opt", t) ("open", t) ("mixed", (ts..)) ("map", k, v)
#                  ("fn", (ps..), r|None) ("alias", name, t) ("class", name)
INT, FLOAT, STR, BOOL, BYTE, BIGINT = [("nat", k) for k in ("int", "float", "str", "bool", "byte", "bigint")]
A = ("class", "A")
AL = ("alias", "Al", INT)
NIL = ("nil",)


def opt(t): return ("opt", t)
def open_(t): return ("open", t)
def mixed(*ts): return ("mixed", tuple(ts))
def mp(k, v): return ("map", k, v)
def fn(ps, r=None): return ("fn", tuple(ps), r)


def ms(t):
    """annotation syntax; None when the type cannot be written as an annotation"""
    k = t[0]
    if k == "nat":
        return t[1] if len(t) == 2 else None
    if k == "nil":
        return None
    if k == "opt":
        inner = t[1]
        if inner[0] in ("opt", "nil"):
            return None
        if inner[0] == "fn" and inner[2] is not None:
            return None            # `fn() -> T?` is a function returning T?
        s = ms(inner)
        return None if s is None else s + "?"
    if k == "open":
        s = ms(t[1])
        return None if s is None else "[%s...]" % s
    if k == "mixed":
        ss = [ms(x) for x in t[1]]
        return None if None in ss else "[%s]" % ", ".join(ss)
    if k == "map":
        a, b = ms(t[1]), ms(t[2])
        return None if None in (a, b) else "map[%s, %s]" % (a, b)
    if k == "fn":
        ss = [ms(x) for x in t[1]]
        if None in ss:
            return None
        r = ""
        if t[2] is not None:
            rs = ms(t[2])
            if rs is None:
                return None
            r = " -> (%s)" % rs if t[2][0] == "fn" else " -> %s" % rs
        return "fn(%s)%s" % (", ".join(ss), r)
    if k == "alias":
        return t[1]
    if k == "class":
        return t[1]
    raise ValueError(t)


KCOQ = {"int": "KInt", "bigint": "KBigInt", "float": "KFloat", "byte": "KByte", "bool": "KBool", "str": "KStr"}
NAMES = {"A": 1, "B": 2, "Al": 11, "Bl": 12}


def coq(t):
    k = t[0]
    if k == "nat":
        return "(TNat %s %s)" % (KCOQ[t[1]], "None" if len(t) == 2 or t[2] is None else "(Some %d%%N)" % t[2])
    if k == "nil":
        return "TNil"
    if k == "opt":
        return "(TOpt %s)" % coq(t[1])
    if k == "open":
        return "(TOpen %s)" % coq(t[1])
    if k == "mixed":
        return "(TMixed [%s])" % "; ".join(coq(x) for x in t[1])
    if k == "map":
        return "(TMap %s %s)" % (coq(t[1]), coq(t[2]))
    if k == "fn":
        return "(TFn [%s] %s)" % ("; ".join(coq(x) for x in t[1]), "None" if t[2] is None else "(Some %s)" % coq(t[2]))
    if k == "alias":
        return "(TAlias %d%%N %s)" % (NAMES[t[1]], coq(t[2]))
    if k == "class":
        return "(TClass %d%%N)" % NAMES[t[1]]
    raise ValueError(t)


def has_empty_mixed(t):
    k = t[0]
    if k == "mixed":
        return len(t[1]) == 0 or any(has_empty_mixed(x) for x in t[1])
    if k in ("opt", "open"):
        return has_empty_mixed(t[1])
    if k == "alias":
        return has_empty_mixed(t[2])
    if k == "map":
        return has_empty_mixed(t[1]) or has_empty_mixed(t[2])
    if k == "fn":
        return any(has_empty_mixed(x) for x in t[1]) or (t[2] is not None and has_empty_mixed(t[2]))
    return False


def fn_list_param(t):
    t = strip(t)
    return t[0] == "fn" and any(strip(p)[0] in ("open", "mixed") for p in t[1])


def universe(thorough):
    atoms = [INT, FLOAT, STR, BOOL, A, AL]
    d1 = [opt(a) for a in atoms] + [open_(a) for a in atoms]
    d1 += [mixed(INT), mixed(STR), mixed(INT, INT), mixed(INT, STR), mixed(INT, INT, INT), mixed()]
    d1 += [mp(STR, INT), mp(STR, FLOAT), mp(INT, INT)]
    d1 += [fn([INT], INT), fn([INT]), fn([], INT), fn([STR], INT), fn([INT, INT], INT), fn([INT], STR)]
    d2 = [open_(opt(INT)), open_(opt(STR)), opt(open_(INT)), open_(open_(INT)), open_(mixed(INT, INT)),
          mixed(opt(INT), STR), mixed(open_(INT), open_(INT)), opt(mixed(INT, INT)), mp(STR, opt(INT)),
          mp(STR, open_(INT)), fn([opt(INT)], INT), fn([INT], opt(INT)), fn([open_(INT)], INT),
          fn([mixed(INT, INT)], INT), fn([INT], open_(INT)), open_(AL), opt(AL), opt(A), open_(A), fn([A], A),
          open_(mixed()), mixed(mixed(INT), STR),
          # function types whose PARAMETER is a list type: the parameter is compared under signature_check, and two
          # list types reach the list arms with the caller's flags (/repo 4ab7445) -- `[int?...]` is not `[int...]` there
          fn([open_(opt(INT))], INT), fn([mixed(opt(INT), INT)], INT)]
    if thorough:
        atoms2 = [BYTE, BIGINT, ("class", "B"), ("alias", "Bl", STR)]
        d1 += [opt(a) for a in atoms2] + [open_(a) for a in atoms2] + [mixed(STR, INT), mixed(FLOAT, FLOAT), mp(STR, STR), fn([], None), fn([FLOAT], FLOAT)]
        d2 += [open_(opt(FLOAT)), open_(open_(STR)), open_(mixed(INT, STR)), mixed(opt(INT), opt(INT)), opt(mp(STR, INT)),
               mp(STR, mixed(INT, INT)), fn([open_(open_(opt(INT)))], INT), fn([fn([INT], INT)], INT), fn([INT], fn([INT], INT)),
               open_(fn([INT], INT)), mixed(AL, INT), open_(opt(A)), fn([opt(A)], A), opt(open_(opt(INT))),
               open_(open_(opt(INT))), mixed(mixed(INT, INT), mixed(INT, INT)), mp(AL, INT), fn([AL], AL)]
        return atoms + atoms2 + d1 + d2
    return atoms + d1 + d2


# supplied types that only expressions have: (type, expression, extra parameters needed "name: type")
def expr_supplied():
    return [
        (NIL, "nil", []),
        (mixed(), "[]", []),
        (mixed(INT, NIL), "[si, nil]", ["si: int"]),
        (mixed(NIL, NIL), "[nil, nil]", []),
        (open_(NIL), "[nil]", []),
        (("nat", "str", 3), '"abc"', []),
        (INT, "5", []),
        (open_(INT), "[si]", ["si: int"]),          # a one-element literal is an open list
        (mixed(INT, INT), "[si, si]", ["si: int"]),
        (mixed(INT, ("nat", "str", 1)), '[si, "x"]', ["si: int"]),
        (mixed(mixed(), mixed()), "[[], []]", []),
    ]


PRELUDE = "class A {\n}\nclass B {\n}\ntype Al int\ntype Bl str\n"

CONTEXTS = ["assign", "argument", "argument2", "return", "reassign", "or", "rebind"]
DIAG = {
    "assign": "declaration wanted",
    "argument": "type mismatch when calling function",
    "argument2": "type mismatch when calling function",
    "return": "this function was expected to return",
    "reassign": "type mismatch: cannot assign",
    "or": "portion of this unwrap must yield",
    "rebind": "type mismatch: this assignment will update",
}


def program(ctx_name, T, U_expr, U_params):
    """a function whose body contains exactly one typed position; nothing is executed"""
    Ts = ms(T)
    ps = list(U_params)
    if ctx_name == "assign":
        body = "const x: %s = %s" % (Ts, U_expr)
    elif ctx_name == "argument":
        ps.append("g: fn(%s)" % Ts)
        body = "g(%s)" % U_expr
    elif ctx_name == "argument2":
        ps.append("g: fn(int, %s)" % Ts)
        body = "g(1, %s)" % U_expr
    elif ctx_name == "return":
        return PRELUDE + "f = fn(%s) -> %s {\n\treturn %s\n}\n" % (", ".join(ps), "(%s)" % Ts if T[0] == "fn" else Ts, U_expr)
    elif ctx_name == "reassign":
        ps.append("l: [%s...]" % Ts)
        body = "l[0] = %s" % U_expr
    elif ctx_name == "or":
        ps.append("p: %s?" % Ts)
        body = "const y = p or %s" % U_expr
    elif ctx_name == "rebind":
        ps.append("x: %s" % Ts)
        body = "x = %s" % U_expr
    return PRELUDE + "f = fn(%s) {\n\t%s\n}\n" % (", ".join(ps), body)


def applicable(ctx_name, T, U):
    if ms(T) is None:
        return False
    if ctx_name == "or":
        # the primary is `T?`: T itself must not be optional (and `(fn() -> R)?` cannot be written)
        return T[0] not in ("opt", "nil") and not (T[0] == "fn" and T[2] is not None)
    if ctx_name == "rebind":
        # the new binding takes the supplied type; fixed-shape lists must be const, so they cannot be rebound
        return strip(U)[0] != "mixed" and strip(T)[0] != "mixed"
    return True


def strip(t):
    while t[0] == "alias":
        t = t[2]
    return t


def model_eval(cases):
    """cases: [(flags name, T, U)] -> list of 'true'/'false'/'fuel' from Coq eq_complex"""
    out = []
    shards = [cases[i:i + 1500] for i in range(0, len(cases), 1500)]

    def one(args):
        idx, shard = args
        tys = {}
        for _, t, u in shard:
            for x in (t, u):
                if x not in tys:
                    tys[x] = "ty%d" % len(tys)
        body = ["Import ListNotations.", "Set Printing Depth 1000000.", "Open Scope list_scope."]
        for x, nm in tys.items():
            body.append("Definition %s : ty := %s." % (nm, coq(x)))
        body.append("Definition code (x : option bool) : nat := match x with Some true => 1 | Some false => 0 | None => 2 end.")
        body.append("Eval vm_compute in [" + "; ".join("code (eq_complex 200 %s %s %s)" % (f, tys[t], tys[u]) for f, t, u in shard) + "].")
        rc, o, e = core.coq_eval("c02_compat_%d" % idx, "\n".join(body) + "\n", ["Coq.Lists.List", "Coq.NArith.NArith", "MS.Types.OpTable", "MS.Types.Compat"])
        if rc != 0:
            raise RuntimeError("coq_eval of eq_complex cases failed: " + (e or o)[-800:])
        nums = [int(x) for x in re.findall(r"\b([012])\b", o.split("=", 1)[1].rsplit(":", 1)[0])]
        if len(nums) != len(shard):
            raise RuntimeError("coq_eval returned %d results for %d cases" % (len(nums), len(shard)))
        return nums

    for nums in programs.pmap(one, list(enumerate(shards)), workers=8):
        out += [{1: "true", 0: "false", 2: "fuel"}[n] for n in nums]
    return out


MODEL_CALL = {
    # context -> (flags, swapped?)  : which eq_complex call the compiler makes
    "assign": ("fl_assign", False), "argument": ("fl_argument", False), "argument2": ("fl_argument", False), "or": ("fl_or", False),
    "rebind": ("classless", False), "return": ("fl_return", False), "reassign": ("fl_reassign", False),       # reassignment.rs: expected_ty.eq_complex(value_ty, lhs_unwrap(false))
}


def run(ctx, binary):
    thorough = not ctx.quick()
    uni = universe(thorough)
    expected = [t for t in uni if ms(t) is not None]
    supplied = [(u, "s", ["s: %s" % ms(u)]) for u in uni if ms(u) is not None] + expr_supplied()
    pairs = [(T, U, e, ps) for T in expected for (U, e, ps) in supplied]
    if ctx.quick():
        # every pair in at least one context; all six contexts for a seeded half of the pairs
        full = set(ctx.rng.sample(range(len(pairs)), len(pairs) // 2))
        # fixed family, independent of the seed: function types with a list parameter against each other, every context
        full |= {i for i, (T, U, _, _) in enumerate(pairs) if fn_list_param(T) and fn_list_param(U)}
    else:
        full = set(range(len(pairs)))
    jobs = []
    for i, (T, U, e, ps) in enumerate(pairs):
        cs = [c for c in CONTEXTS if applicable(c, T, U)]
        if i not in full and cs:
            cs = [cs[i % len(cs)]]
        for c in cs:
            jobs.append((c, T, U, program(c, T, e, ps), e == "s"))
    base = ctx.mktemp()
    results = programs.pmap(lambda j: cc.run_src(binary, j[3], base), jobs)
    mcases = []
    for c, T, U, _, _ in jobs:
        f, sw = MODEL_CALL[c]
        mcases.append((f, U, T) if sw else (f, T, U))
    model = model_eval(mcases)
    stats = {"accepted": 0, "rejected": 0, "other_reject": 0, "disagree": 0, "skipped": 0, "empty_list_type": 0}
    per_ctx = {c: 0 for c in CONTEXTS}
    others = []
    dbg = os.environ.get("C02_DEBUG")
    for (c, T, U, src, u_annot), res, m in zip(jobs, results, model):
        per_ctx[c] += 1
        key = "%s | %s <- %s" % (c, ms(T), ms(U) or coq(U))
        replay = {"context": c, "expected": ms(T), "supplied": ms(U) or coq(U), "program": src, "observed": res.brief(),
                  "model": {"call": MODEL_CALL[c], "eq_complex": m}, "correspondence": "T5 compatibility (Types/Compat.v eq_complex vs TypeLayout::eq_complex at the call site)"}
        if res.verdict in ("timeout", "compiler-panic") or m == "fuel":
            stats["skipped"] += 1
            if m == "fuel":
                ctx.report("correspondence:compat-fuel", "model ran out of fuel on " + key, replay, found_input=False)
            continue
        annotated_empty = has_empty_mixed(T) or (u_annot and has_empty_mixed(U))
        if annotated_empty:
            # the empty fixed-shape list type is refused as an annotation (it launders element types, see
            # CompatProofs.empty_fixed_list_launders and the catalogue entry); nothing to compare with eq_complex
            stats["empty_list_type"] += 1
            if res.verdict != "rejected" or not ("list type must name" in res.text() or "unknown type" in res.text()):
                ctx.report("compat:empty-list-type", "the empty list type `[]` is accepted as an annotation (%s): it accepts an open list of anything "
                           "and is accepted as an open list of anything" % key, dict(replay, see="catalogue entry empty-list-type-launders for the run-time witness"),
                           found_input=False)
            continue
        accepted = res.verdict != "rejected"
        if accepted:
            stats["accepted"] += 1
        elif DIAG[c] in res.text():
            stats["rejected"] += 1
        else:
            # refused for a reason that is not this position's compatibility check: says nothing about eq_complex
            stats["other_reject"] += 1
            others.append((key, res.diag[:100], m))
            continue
        if accepted != (m == "true"):
            stats["disagree"] += 1
            ctx.report("correspondence:compat:" + c + (":" + key if dbg else ""), "compiler %s %s, model eq_complex = %s" % ("accepts" if accepted else "rejects", key, m), replay, found_input=False)
    # positions refused for a reason other than their compatibility check say nothing about eq_complex; they must stay rare
    ctx.cov["compat_other_reject_samples"] = others[:5]
    if dbg:
        for o in others:
            print("OTHER", o)
    if len(others) * 20 > len(jobs):
        ctx.report("correspondence:compat-harness", "%d of %d positions were refused for reasons other than the compatibility check (e.g. %s)" % (len(others), len(jobs), others[0]),
                   {"samples": others[:20]}, found_input=False)
    ctx.cov["compat_types"] = len(uni)
    ctx.cov["compat_pairs"] = len(pairs)
    ctx.cov["compat_programs"] = len(jobs)
    ctx.cov["compat_per_context"] = per_ctx
    ctx.cov["compat_stats"] = stats
    ctx.sample({"compat_case": jobs[len(jobs) // 3][0], "program": jobs[len(jobs) // 3][3], "model": model[len(jobs) // 3]})
    return len(jobs), stats
