"""C18: raw-text -> transpile -> execute == run."""
import os, shutil
from . import core, programs, codec_common as cc
from gen import opcodes


def system_level(ctx, binary, projects, limit):
    base = ctx.mktemp()
    from . import c04

    def one(proj):
        d = programs.materialize(proj, base)
        e = proj["entry"]
        # the path is spelled in three ways (plain, with a leading `./`, absolute); the bytecode file is the same file however
        # its path is written, so the spelling used for `execute` varies independently of the one used for the earlier steps
        how, how_x = c04.spelling_of(proj)
        sp = c04.spell
        r1 = programs.run_bin(binary, ["run", sp(how, d, e), "-q"], d)
        d2 = programs.materialize(proj, base)
        c = programs.run_bin(binary, ["compile", sp(how, d2, e), "--quick", "--output-format", "raw-text"], d2)
        r2 = t = same_spelling = None
        if c[0] == 0:
            stem = e[:-3]
            # (hunt2 D7) step 1 must leave a file that step 2 accepts: `transpile` reads `<stem>.transpiled.mmm` (the name the
            # help text of `compile --output-format` promises) and writes `<stem>.mmm`.  A compiler that puts the text under the
            # name of the executable file is reported below; the file is then renamed so that the rest of the pipeline is
            # still compared
            wrote_text_as = TEXT_NAME_OK
            if not os.path.exists(os.path.join(d2, stem + ".transpiled.mmm")):
                wrote_text_as = stem + ".mmm" if os.path.exists(os.path.join(d2, stem + ".mmm")) else None
                if wrote_text_as:
                    os.rename(os.path.join(d2, stem + ".mmm"), os.path.join(d2, stem + ".transpiled.mmm"))
            elif os.path.exists(os.path.join(d2, stem + ".mmm")):
                # a second file under the binary's name is no defect, but `execute` below must run what `transpile` writes
                os.remove(os.path.join(d2, stem + ".mmm"))
            c = c + (wrote_text_as,)
            t = programs.run_bin(binary, ["transpile", sp(how, d2, stem + ".transpiled.mmm")], d2)
            if t[0] == 0:
                r2 = programs.run_bin(binary, ["execute", sp(how_x, d2, stem + ".mmm")], d2)
                if how_x != how and r2[0] != 124 and (programs.exit_class(r2[0]) != programs.exit_class(r1[0]) or not programs.same_output(r1[1], r2[1], proj)):
                    same_spelling = programs.run_bin(binary, ["execute", sp(how, d2, stem + ".mmm")], d2)
        # a printed function value shows the path of its file as compiled: the two scratch copies of the project differ
        # in nothing but their own location
        unloc = lambda r, dd: r if r is None else (r[0], r[1].replace(dd + os.sep, ""), r[2].replace(dd + os.sep, ""))
        if r2 is not None and not programs.same_output(unloc(r1, d)[1], unloc(r2, d2)[1], proj):
            again = programs.run_bin(binary, ["run", e, "-q"], d)
            if not programs.same_output(r1[1], again[1], None):
                r2 = (r2[0], r1[1].replace(d + os.sep, d2 + os.sep), r2[2])
        r1, r2, same_spelling = unloc(r1, d), unloc(r2, d2), unloc(same_spelling, d2)
        shutil.rmtree(d, ignore_errors=True)
        shutil.rmtree(d2, ignore_errors=True)
        return proj, r1, c, t, r2, same_spelling

    matrix = [p for p in c04.path_spelling_matrix() if len(p["files"]) == 1]
    single = matrix + c04.failing_and_colliding_programs() + [p for p in projects if len(p["files"]) == 1 and "import" not in list(p["files"].values())[0]]
    res = programs.pmap(one, single[:limit + len(matrix)])
    n = n_mixed = 0
    named = False
    for proj, r1, c, t, r2, same_spelling in res:
        if c[0] != 0:
            continue
        n += 1
        if c[3] is not TEXT_NAME_OK and not named:
            named = True                     # one report (the first program in the fixed order of `single`), not one per program
            stem = proj["entry"][:-3]
            ctx.report("raw-text-output-not-accepted-by-transpile",
                       "`mscript compile %s --output-format raw-text` succeeds and leaves %s; `mscript transpile` takes `%s.transpiled.mmm` (and refuses `%s.mmm`): "
                       "the three steps of the pipeline cannot be chained" % (proj["entry"], "the text form in `%s`, the name of the executable file" % c[3] if c[3] else "no bytecode file at all", stem, stem),
                       {"project": proj, "how": "mscript compile %s --quick --output-format raw-text; ls; mscript transpile %s.transpiled.mmm; mscript execute %s.mmm" % (proj["entry"], stem, stem),
                        "expected": "%s.transpiled.mmm holds the text form (mscript compile --help: `.transpiled.mmm` human-readable bytecode, or `.mmm` machine code)" % stem,
                        "observed_text_file": c[3]})
        if t is None:
            continue
        if t[0] != 0:
            ctx.report("transpile-fails:" + proj["name"], "transpile rejects the compiler's own raw-text output for %s" % proj["name"],
                       {"project": proj, "stderr": t[2][-1500:]})
            continue
        if 124 in (r1[0], r2[0]):
            continue
        how, how_x = c04.spelling_of(proj)
        n_mixed += how != how_x
        if not programs.same_output(r1[1], r2[1], proj) or programs.exit_class(r1[0]) != programs.exit_class(r2[0]):
            if same_spelling is not None and programs.exit_class(same_spelling[0]) == programs.exit_class(r1[0]) and programs.same_output(r1[1], same_spelling[1], proj):
                ctx.report("execute-path-spelling",
                           "the transpiled bytecode of `%s` executes like `run` when started as `%s` but not as `%s`: %s" % (
                               sp_name(how, proj["entry"]), sp_name(how, proj["entry"][:-3] + ".mmm"), sp_name(how_x, proj["entry"][:-3] + ".mmm"), proj["name"]),
                           {"project": proj, "cwd": "the project directory <dir>", "compile_and_transpile_path": c04.SPELLINGS[how], "execute_path": c04.SPELLINGS[how_x],
                            "run": {"rc": r1[0], "stdout": r1[1][-2000:]}, "pipeline": {"rc": r2[0], "stdout": r2[1][-2000:], "stderr": r2[2][-1000:]},
                            "execute_spelled_like_the_other_steps": {"rc": same_spelling[0], "stdout": same_spelling[1][-2000:]}})
                continue
            ctx.report("run-vs-pipeline:" + proj["name"], "run and raw-text->transpile->execute differ on %s" % proj["name"],
                       {"project": proj, "run": {"rc": r1[0], "stdout": r1[1][-2000:]}, "pipeline": {"rc": r2[0], "stdout": r2[1][-2000:], "stderr": r2[2][-1000:]}})
    ctx.cov["programs_executed_under_another_path_spelling"] = n_mixed
    return n


TEXT_NAME_OK = "<stem>.transpiled.mmm"


def sp_name(how, f):
    from . import c04
    return c04.spell(how, "<dir>", f)


# `mscript transpile PATH` takes the text form from PATH, which must end in `.transpiled.mmm`, and writes the binary form next to it
# (PATH without `.transpiled`).  Stems for which `<stem>.mmm` -- the file `compile --output-format raw-text` writes -- is itself
# a tail of `.transpiled.mmm`, upper-case variants, and the name that consists of the suffix alone:
SUFFIX_STEMS = ["d", "ed", "led", "iled", "piled", "spiled", "nspiled", "anspiled", "ranspiled", "transpiled", "D", "Piled", "x", "transpile"]
SUFFIX_PROGRAM = "s = \"a b\\tc\"\nprint s\nprint s.len()\nf = fn(n: int) -> int {\n  return n * 2\n}\nprint f(21)\n"


def transpile_in_place(ctx, binary):
    """`transpile` applied directly to the raw-text file the compiler wrote (no rename), and to a file named `.transpiled.mmm`:
    when the command reports success, executing its output must behave like `run`; when it refuses, the text form must
    still be there (nothing of the program may be lost either way)."""
    base = ctx.mktemp()

    def one(stem):
        # bytecode names its own functions `<file as compiled>#f`: the copy that is transpiled under ANOTHER name (stem "x"
        # below) must not refer to its own file, so that program has no functions
        proj = {"name": "transpile-in-place:" + stem, "entry": stem + ".ms",
                "files": {stem + ".ms": SUFFIX_PROGRAM if stem != "x" else SUFFIX_PROGRAM.split("f = fn")[0]}}
        d = programs.materialize(proj, base)
        r1 = programs.run_bin(binary, ["run", stem + ".ms", "-q"], d)
        c = programs.run_bin(binary, ["compile", stem + ".ms", "--quick", "--output-format", "raw-text"], d)
        res = []
        if c[0] == 0:
            # the text form is in <stem>.transpiled.mmm (or, hunt2 D7, under the name of the binary: reported by system_level).
            # The probes below want it under <stem>.mmm, the name that is NOT a transpilation source
            if os.path.exists(os.path.join(d, stem + ".transpiled.mmm")):
                shutil.move(os.path.join(d, stem + ".transpiled.mmm"), os.path.join(d, stem + ".mmm"))
            text = open(os.path.join(d, stem + ".mmm"), "rb").read()
            # (source path given to transpile, path of the binary form it derives)
            targets = [(stem + ".mmm", stem + ".mmm")]
            if stem == "x":
                targets = [(".transpiled.mmm", ".mmm"), (".TRANSPILED.MMM", ".mmm")]
            for src, out in targets:
                if src != stem + ".mmm":
                    shutil.copy(os.path.join(d, stem + ".mmm"), os.path.join(d, src))
                t = programs.run_bin(binary, ["transpile", src], d)
                after = open(os.path.join(d, src), "rb").read() if os.path.exists(os.path.join(d, src)) else None
                x = None
                if t[0] == 0:
                    # success: the binary form is where the command says it is (the file named by the derived path, which
                    # for these names may be the source path itself)
                    import re
                    m = re.search(r"bytes to (.+?)\s*$", t[1])
                    cand = [p for p in ([m.group(1)] if m else []) + [out, src] if os.path.exists(os.path.join(d, p))]
                    x = programs.run_bin(binary, ["execute", cand[0]], d) if cand else (127, "", "no output file")
                res.append((src, t, after == text, x))
                if src != stem + ".mmm":
                    for p in os.listdir(d):
                        if p not in (stem + ".ms", stem + ".mmm"):
                            os.remove(os.path.join(d, p))
        shutil.rmtree(d, ignore_errors=True)
        return proj, r1, c, res

    n = 0
    for proj, r1, c, res in programs.pmap(one, SUFFIX_STEMS):
        if c[0] != 0 or r1[0] != 0:
            ctx.report("generator:rejected", "the fixed program of the transpile-in-place probe does not compile/run: %s" % (c[1] + c[2] + r1[2])[-300:], {"project": proj}, found_input=False)
            continue
        for src, t, intact, x in res:
            n += 1
            rep = {"project": proj, "how": "mscript compile %s --quick --output-format raw-text; %smscript transpile %s" % (
                       proj["entry"], "" if src.endswith(proj["entry"][:-3] + ".mmm") else "cp %s.mmm %s; " % (proj["entry"][:-3], src), src),
                   "transpile": {"rc": t[0], "stdout": t[1][-400:], "stderr": t[2][-400:]}, "source_intact_afterwards": intact,
                   "run": {"rc": r1[0], "stdout": r1[1]}}
            if t[0] == 0:
                rep["execute"] = {"rc": x[0], "stdout": x[1][-400:], "stderr": x[2][-600:]}
                if programs.exit_class(x[0]) != "ok" or x[1] != r1[1]:
                    ctx.report("transpile-accepts-non-source-path",
                               "`mscript transpile %s` reports success, but executing the result does not behave like `run` (exit %s; the text form it was given is %s)" % (
                                   src, x[0], "intact" if intact else "gone"), rep)
            elif not intact:
                ctx.report("transpile-refusal-destroys-source", "`mscript transpile %s` fails (exit %s) and the text form is no longer what the compiler wrote" % (src, t[0]), rep)
    return n


# ---- the pipeline in a directory with a HISTORY: source names with further dots in them, outputs of an earlier version of
# the same module already in place (longer, shorter), a stale file under a neighbouring name.  Fixed cases.
HIST_LONG = ("greet = fn(who: str) -> str {\n  return \"hi \" + who\n}\nscale = fn(n: int) -> int {\n  return n * 3\n}\nfinish = fn() {\n  print \"end of the first version\"\n}\n"
             "print greet(\"first version\")\nprint scale(14)\nl: [int...] = [1, 2, 3]\nprint l\nfinish()\n")
HIST_SHORT = "say = fn() {\n  print \"v2\"\n}\nsay()\n"
HIST_MID = "twice = fn(n: int) -> int {\n  return n * 2\n}\nprint twice(21)\nprint \"second version\"\n"
HIST_STEMS = ["job", "report.v2", "a.b.c", "x.y", "data.transpiled", "v1.0.3"]


def pipeline_histories(ctx, binary):
    base = ctx.mktemp()
    seqs = [("long-then-short", [HIST_LONG, HIST_SHORT]), ("short-then-long", [HIST_SHORT, HIST_LONG]), ("long-mid-short", [HIST_LONG, HIST_MID, HIST_SHORT]),
            ("single", [HIST_MID]), ("same-twice", [HIST_MID, HIST_MID])]
    cases = [(stem, name, seq) for stem in HIST_STEMS for name, seq in seqs]

    def one(case):
        stem, name, seq = case
        d = programs.materialize({"files": {}}, base)
        # a stale neighbour: the name a derivation that drops one dotted component too many would pick
        if "." in stem:
            with open(os.path.join(d, stem.split(".")[0] + ".mmm"), "w") as f:
                f.write("stale\n")
        steps = []
        for v, src in enumerate(seq):
            with open(os.path.join(d, stem + ".ms"), "w") as f:
                f.write(src)
            r = programs.run_bin(binary, ["run", stem + ".ms", "-q"], d)
            # `run` leaves no bytecode behind that matters here; the pipeline writes <stem>.transpiled.mmm then <stem>.mmm
            c = programs.run_bin(binary, ["compile", stem + ".ms", "--quick", "--output-format", "raw-text"], d)
            t = x = None
            if c[0] == 0 and os.path.exists(os.path.join(d, stem + ".transpiled.mmm")):
                t = programs.run_bin(binary, ["transpile", stem + ".transpiled.mmm"], d)
                if t[0] == 0:
                    x = programs.run_bin(binary, ["execute", stem + ".mmm"], d)
            steps.append((v, src, r, c, t, x, sorted(os.listdir(d))))
        shutil.rmtree(d, ignore_errors=True)
        return case, steps
    n = 0
    for (stem, name, seq), steps in programs.pmap(one, cases):
        for v, src, r, c, t, x, ls in steps:
            n += 1
            how = "in one directory, for each version in turn: write %s.ms; mscript compile %s.ms --quick --output-format raw-text; mscript transpile %s.transpiled.mmm; mscript execute %s.mmm" % (stem, stem, stem, stem)
            rep = {"stem": stem, "history": name, "versions": seq, "failing_version": v, "how": how, "directory_after": ls, "run": {"rc": r[0], "stdout": r[1][-600:]}}
            if r[0] != 0 or c[0] != 0:
                ctx.report("generator:rejected", "pipeline-history program does not run/compile: %s" % (r[2] + c[1] + c[2])[-300:], rep, found_input=False)
                break
            if t is None:
                continue                      # the text form is not where transpile takes it from: system_level reports that once
            if t[0] != 0:
                rep["transpile"] = {"rc": t[0], "stderr": t[2][-600:]}
                ctx.report("pipeline-history:transpile-fails", "version %d of `%s.ms` (%s): transpile rejects the compiler's raw-text output: %s" % (v + 1, stem, name, t[2][-200:]), rep)
                break
            rep["transpile"] = {"rc": t[0], "stdout": t[1][-300:]}
            rep["execute"] = {"rc": x[0], "stdout": x[1][-600:], "stderr": x[2][-600:]}
            if programs.exit_class(x[0]) != programs.exit_class(r[0]) or x[1] != r[1]:
                ctx.report("pipeline-history:" + ("dotted-name" if v == 0 and "." in stem else "rewritten-output" if v > 0 else "first-version"),
                           "version %d of `%s.ms` (%s): compile raw-text -> transpile -> execute gives exit %s %r, run gives exit %s %r" % (
                               v + 1, stem, name, x[0], x[1][-120:], r[0], r[1][-120:]), rep)
                break
    return n


def run(ctx):
    ok = core.coq_props(ctx, "Props/C18.v")
    binary = core.build_repo()
    ops, dep = opcodes.parse(core.REPO)
    ctx.cov["opcode_table"] = {"opcodes": len(ops), "deprecated": dep, "translated_from": "bytecode/src/instruction_constants.rs"}
    cases, n_exh = cc.gen_cases(ctx, 1500 if ctx.quick() else 20000, 0)
    # every opcode of the current table once, with and without arguments
    for name, idx in ops:
        if idx == 0:
            continue
        cases.append(("F", [("t#f", [(idx, ["a b", "\\\"\t"]), (idx, [])])]))
    cases = [c for c in cases if c[0] == "F" and all(1 <= op < len(ops) for _, b in c[1] for op, _ in b)]
    impl, model = cc.run_tie(ctx, cases)
    dis = spec_fail = nontrivial = 0
    seen = set()
    for c, i, m in zip(cases, impl, model):
        key = cc.canon_fns(c[1])
        special = any(ch in a for _, b in c[1] for _, args in b for a in args for ch in '"\\ \t\n\r')
        if special and key not in seen:
            nontrivial += 1
        seen.add(key)
        wf = cc.wf_case(c, True)
        bad_spec = wf and i["tload"] != cc.spec_fns(c)
        if bad_spec:
            spec_fail += 1
            ctx.report("text-roundtrip", "function not carried through raw-text -> transpile -> load: %r -> %r" % (c[1], i["tload"]),
                       {"case": c, "impl": i, "model": m})
        for f in ("text", "tbin", "tload"):
            if i[f] != m[f]:
                dis += 1
                if not bad_spec:
                    ctx.report("correspondence:" + f, "codec model and implementation disagree on field %s for case %r: impl=%r model=%r" % (f, c, str(i[f])[:300], str(m[f])[:300]),
                               {"case": c, "field": f, "impl": i[f], "model": m[f], "correspondence": "T4 codec (Codec/Text.v vs text writer/transpiler/loader)"},
                               found_input=False)
                break
    ctx.cov["evaluations"] = len(cases)
    ctx.cov["distinct_nontrivial"] = nontrivial
    ctx.cov["exhaustive"] = True
    ctx.cov["exhaustive_part"] = "%d strings = all strings of length <=4 over %r; every opcode of the table" % (n_exh, cc.ALPHABET)
    ctx.cov["rule"] = "as C04, through text writer -> transpile_file -> loader; non-trivial = distinct case with a quote, backslash or whitespace in an argument"
    ctx.cov["model_impl_disagreements"] = dis
    ctx.cov["spec_failures"] = spec_fail
    ctx.sample({"case": cases[999][1], "impl_tload": str(impl[999]["tload"])[:200]})
    projects = programs.corpus_from_tests() + programs.corpus_from_examples()
    ctx.rng.shuffle(projects)
    # Round 7 (seed C18-r7-1): the corpus and the codec cases hold the LENGTH OF A TEXT LINE constant (a few hundred bytes);
    # an instruction line is never wrapped, so one long string literal gives one long line.  Fixed programs, always first:
    # literals around 4 KiB / 8 KiB / 64 KiB / 128 KiB (buffer-like sizes, +-a few bytes), ASCII and with multi-byte
    # characters straddling the size, two long lines in one function; each prints the length and both ends of the text.
    longs = []
    for n_chars, ch in [(4090, "a"), (8192, "b"), (65520, "c"), (65536, "d"), (71500, "e"), (131080, "f"), (65530, "\u00e9"), (32768, "\u20ac"), (21846, "\U0001F600")]:
        body = (ch * n_chars)[:n_chars - 3] + "xyz"
        longs.append({"name": "long-line:%d x %r" % (n_chars, ch), "entry": "main.ms",
                      "files": {"main.ms": "s = \"%s\"\nprint s.len()\nprint s[0]\nprint s.substring(s.len() - 3, s.len())\nt = \"%s\"\nprint (s + t).len()\nprint \"done\"\n" % (body, body[:70000][::-1] if n_chars > 70000 else "short")}})
    projects = longs + projects
    ctx.cov["long_line_programs"] = len(longs)
    n = system_level(ctx, binary, projects, (100 + len(longs)) if ctx.quick() else len(projects))
    ctx.cov["programs_through_pipeline"] = n
    ctx.cov["transpile_in_place_probes"] = transpile_in_place(ctx, binary)
    ctx.cov["pipeline_history_steps"] = pipeline_histories(ctx, binary)
    ctx.cov["traces_validated_against_impl"] = n
    ctx.cov["trusted_base"] = ["Coq 8.16.1 kernel (coqc; vm_compute for the finite opcode-table facts)", "no axioms (closed under the global context)",
                               "translator gen/opcodes.py (instruction_constants.rs -> Gen/OpcodeTable.v)",
                               "extraction: ExtrOcamlBasic only; extract/codec_driver.ml glue", "harness/codec + hooks H3/H4"]
    ctx.assumptions = ["read_line/BufReader split only on LF; UTF-8 bijection", "model Codec/Text.v hand-written, tied by this run's differential comparison"]
    core.proof_or_search(ctx, ok, ["C18_text_roundtrip", "C18_transpile_emits_binary", "C18_table_ok"], spec_fail > 0)
