"""C18: raw-text -> transpile -> execute == run."""
import os, shutil
from . import core, programs, codec_common as cc
from gen import opcodes


def system_level(ctx, binary, projects, limit):
    base = ctx.mktemp()

    import zlib

    def one(proj):
        d = programs.materialize(proj, base)
        e = proj["entry"]
        # the path is spelled in three ways (plain, with a leading `./`, absolute): the same spelling in every step
        how = zlib.crc32(proj["name"].encode()) % 3
        sp = lambda dd, f: f if how == 0 else ("./" + f if how == 1 else os.path.join(dd, f))
        r1 = programs.run_bin(binary, ["run", sp(d, e), "-q"], d)
        d2 = programs.materialize(proj, base)
        c = programs.run_bin(binary, ["compile", sp(d2, e), "--quick", "--output-format", "raw-text"], d2)
        r2 = t = None
        if c[0] == 0:
            stem = e[:-3]
            os.rename(os.path.join(d2, stem + ".mmm"), os.path.join(d2, stem + ".transpiled.mmm"))
            t = programs.run_bin(binary, ["transpile", sp(d2, stem + ".transpiled.mmm")], d2)
            if t[0] == 0:
                r2 = programs.run_bin(binary, ["execute", sp(d2, stem + ".mmm")], d2)
        if r2 is not None and not programs.same_output(r1[1], r2[1], proj):
            again = programs.run_bin(binary, ["run", e, "-q"], d)
            if not programs.same_output(r1[1], again[1], None):
                r2 = (r2[0], r1[1], r2[2])
        shutil.rmtree(d, ignore_errors=True)
        shutil.rmtree(d2, ignore_errors=True)
        return proj, r1, c, t, r2

    from . import c04
    single = c04.failing_and_colliding_programs() + [p for p in projects if len(p["files"]) == 1 and "import" not in list(p["files"].values())[0]]
    res = programs.pmap(one, single[:limit])
    n = 0
    for proj, r1, c, t, r2 in res:
        if c[0] != 0:
            continue
        n += 1
        if t[0] != 0:
            ctx.report("transpile-fails:" + proj["name"], "transpile rejects the compiler's own raw-text output for %s" % proj["name"],
                       {"project": proj, "stderr": t[2][-1500:]})
            continue
        if 124 in (r1[0], r2[0]):
            continue
        if not programs.same_output(r1[1], r2[1], proj) or programs.exit_class(r1[0]) != programs.exit_class(r2[0]):
            ctx.report("run-vs-pipeline:" + proj["name"], "run and raw-text->transpile->execute differ on %s" % proj["name"],
                       {"project": proj, "run": {"rc": r1[0], "stdout": r1[1][-2000:]}, "pipeline": {"rc": r2[0], "stdout": r2[1][-2000:], "stderr": r2[2][-1000:]}})
    return n


def run(ctx):
    ok = core.coq_props(ctx, "Props/C18.v")
    binary = core.build_repo()
    ops, dep = opcodes.parse(core.REPO)
    ctx.cov["opcode_table"] = {"opcodes": len(ops), "deprecated": dep, "translated_from": "bytecode/src/instruction_constants.rs"}
    cases, n_exh = cc.gen_cases(ctx, 1500 if ctx.quick() else 20000, 0)
    # every opcode of the current table once, with and without arguments
    for name, idx in ops:
        if idx == 0:
            continue
        cases.append(("F", [("t#f", [(idx, ["a b", "\\\"\t"]), (idx, [])])]))
    cases = [c for c in cases if c[0] == "F" and all(1 <= op < len(ops) for _, b in c[1] for op, _ in b)]
    impl, model = cc.run_tie(ctx, cases)
    dis = spec_fail = nontrivial = 0
    seen = set()
    for c, i, m in zip(cases, impl, model):
        key = cc.canon_fns(c[1])
        special = any(ch in a for _, b in c[1] for _, args in b for a in args for ch in '"\\ \t\n\r')
        if special and key not in seen:
            nontrivial += 1
        seen.add(key)
        wf = cc.wf_case(c, True)
        bad_spec = wf and i["tload"] != cc.spec_fns(c)
        if bad_spec:
            spec_fail += 1
            ctx.report("text-roundtrip", "function not carried through raw-text -> transpile -> load: %r -> %r" % (c[1], i["tload"]),
                       {"case": c, "impl": i, "model": m})
        for f in ("text", "tbin", "tload"):
            if i[f] != m[f]:
                dis += 1
                if not bad_spec:
                    ctx.report("correspondence:" + f, "codec model and implementation disagree on field %s for case %r: impl=%r model=%r" % (f, c, str(i[f])[:300], str(m[f])[:300]),
                               {"case": c, "field": f, "impl": i[f], "model": m[f], "correspondence": "T4 codec (Codec/Text.v vs text writer/transpiler/loader)"},
                               found_input=False)
                break
    ctx.cov["evaluations"] = len(cases)
    ctx.cov["distinct_nontrivial"] = nontrivial
    ctx.cov["exhaustive"] = True
    ctx.cov["exhaustive_part"] = "%d strings = all strings of length <=4 over %r; every opcode of the table" % (n_exh, cc.ALPHABET)
    ctx.cov["rule"] = "as C04, through text writer -> transpile_file -> loader; non-trivial = distinct case with a quote, backslash or whitespace in an argument"
    ctx.cov["model_impl_disagreements"] = dis
    ctx.cov["spec_failures"] = spec_fail
    ctx.sample({"case": cases[999][1], "impl_tload": str(impl[999]["tload"])[:200]})
    projects = programs.corpus_from_tests() + programs.corpus_from_examples()
    ctx.rng.shuffle(projects)
    n = system_level(ctx, binary, projects, 100 if ctx.quick() else len(projects))
    ctx.cov["programs_through_pipeline"] = n
    ctx.cov["traces_validated_against_impl"] = n
    ctx.cov["trusted_base"] = ["Coq 8.16.1 kernel (coqc; vm_compute for the finite opcode-table facts)", "no axioms (closed under the global context)",
                               "translator gen/opcodes.py (instruction_constants.rs -> Gen/OpcodeTable.v)",
                               "extraction: ExtrOcamlBasic only; extract/codec_driver.ml glue", "harness/codec + hooks H3/H4"]
    ctx.assumptions = ["read_line/BufReader split only on LF; UTF-8 bijection", "model Codec/Text.v hand-written, tied by this run's differential comparison"]
    core.proof_or_search(ctx, ok, ["C18_text_roundtrip", "C18_transpile_emits_binary", "C18_table_ok"], spec_fail > 0)
