"""Ties for generated Core MScript programs (shared by C01, C07, C09, C12, C15, C17):

  T1  code generator: real emitted bytecode (dump hook) == Compile/Compile.v on the same AST
  T2  VM: Vm/Model.v on the REAL bytecode == interpreter (stdout, outcome, stack, per-instruction trace)
  T3  end to end: real stdout / outcome == Lang/Eval.v (the reference semantics = the specification)
"""
import os
import shutil

from . import core, extract, programs, vmtie, coregen

FUEL = 300000


def drivers():
    return extract.build("core", "CoreExtract.v", "core_driver.ml"), vmtie.driver()


def gen_programs(ctx, n, **kw):
    out = []
    for i in range(n):
        g = coregen.Gen(ctx.rng, **kw)
        tree = g.program()
        tree = coregen.assign_spans(tree, "main.ms")
        out.append({"name": "gen%d" % i, "files": {"main.ms": coregen.render_ms(tree)}, "entry": "main.ms", "tree": tree})
    return out


def run_core_model(core_drv, proj, workdir):
    tf = os.path.join(workdir, "ast.tok")
    with open(tf, "w") as f:
        f.write(coregen.render_tokens(proj["tree"]))
    rc, out, err = core.sh([core_drv, tf, "main.mmm", str(FUEL)], timeout=120)
    if rc != 0:
        return None, "core driver crashed: " + err.decode("utf8", "replace")[-300:]
    txt = out.decode("utf8", "replace")
    code_part, eval_part = txt.split("\nEVAL\n", 1) if "\nEVAL\n" in txt else (txt, "")
    code_txt = code_part[len("CODE\n"):] if code_part.startswith("CODE\n") else code_part
    certs = []
    lines = []
    for l in code_txt.split("\n"):
        if l.startswith("CERT "):
            certs.append(l[5:] == "true")
        else:
            lines.append(l)
    fns = programs.parse_dump("file 8 main.mmm\n" + "\n".join(lines) + ("\n" if lines and lines[-1] != "" else ""))
    fns = fns.get("main.mmm", {})
    ev_lines, result = [], None
    for l in eval_part.split("\n"):
        if l.startswith("OUT "):
            ev_lines.append(bytes.fromhex(l[4:]).decode("utf8", "replace"))
        elif l.startswith("OUT"):
            ev_lines.append("")
        elif l.startswith("RESULT "):
            result = tuple(l[7:].split(" "))
    return {"code": fns, "certs": certs, "eval_out": ev_lines, "eval_result": result}, None


def strip_file(name):
    return name.split("#", 1)[1] if "#" in name else name


def compare_code(real_dump, model_code):
    """T1: same functions, same instructions (capture lists of make_function as sets)"""
    real = {}
    for f, fns in real_dump.items():
        for n, b in fns.items():
            real[n] = programs.canon_code(b)
    model = {strip_file(n): programs.canon_code(b) for n, b in model_code.items()}
    if set(real) != set(model):
        return "functions differ: real=%s model=%s" % (sorted(real), sorted(model))
    for n in sorted(real):
        if real[n] != model[n]:
            k = 0
            while k < min(len(real[n]), len(model[n])) and real[n][k] == model[n][k]:
                k += 1
            return "function %s differs at instruction %d: real=%r model=%r" % (n, k, real[n][k:k + 3], model[n][k:k + 3])
    return None


def compare_spec(real, m):
    """T3: the property itself -- real stdout / outcome versus the reference semantics"""
    res = m["eval_result"]
    if res is None:
        return "skip", "no eval result"
    if res[0] == "fuel" or real["rc"] == 124:
        return "skip", "fuel/timeout"
    real_lines = real["stdout"].split("\n")
    if real_lines and real_lines[-1] == "":
        real_lines.pop()
    model_lines = "\n".join(m["eval_out"]).split("\n") if m["eval_out"] else []
    if real_lines != model_lines:
        return "FAIL:stdout", {"real": real_lines[-6:], "spec": model_lines[-6:], "n": (len(real_lines), len(model_lines))}
    if res[0] == "done":
        if real["rc"] != 0:
            return "FAIL:exit", {"real_rc": real["rc"], "stderr": real["stderr"][-500:], "spec": "done"}
        return "ok", ""
    # spec says failure
    kind = res[1]
    rk, detail, stack = vmtie.parse_real_error(real["stderr"])
    if real["rc"] == 0:
        return "FAIL:exit", {"real_rc": 0, "spec": res}
    if kind == "type":
        return "FAIL:type-error-in-spec", {"spec": res, "real": (rk, detail)}
    if kind == "assert":
        span = bytes.fromhex(res[2]).decode() if len(res) > 2 else ""
        if rk != "assert" or detail != span:
            return "FAIL:error", {"spec": ("assert", span), "real": (rk, detail)}
    if kind == "overflow":
        # the property demands a failure; which class (error vs Rust panic) is C17's and C05's subject
        return "ok-overflow-" + rk, ""
    if kind == "div_zero" and rk == "panic":
        return "ok-divzero-panic", ""
    return "ok", ""


def tie_all(ctx, binary, projs, label, want_t1=True):
    core_drv, vm_drv = drivers()
    base = ctx.mktemp()

    def one(proj):
        real = vmtie.run_real(binary, proj, base)
        d = real["dir"]
        res = {"proj": proj, "real": real, "t1": None, "t2": None, "t3": None, "cert": None}
        if real["dump"] is None:
            res["status"] = "rejected"
            res["stderr"] = real["stderr"][-600:]
            shutil.rmtree(d, ignore_errors=True)
            return res
        m, err = run_core_model(core_drv, proj, d)
        if m is None:
            res["status"] = "model-crash"
            res["err"] = err
            shutil.rmtree(d, ignore_errors=True)
            return res
        dump = programs.parse_dump(open(real["dump"], "rb").read())
        if want_t1:
            res["t1"] = compare_code(dump, m["code"])
        res["cert"] = m["certs"]
        vm = vmtie.run_model(vm_drv, real["dump"], "main.mmm#__module__")
        res["t2"] = vmtie.compare(proj, real, vm)
        res["t3"] = compare_spec(real, m)
        res["status"] = "ran"
        res["steps"] = len(real["trace"])
        real["trace"] = real["trace"][:0]
        shutil.rmtree(d, ignore_errors=True)
        return res

    return programs.pmap(one, projs)
