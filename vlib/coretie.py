"""Ties for generated Core MScript programs (shared by C01, C07, C09, C12, C15, C17):

  T1  code generator: real emitted bytecode (dump hook) == Compile/Compile.v on the same AST
  T2  VM: Vm/Model.v on the REAL bytecode == interpreter (stdout, outcome, stack, per-instruction trace)
  T3  end to end: real stdout / outcome == Lang/Eval.v (the reference semantics = the specification)
"""
import os
import shutil

from . import core, extract, programs, vmtie, coregen

FUEL = 300000
MAX_STEPS = 2500


def drivers():
    return extract.build("core", "CoreExtract.v", "core_driver.ml"), vmtie.driver()


def gen_programs(ctx, n, **kw):
    out = []
    for i in range(n):
        g = coregen.Gen(ctx.rng, **kw)
        tree = g.program()
        # half of the programs are written with only the parentheses the precedence table requires:
        # the parser must build the same tree (|| < && < comparisons < + - < * / % < prefix)
        coregen.MINIMAL_PARENS = (i % 2 == 1)
        try:
            tree = coregen.assign_spans(tree, "main.ms")
            src = coregen.render_ms(tree)
        finally:
            coregen.MINIMAL_PARENS = False
        out.append({"name": "gen%d" % i, "files": {"main.ms": src}, "entry": "main.ms", "tree": tree, "minimal_parens": i % 2 == 1})
    return out


def run_core_model(core_drv, proj, workdir, fuel=None):
    tf = os.path.join(workdir, "ast.tok")
    with open(tf, "w") as f:
        f.write(coregen.render_tokens(proj["tree"]))
    rc, out, err = core.sh([core_drv, tf, "main.mmm", str(FUEL if fuel is None else fuel)], timeout=120)
    if rc == 124:
        return None, "timeout"
    if rc != 0:
        return None, "core driver crashed: " + err.decode("utf8", "replace")[-300:]
    txt = out.decode("utf8", "replace")
    code_part, eval_part = txt.split("\nEVAL\n", 1) if "\nEVAL\n" in txt else (txt, "")
    code_txt = code_part[len("CODE\n"):] if code_part.startswith("CODE\n") else code_part
    certs = []
    lines = []
    frag = None
    for l in code_txt.split("\n"):
        if l.startswith("CERT "):
            certs.append(l[5:] == "true")
        elif l.startswith("FRAG "):
            frag = l[5:] == "true"
        else:
            lines.append(l)
    fns = programs.parse_dump("file 8 main.mmm\n" + "\n".join(lines) + ("\n" if lines and lines[-1] != "" else ""))
    fns = fns.get("main.mmm", {})
    ev_lines, result = [], None
    for l in eval_part.split("\n"):
        if l.startswith("OUT "):
            ev_lines.append(bytes.fromhex(l[4:]).decode("utf8", "replace"))
        elif l.startswith("OUT"):
            ev_lines.append("")
        elif l.startswith("RESULT "):
            result = tuple(l[7:].split(" "))
    return {"code": fns, "certs": certs, "eval_out": ev_lines, "eval_result": result, "in_fragment": frag}, None


def strip_file(name):
    return name.split("#", 1)[1] if "#" in name else name


def compare_code(real_dump, model_code):
    """T1: same functions, same instructions (capture lists of make_function as sets)"""
    real = {}
    for f, fns in real_dump.items():
        for n, b in fns.items():
            real[n] = programs.canon_code(b)
    model = {strip_file(n): programs.canon_code(b) for n, b in model_code.items()}
    if set(real) != set(model):
        return "functions differ: real=%s model=%s" % (sorted(real), sorted(model))
    for n in sorted(real):
        if real[n] != model[n]:
            k = 0
            while k < min(len(real[n]), len(model[n])) and real[n][k] == model[n][k]:
                k += 1
            return "function %s differs at instruction %d: real=%r model=%r" % (n, k, real[n][k:k + 3], model[n][k:k + 3])
    return None


def compare_spec(real, m):
    """T3: the property itself -- real stdout / outcome versus the reference semantics"""
    res = m["eval_result"]
    if res is None:
        return "skip", "no eval result"
    if res[0] == "fuel" or real["rc"] == 124:
        return "skip", "fuel/timeout"
    real_lines = real["stdout"].split("\n")
    if real_lines and real_lines[-1] == "":
        real_lines.pop()
    model_lines = "\n".join(m["eval_out"]).split("\n") if m["eval_out"] else []
    if real_lines != model_lines:
        return "FAIL:stdout", {"real": real_lines[-6:], "spec": model_lines[-6:], "n": (len(real_lines), len(model_lines))}
    if res[0] == "done":
        if real["rc"] != 0:
            return "FAIL:exit", {"real_rc": real["rc"], "stderr": real["stderr"][-500:], "spec": "done"}
        return "ok", ""
    # spec says failure
    kind = res[1]
    rk, detail, stack = vmtie.parse_real_error(real["stderr"])
    if real["rc"] == 0:
        return "FAIL:exit", {"real_rc": 0, "spec": res}
    if kind == "type":
        return "FAIL:type-error-in-spec", {"spec": res, "real": (rk, detail)}
    if kind == "assert":
        span = bytes.fromhex(res[2]).decode() if len(res) > 2 else ""
        if rk != "assert" or detail != span:
            return "FAIL:error", {"spec": ("assert", span), "real": (rk, detail)}
    if kind == "unwrap_nil":
        span = bytes.fromhex(res[2]).decode() if len(res) > 2 else ""
        if rk != "unwrap_nil" or detail != span:
            return "FAIL:error", {"spec": ("unwrap_nil", span), "real": (rk, detail)}
    if kind == "overflow":
        # the property demands a failure; which class (error vs Rust panic) is C17's and C05's subject
        return "ok-overflow-" + rk, ""
    if kind == "div_zero" and rk == "panic":
        return "ok-divzero-panic", ""
    return "ok", ""


def tie_all(ctx, binary, projs, label, want_t1=True):
    core_drv, vm_drv = drivers()
    base = ctx.mktemp()

    def one(proj):
        real = vmtie.run_real(binary, proj, base)
        d = real["dir"]
        res = {"proj": proj, "real": real, "t1": None, "t2": None, "t3": None, "cert": None}
        if real["dump"] is None:
            res["status"] = "rejected"
            res["stderr"] = real["stderr"][-600:]
            shutil.rmtree(d, ignore_errors=True)
            return res
        # very long runs: compile with the model (T1) but do not replay them on the list-based reference semantics
        m, err = run_core_model(core_drv, proj, d, fuel=(1 if len(real["trace"]) > 8 * MAX_STEPS else None))
        if m is None:
            res["status"] = "model-crash"
            res["err"] = err
            shutil.rmtree(d, ignore_errors=True)
            return res
        dump = programs.parse_dump(open(real["dump"], "rb").read())
        if want_t1:
            res["t1"] = compare_code(dump, m["code"])
        res["cert"] = m["certs"]
        res["in_fragment"] = m["in_fragment"]
        if len(real["trace"]) > MAX_STEPS:
            res["t2"] = ("fuel", "run longer than %d instructions: not replayed on the model" % MAX_STEPS)
        else:
            vm = vmtie.run_model(vm_drv, real["dump"], "main.mmm#__module__")
            res["t2"] = vmtie.compare(proj, real, vm)
        res["t3"] = compare_spec(real, m)
        res["status"] = "ran"
        res["steps"] = len(real["trace"])
        real["trace"] = real["trace"][:0]
        shutil.rmtree(d, ignore_errors=True)
        return res

    return programs.pmap(one, projs)


def render_like(proj, tree):
    """render a (shrunk) tree the way the program it came from was written (minimal or full parentheses)"""
    coregen.MINIMAL_PARENS = bool(proj.get("minimal_parens"))
    try:
        return coregen.render_ms(tree)
    finally:
        coregen.MINIMAL_PARENS = False


def slim(proj):
    return {k: v for k, v in proj.items() if k != "tree"}


def report_results(ctx, binary, results, label, shrink_budget=40, max_shrinks=1):
    """turn tie results into reports + statistics (shared by C01, C07, C12, C15, C17)"""
    st = {"programs": 0, "rejected": 0, "t1_equal": 0, "t2_agree": 0, "t3_ok": 0, "steps": 0, "skipped": 0, "model_crash": 0,
          # programs inside the decidable fragment of Compile/StmtFragB.v: C01_fragment_correct_partial is a theorem about
          # them; with T1 equal it is a theorem about the code the REAL compiler emitted for them
          "in_proved_fragment": 0, "in_proved_fragment_and_real_code_equal": 0}
    shrinks = 0
    kinds = {}
    for r in results:
        proj = r["proj"]
        if r["status"] == "rejected":
            st["rejected"] += 1
            continue
        if r["status"] == "model-crash":
            st["model_crash"] += 1
            continue
        st["programs"] += 1
        st["steps"] += r.get("steps", 0)
        if r.get("in_fragment"):
            st["in_proved_fragment"] += 1
            if r["t1"] is None:
                st["in_proved_fragment_and_real_code_equal"] += 1
        if r["t1"] is None:
            st["t1_equal"] += 1
        else:
            ctx.report("correspondence:codegen", "code-generator model and compiler emit different code for %s: %s" % (proj["name"], r["t1"][:300]),
                       {"project": slim(proj), "difference": r["t1"], "correspondence": "T1 Compile/Compile.v vs emitted bytecode"}, found_input=False)
        t2 = r["t2"]
        if t2[0] == "agree":
            st["t2_agree"] += 1
        elif t2[0].startswith("DISAGREE"):
            ctx.report("correspondence:vm-model:" + t2[0].split(":", 1)[1], "VM model and interpreter disagree (%s) on %s: %s" % (t2[0], proj["name"], str(t2[1])[:300]),
                       {"project": slim(proj), "status": t2[0], "detail": t2[1], "correspondence": "T2 Vm/Model.v vs interpreter"}, found_input=False)
        t3 = r["t3"]
        k = t3[0]
        kinds[k] = kinds.get(k, 0) + 1
        if k.startswith("ok"):
            st["t3_ok"] += 1
        elif k == "skip":
            st["skipped"] += 1
        elif k.startswith("FAIL"):
            tree = proj.get("tree")
            small = tree
            if tree is not None and shrinks < max_shrinks:
                shrinks += 1

                def fails(t, k=k, proj=proj):
                    t = coregen.assign_spans([s[:2] if s[0] == "assert" else s for s in t], "main.ms")
                    p = {"name": "shrunk", "files": {"main.ms": render_like(proj, t)}, "entry": "main.ms", "tree": t}
                    rr = tie_all(ctx, binary, [p], label)[0]
                    return rr["status"] == "ran" and rr["t3"][0] == k
                try:
                    small = coregen.shrink(tree, fails, budget=shrink_budget)
                except Exception:
                    small = tree
            src = render_like(proj, small) if small is not None else proj["files"]["main.ms"]
            ctx.report("semantics:" + k.split(":", 1)[1],
                       "running the program differs from the language semantics (%s): %s\n%s" % (k, str(t3[1])[:300], src[:700]),
                       {"program": src, "original": proj["files"]["main.ms"], "difference": t3[1],
                        "how": "mscript run main.ms -q  versus the reference semantics Lang/Eval.v"})
        if r["cert"] is not None and not all(r["cert"]):
            ctx.report("certificate-rejected", "the verified structural checker rejects the model-compiled code of %s" % proj["name"],
                       {"project": slim(proj)}, found_input=False)
    st["t3_kinds"] = kinds
    return st
