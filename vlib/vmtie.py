"""T2 tie: the Coq VM model (extracted) versus the real interpreter on the REAL emitted bytecode.

For a project: run `mscript run entry -q` with the trace and dump hooks, feed the dumped
instruction streams to the extracted model, compare stdout, outcome class, error stack and the
per-instruction trace (function, ip, opcode, call-stack depth, operand-stack length)."""
import os
import re
import shutil

from . import core, extract, programs

FUEL = 400000


def driver():
    return extract.build("vm", "VmExtract.v", "vm_driver.ml")


def parse_real_error(stderr):
    """-> (kind, detail, stack labels innermost first) from the interpreter's banner"""
    if "MSCRIPT INTERPRETER FATAL RUNTIME ERROR" not in stderr:
        if "MSCRIPT INTERPRETER STACK MISMATCH" in stderr:
            return ("stack_mismatch", "", [])
        if "panicked at" in stderr:
            m = re.search(r"panicked at ([^\n]*)", stderr)
            return ("panic", m.group(1) if m else "", [])
        return ("other", stderr[-300:], [])
    stack = []
    m = re.search(r"Call stack trace:\n(.*?)\n\nCaused by:", stderr, re.S)
    if m:
        for line in m.group(1).splitlines():
            line = line.strip()
            if line.startswith(">> "):
                stack.append(line[3:].strip())
            elif line.startswith("^ "):
                stack.append(line[2:].strip())
    caused = stderr.split("Caused by:", 1)[1] if "Caused by:" in stderr else ""
    kind = "err"
    if "An explicit assertion failed" in caused:
        mm = re.search(r"assertion failed in this program \(([^)]*)\)", caused)
        return ("assert", mm.group(1) if mm else "", stack)
    if "unwrap of `nil`" in caused:
        mm = re.search(r">> (.*?): unwrap of `nil`", caused)
        return ("unwrap_nil", mm.group(1) if mm else "", stack)
    if "by zero" in caused.lower() or "divide by 0" in caused.lower() or "division by zero" in caused.lower():
        return ("div_zero", "", stack)
    return (kind, caused.strip()[-300:], stack)


def run_real(binary, proj, base, timeout=20, release=False):
    d = programs.materialize(proj, base)
    tr, dump = os.path.join(d, "_trace"), os.path.join(d, "_dump")
    rc, out, err = programs.run_bin(binary, ["run", proj["entry"], "-q"], d,
                                    {"MSCRIPT_VERIF_TRACE": tr, "MSCRIPT_VERIF_DUMP": dump}, timeout=timeout)
    trace = []
    if os.path.exists(tr):
        for l in open(tr, encoding="utf8", errors="replace"):
            p = l.rstrip("\n").split("\t")
            if len(p) == 5:
                trace.append((p[0], int(p[1]), int(p[2]), int(p[3]), int(p[4])))
    return {"dir": d, "rc": rc, "stdout": out, "stderr": err, "trace": trace, "dump": dump if os.path.exists(dump) else None}


def run_model(drv, dump_path, entry_qualified, fuel=FUEL, timeout=120):
    rc, out, err = core.sh([drv, dump_path, entry_qualified, str(fuel)], timeout=timeout)
    if rc == 124:
        return {"result": ("fuel",), "out": [], "trace": [], "stack": []}
    if rc != 0:
        return {"result": ("driver_crash", err.decode("utf8", "replace")[-300:]), "out": [], "trace": [], "stack": []}
    lines, trace, result, stack = [], [], None, []
    for l in out.decode("utf8", "replace").split("\n"):
        if l.startswith("OUT "):
            lines.append(bytes.fromhex(l[4:]).decode("utf8", "replace"))
        elif l.startswith("OUT"):
            lines.append("")
        elif l.startswith("RESULT "):
            result = tuple(l[7:].split(" "))
        elif l.startswith("STACK "):
            stack = l[6:].split("\t")
        elif l.startswith("T "):
            p = l[2:].split("\t")
            trace.append((p[0], int(p[1]), int(p[2]), int(p[3]), int(p[4])))
    return {"result": result, "out": lines, "trace": trace, "stack": stack}


def compare(proj, real, model):
    """-> (status, detail).  status: 'agree' | 'unsupported' | 'fuel' | 'skip' | 'DISAGREE:<what>'"""
    res = model["result"]
    if res is None or res[0] == "driver_crash":
        return "DISAGREE:driver", str(res)
    if res[0] == "fuel":
        return "fuel", ""
    if res[0] == "err" and res[1] == "unsupported":
        return "unsupported", res[2] if len(res) > 2 else ""
    if real["rc"] == 124:
        return "skip", "timeout"
    real_lines = real["stdout"].split("\n")
    if real_lines and real_lines[-1] == "":
        real_lines.pop()
    # a multi-line string printed by one print statement is one model line
    model_lines = "\n".join(model["out"]).split("\n") if model["out"] else []
    if real_lines != model_lines:
        return "DISAGREE:stdout", {"real": real_lines[-8:], "model": model_lines[-8:]}
    # outcome
    if res[0] == "done":
        if real["rc"] != 0:
            return "DISAGREE:outcome", {"real_rc": real["rc"], "model": res, "stderr": real["stderr"][-400:]}
    elif res[0] == "stack_mismatch":
        if "STACK MISMATCH" not in real["stderr"]:
            return "DISAGREE:outcome", {"real_rc": real["rc"], "model": res}
    elif res[0] == "err":
        kind, detail, stack = parse_real_error(real["stderr"])
        mk = res[1]
        if mk == "panic":
            if kind != "panic":
                return "DISAGREE:outcome", {"real": (kind, detail), "model": res}
        else:
            if kind in ("panic", "other", "stack_mismatch") or real["rc"] != 1:
                return "DISAGREE:outcome", {"real": (kind, detail, real["rc"]), "model": res}
            if mk == "assert":
                span = bytes.fromhex(res[2]).decode() if len(res) > 2 else ""
                if kind != "assert" or detail != span:
                    return "DISAGREE:error", {"real": (kind, detail), "model": ("assert", span)}
            if mk == "unwrap_nil" and kind != "unwrap_nil":
                return "DISAGREE:error", {"real": (kind, detail), "model": res}
            if model["stack"] != stack:
                return "DISAGREE:stack", {"real": stack, "model": model["stack"]}
    # trace
    rt, mt = real["trace"], model["trace"]
    if rt != mt:
        k = 0
        while k < min(len(rt), len(mt)) and rt[k] == mt[k]:
            k += 1
        return "DISAGREE:trace", {"at": k, "real": rt[k:k + 2], "model": mt[k:k + 2], "len": (len(rt), len(mt))}
    return "agree", ""


def tie_projects(ctx, binary, projects, label="vm-model"):
    """run every project on implementation and model; returns stats, reports disagreements"""
    drv = driver()
    base = ctx.mktemp()

    def one(proj):
        real = run_real(binary, proj, base)
        if real["dump"] is None:
            shutil.rmtree(real["dir"], ignore_errors=True)
            return proj, real, None, ("skip", "no dump (compile error?)")
        entry = proj["entry"][:-3] + ".mmm#__module__"
        model = run_model(drv, real["dump"], entry)
        st = compare(proj, real, model)
        shutil.rmtree(real["dir"], ignore_errors=True)
        return proj, real, model, st

    stats = {}
    results = programs.pmap(one, projects)
    for proj, real, model, (st, detail) in results:
        key = st.split(":")[0] if st.startswith("DISAGREE") else st
        stats[key] = stats.get(key, 0) + 1
        if st.startswith("DISAGREE"):
            ctx.report("correspondence:%s:%s" % (label, st.split(":", 1)[1]),
                       "VM model and interpreter disagree (%s) on %s: %s" % (st, proj["name"], str(detail)[:400]),
                       {"project": proj, "status": st, "detail": detail, "correspondence": "T2 VM model (Vm/Model.v) vs bytecode interpreter"},
                       found_input=False)
    return stats, results
